/* mshim.c - malloc-layout perturbing LD_PRELOAD shim for C12 (determinism of generators).
 *
 * Every allocation is moved and dirtied in a way that depends only on MSHIM_SEED (a per-run number chosen by
 * the check), so that output derived from an address or from uninitialised heap memory differs between two
 * runs even with address-space randomisation switched off:
 *   - at start-up a seed-dependent amount of heap is allocated and kept (moves the heap top: brk AND mmap paths),
 *   - every block is preceded by a seed-dependent pad (16..256 bytes, multiple of 16) in front of a 32-byte header,
 *   - fresh memory (malloc, the grown tail of realloc, aligned allocations) is filled with a seed-dependent byte
 *     (calloc memory is zero, as the standard requires),
 *   - freed memory is overwritten with another seed-dependent byte before it goes back to the real allocator
 *     (MSHIM_POISON_FREE=0 switches that off).
 * The real allocator is found with dlsym(RTLD_NEXT); allocations made while dlsym itself runs are served from
 * a static arena (never freed).  Single-threaded users only (the EXPRESS tools have no threads).
 *
 * build: gcc -O1 -shared -fPIC -o mshim.so mshim.c -ldl
 */
#define _GNU_SOURCE
#include <dlfcn.h>
#include <stddef.h>
#include <stdint.h>
#include <stdlib.h>
#include <string.h>
#include <errno.h>
#include <unistd.h>

#define MAGIC 0x6d5348494d6d5348ULL   /* "mSHIMmSH" */

typedef struct {
    uint64_t magic;
    void * base;      /* what the real allocator returned */
    size_t size;      /* bytes the user asked for */
    uint64_t pad_;    /* keeps the header 32 bytes: user pointer stays 16-aligned */
} hdr_t;

static void * ( *real_malloc )( size_t );
static void ( *real_free )( void * );
static int state;            /* 0 = not initialised, 1 = resolving, 2 = ready */
static size_t pad = 16;
static unsigned char fill_new = 0xA5, fill_free = 0x5A;
static int poison_free = 1;

static unsigned char arena[1 << 16] __attribute__( ( aligned( 16 ) ) );
static size_t arena_used;

static int in_arena( const void * p ) {
    return ( const unsigned char * )p >= arena && ( const unsigned char * )p < arena + sizeof arena;
}

static void * arena_alloc( size_t n ) {
    size_t need = ( n + 15 ) & ~( size_t )15;
    if( arena_used + need > sizeof arena ) {
        static const char msg[] = "mshim: bootstrap arena exhausted\n";
        if( write( 2, msg, sizeof msg - 1 ) ) {}
        _exit( 98 );
    }
    void * p = arena + arena_used;
    arena_used += need;
    return p;             /* static storage: already zero, which is what calloc needs */
}

static uint64_t mix( uint64_t x ) {   /* splitmix64 */
    x += 0x9e3779b97f4a7c15ULL;
    x = ( x ^ ( x >> 30 ) ) * 0xbf58476d1ce4e5b9ULL;
    x = ( x ^ ( x >> 27 ) ) * 0x94d049bb133111ebULL;
    return x ^ ( x >> 31 );
}

static void init( void ) {
    if( state ) {
        return;
    }
    state = 1;
    real_malloc = ( void * ( * )( size_t ) )dlsym( RTLD_NEXT, "malloc" );
    real_free = ( void ( * )( void * ) )dlsym( RTLD_NEXT, "free" );
    if( !real_malloc || !real_free ) {
        static const char msg[] = "mshim: cannot resolve the real allocator\n";
        if( write( 2, msg, sizeof msg - 1 ) ) {}
        _exit( 98 );
    }
    uint64_t seed = 1;
    const char * s = getenv( "MSHIM_SEED" );
    if( s && *s ) {
        seed = strtoull( s, 0, 10 );
    } else {
        seed = ( uint64_t )getpid() * 2654435761u;
    }
    uint64_t r = mix( seed );
    pad = 16 * ( 1 + ( size_t )( r % 16 ) );
    fill_new = ( unsigned char )( 1 + ( ( r >> 8 ) % 254 ) );
    fill_free = ( unsigned char )( 1 + ( ( r >> 16 ) % 254 ) );
    const char * pf = getenv( "MSHIM_POISON_FREE" );
    if( pf && *pf == '0' ) {
        poison_free = 0;
    }
    state = 2;
    /* move the heap: a small block on the brk heap and a large one that the real allocator maps separately */
    size_t small = 16 * ( 1 + ( size_t )( ( r >> 24 ) % 4096 ) );          /* up to 64 kB  */
    size_t large = 4096 * ( 64 + ( size_t )( ( r >> 40 ) % 1024 ) );        /* 256 kB..4 MB */
    volatile char * a = ( volatile char * )real_malloc( small );
    volatile char * b = ( volatile char * )real_malloc( large );
    if( a ) {
        a[0] = 1;
    }
    if( b ) {
        b[0] = 1;
    }
}

static void * place( void * base, size_t align, size_t size ) {
    uintptr_t u = ( uintptr_t )base + pad + sizeof( hdr_t );
    if( align > 16 ) {
        u = ( u + align - 1 ) & ~( uintptr_t )( align - 1 );
    }
    hdr_t * h = ( hdr_t * )( u - sizeof( hdr_t ) );
    h->magic = MAGIC;
    h->base = base;
    h->size = size;
    h->pad_ = 0;
    return ( void * )u;
}

static void * alloc( size_t align, size_t size, int zero ) {
    if( state == 1 ) {
        return arena_alloc( size );
    }
    init();
    size_t extra = pad + sizeof( hdr_t ) + ( align > 16 ? align : 0 );
    if( size > ( size_t ) - 1 - extra ) {
        errno = ENOMEM;
        return 0;
    }
    void * base = real_malloc( size + extra );
    if( !base ) {
        return 0;
    }
    void * p = place( base, align, size );
    memset( p, zero ? 0 : fill_new, size );
    return p;
}

static hdr_t * header_of( void * p ) {
    hdr_t * h = ( hdr_t * )( ( char * )p - sizeof( hdr_t ) );
    return h->magic == MAGIC ? h : 0;
}

void * malloc( size_t size ) {
    return alloc( 16, size, 0 );
}

void * calloc( size_t n, size_t size ) {
    if( size && n > ( size_t ) - 1 / size ) {
        errno = ENOMEM;
        return 0;
    }
    return alloc( 16, n * size, 1 );
}

void free( void * p ) {
    if( !p || in_arena( p ) ) {
        return;
    }
    init();
    hdr_t * h = header_of( p );
    if( !h ) {
        real_free( p );   /* not ours (allocated before the shim was active) */
        return;
    }
    void * base = h->base;
    if( poison_free ) {
        memset( p, fill_free, h->size );
    }
    h->magic = 0;
    real_free( base );
}

void * realloc( void * p, size_t size ) {
    if( !p ) {
        return alloc( 16, size, 0 );
    }
    if( in_arena( p ) ) {
        void * q = alloc( 16, size, 0 );
        if( q ) {
            size_t room = ( size_t )( arena + sizeof arena - ( unsigned char * )p );
            memcpy( q, p, size < room ? size : room );
        }
        return q;
    }
    hdr_t * h = header_of( p );
    if( !h ) {
        /* foreign block of unknown size: cannot be moved safely by us */
        static void * ( *real_realloc )( void *, size_t );
        if( !real_realloc ) {
            real_realloc = ( void * ( * )( void *, size_t ) )dlsym( RTLD_NEXT, "realloc" );
        }
        return real_realloc( p, size );
    }
    if( size == 0 ) {
        free( p );
        return 0;
    }
    void * q = alloc( 16, size, 0 );
    if( !q ) {
        return 0;
    }
    memcpy( q, p, h->size < size ? h->size : size );
    free( p );
    return q;
}

int posix_memalign( void ** out, size_t align, size_t size ) {
    if( align < sizeof( void * ) || ( align & ( align - 1 ) ) ) {
        return EINVAL;
    }
    void * p = alloc( align, size, 0 );
    if( !p ) {
        return ENOMEM;
    }
    *out = p;
    return 0;
}

void * aligned_alloc( size_t align, size_t size ) {
    return alloc( align, size, 0 );
}

void * memalign( size_t align, size_t size ) {
    return alloc( align, size, 0 );
}

void * valloc( size_t size ) {
    return alloc( 4096, size, 0 );
}

void * pvalloc( size_t size ) {
    return alloc( 4096, ( size + 4095 ) & ~( size_t )4095, 0 );
}

size_t malloc_usable_size( void * p ) {
    if( !p || in_arena( p ) ) {
        return 0;
    }
    hdr_t * h = header_of( p );
    return h ? h->size : 0;
}
