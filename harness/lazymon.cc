// lazymon FILE [--order id,id,...] [--inverse]
// Prints what the eager reader and the lazy loader see for the same exchange file.
//   EAGER n / E id name hex(STEPwrite)            eager reader (STEPfile::ReadExchangeFile)
//   LAZY total / K keyword ids.. / F id ids.. / R id ids.. / D id ids..
//   L seq id same(0|1|-) hex(STEPwrite)           loadInstance in the given order; same = pointer equals an earlier load of that id
//   V id attrname declared(agg|single) ids..      inverse attributes after loadInstance (with --inverse)
extern void SchemaInit( class Registry & );
#include "cllazyfile/lazyInstMgr.h"
#include "cleditor/STEPfile.h"
#include "clstepcore/sdai.h"
#include "clstepcore/STEPattribute.h"
#include "clstepcore/STEPaggregate.h"
#include "clstepcore/ExpDict.h"
#include "clstepcore/Registry.h"
#include <iostream>
#include <sstream>
#include <set>
#include <map>
#include <vector>
#include <cstdio>
#include <cstring>
#include <cstdlib>

static std::string hex( const std::string & s ) {
    static const char * d = "0123456789abcdef"; std::string o;
    for( size_t i = 0; i < s.size(); i++ ) { unsigned char c = s[i]; o += d[c >> 4]; o += d[c & 15]; }
    return o.empty() ? "-" : o;
}

int main( int argc, char ** argv ) {
    std::ostringstream & sink = *new std::ostringstream;
    std::cout.rdbuf( sink.rdbuf() );
    const char * file = argv[1];
    std::vector<int> order; bool inverse = false; bool noeager = false;
    for( int i = 2; i < argc; i++ ) {
        if( !strcmp( argv[i], "--inverse" ) ) inverse = true;
        else if( !strcmp( argv[i], "--noeager" ) ) noeager = true;
        else if( !strcmp( argv[i], "--order" ) && i + 1 < argc ) {
            char * spec = strdup( argv[++i] );
            for( char * t = strtok( spec, "," ); t; t = strtok( 0, "," ) ) order.push_back( atoi( t ) );
        }
    }
    std::vector<int> ids; std::set<std::string> kws;
    if( !noeager ) {
        Registry reg( SchemaInit ); InstMgr im; STEPfile sf( reg, im, "", false );
        Severity s = sf.ReadExchangeFile( file );
        printf( "EAGER %d sev=%d\n", im.InstanceCount(), ( int )s );
        for( int i = 0; i < im.InstanceCount(); i++ ) {
            MgrNode * mn = im.GetMgrNode( i ); SDAI_Application_instance * se = mn->GetApplication_instance();
            std::ostringstream w; se->STEPwrite( w, 0, 0 );
            std::string nm = se->IsComplex() ? "" : se->EntityName();
            printf( "E %d %s %s\n", mn->GetFileId(), nm.empty() ? "-" : nm.c_str(), hex( w.str() ).c_str() );
            ids.push_back( mn->GetFileId() );
            if( !nm.empty() ) kws.insert( nm );
        }
        im.DeleteInstances();
    }
    fflush( stdout );
    lazyInstMgr * mgr = new lazyInstMgr;
    mgr->initRegistry( SchemaInit );
    mgr->openFile( file );
    printf( "LAZY %lu\n", mgr->totalInstanceCount() );
    kws.insert( "" );
    for( std::set<std::string>::iterator k = kws.begin(); k != kws.end(); ++k ) {
        std::string up = *k; for( size_t j = 0; j < up.size(); j++ ) up[j] = toupper( up[j] );
        instanceTypes_t::cvector * v = mgr->getInstances( up );
        printf( "K %s", up.empty() ? "-" : up.c_str() );
        if( v ) for( size_t j = 0; j < v->size(); j++ ) printf( " %llu", ( unsigned long long )( *v )[j] );
        printf( "\n" );
    }
    // ids to query: the eager ids plus the load order ids plus a window
    std::set<int> q( ids.begin(), ids.end() ); q.insert( order.begin(), order.end() );
    for( std::set<int>::iterator it = q.begin(); it != q.end(); ++it ) {
        instanceRefs_t::cvector * f = mgr->getFwdRefs()->find( *it );
        printf( "F %d", *it ); if( f ) for( size_t j = 0; j < f->size(); j++ ) printf( " %llu", ( unsigned long long )( *f )[j] ); printf( "\n" );
        instanceRefs_t::cvector * r = mgr->getRevRefs()->find( *it );
        printf( "R %d", *it ); if( r ) for( size_t j = 0; j < r->size(); j++ ) printf( " %llu", ( unsigned long long )( *r )[j] ); printf( "\n" );
        instanceSet * d = mgr->instanceDependencies( *it );
        printf( "D %d", *it ); if( d ) { for( instanceSet::iterator di = d->begin(); di != d->end(); ++di ) printf( " %llu", ( unsigned long long )*di ); delete d; } printf( "\n" );
    }
    fflush( stdout );
    std::map<int, SDAI_Application_instance *> seen;
    for( size_t k = 0; k < order.size(); k++ ) {
        int id = order[k];
        printf( "B %zu %d\n", k, id ); fflush( stdout );
        SDAI_Application_instance * in = mgr->loadInstance( id );
        if( !in || in == ENTITY_NULL ) { printf( "L %zu %d - FAIL\n", k, id ); continue; }
        const char * same = "-";
        if( seen.count( id ) ) same = ( seen[id] == in ) ? "1" : "0";
        seen[id] = in;
        std::ostringstream w; in->STEPwrite( w, 0, 0 );
        printf( "L %zu %d %s %s\n", k, id, same, hex( w.str() ).c_str() );
        if( inverse ) {
            const SDAI_Application_instance::iAMap_t & m = in->getInvAttrs();
            for( SDAI_Application_instance::iAMap_t::const_iterator it = m.begin(); it != m.end(); ++it ) {
                const Inverse_attribute * ia = it->first;
                bool agg = ia->IsAggrType();
                printf( "V %d %s %s", id, ia->Name(), agg ? "agg" : "single" );
                if( agg ) {
                    if( it->second.a ) {
                        EntityNode * en = ( EntityNode * )it->second.a->GetHead();
                        while( en ) { printf( " %d", en->node ? en->node->StepFileId() : -1 ); en = ( EntityNode * )en->NextNode(); }
                    } else printf( " null" );
                } else {
                    if( it->second.i ) printf( " %d", it->second.i->StepFileId() ); else printf( " null" );
                }
                printf( "\n" );
            }
        }
        fflush( stdout );
    }
    printf( "DONE\n" );
    fflush( stdout );
    return 0;
}
