"""C19 driver - runs the REAL stepcode.AggregationDataTypes classes (found through PYTHONPATH) on operation scripts.

usage: python3 c19_drv.py <jobs.json> <out.json>

jobs.json = {"jobs": [job, ...]}.  Two job modes (no judging happens here - outcomes are only recorded):

 mode "explore": {"cfg": CFG, "ops": [OP...], "obs": [OP...], "depth": N, "cap": max states}
    breadth-first walk over the distinct REAL object states (fingerprint of the instance __dict__) reachable from the
    freshly constructed container by <= N operations of "ops".  Every state is reached by replaying its shortest
    operation path on a fresh object (no copying).  Per state: outcome of every op in "obs" (reads + queries, applied to
    one object in the listed order) and whether they changed the fingerprint; per state of depth < N: for every op its
    outcome and the state it leads to.
 mode "seq": {"cfg": CFG, "ops": [OP...]}  outcome of each op in order on one object.

CFG = {"kind": ARRAY|LIST|BAG|SET, "b1": int, "b2": int|null, "unique": bool, "optional": bool, "base": T}
T   = INTEGER|REAL|STRING | [kind, b1, b2, T]  (a nested aggregate declaration, see harness/c19_nest.py)
OP  = ["set", i, VAL] | ["get", i] | ["add", VAL] | ["q", method_name]
VAL = [type_name, python_value] | [T, token, "shared"|"separate"]  (aggregate-valued element built by c19_nest.Builder)
outcome = ["v", type_name, repr] value returned (an element built from a token: ["v", "AGG", token])
        | ["x", exception_class, message] | ["b", "BuildError", message] the element of the operation could not be built
"""
import json
import sys

import stepcode.AggregationDataTypes as A
from stepcode.SimpleDataTypes import INTEGER, REAL, STRING, BINARY, Unknown

import c19_nest

TYPES = {'INTEGER': INTEGER, 'REAL': REAL, 'STRING': STRING, 'BINARY': BINARY}


BUILDER = [None]        # builder of the container under test (seq mode with a nested base type / aggregate values)


def mkval(v):
    if isinstance(v[0], str):
        return TYPES[v[0]](v[1])
    return BUILDER[0].element(v[0], v[1], v[2])


def construct(cfg):
    BUILDER[0] = c19_nest.Builder(cfg['base'])
    base = BUILDER[0].base.obj          # the class for a simple type, the declaration object for an aggregate
    k = cfg['kind']
    if k == 'ARRAY':
        return A.ARRAY(cfg['b1'], cfg['b2'], base, UNIQUE=cfg['unique'], OPTIONAL=cfg['optional'])
    if k == 'LIST':
        return A.LIST(cfg['b1'], cfg['b2'], base, UNIQUE=cfg['unique'])
    if k == 'BAG':
        return A.BAG(cfg['b1'], cfg['b2'], base)
    if k == 'SET':
        return A.SET(cfg['b1'], cfg['b2'], base)
    raise ValueError(k)


def enc(r):
    if r is Unknown:
        return ['v', 'LOGICAL', 'Unknown']
    if BUILDER[0] is not None and id(r) in BUILDER[0].token_of:
        return ['v', 'AGG', repr(BUILDER[0].token_of[id(r)])]
    return ['v', type(r).__name__, repr(r)]


def do(obj, op):
    try:
        t = op[0]
        if t == 'set':
            obj[op[1]] = mkval(op[2])
            r = None
        elif t == 'get':
            r = obj[op[1]]
        elif t == 'add':
            r = obj.add(mkval(op[1]))
        elif t == 'q':
            r = getattr(obj, op[1])()
        else:
            raise ValueError(t)
        return enc(r)
    except c19_nest.BuildError as e:
        return ['b', 'BuildError', str(e)]
    except Exception as e:                    # the exception class IS the recorded outcome
        return ['x', type(e).__name__, str(e)[:120]]


def fp_val(v):
    if isinstance(v, (list, tuple)):
        return '[' + ','.join(fp_val(x) for x in v) + ']'
    if isinstance(v, (set, frozenset)):
        return '{' + ','.join(sorted(fp_val(x) for x in v)) + '}'
    if isinstance(v, dict):
        return '<' + ','.join(sorted('%s=%s' % (k, fp_val(x)) for k, x in v.items())) + '>'
    if isinstance(v, type):
        return 'T:' + v.__name__
    if v is Unknown:
        return 'Unknown'
    return type(v).__name__ + ':' + repr(v)


def fingerprint(obj):
    return fp_val(vars(obj))


def explore(job):
    cfg, ops, obs, depth, cap = job['cfg'], job['ops'], job['obs'], job['depth'], job.get('cap', 200000)
    try:
        o = construct(cfg)
    except Exception as e:
        return {'construct': ['x', type(e).__name__, str(e)[:120]]}
    out = {'construct': ['v', type(o).__name__, '']}
    outs, out_ix = [], {}

    def oid(x):
        k = json.dumps(x)
        i = out_ix.get(k)
        if i is None:
            i = out_ix[k] = len(outs)
            outs.append(x)
        return i

    ids = {fingerprint(o): 0}
    paths = [[]]
    trans = []          # per state: flat [out_id, next_state, ...] or None (depth limit)
    observ = []         # per state: [out_id...]
    mutated = []        # per state: 1 when the observation ops changed the fingerprint
    problems = []
    i = 0
    while i < len(paths):
        path = paths[i]
        # observation
        o = construct(cfg)
        for k in path:
            do(o, ops[k])
        f0 = fingerprint(o)
        if ids.get(f0) != i:
            problems.append('replay of state %d is not deterministic' % i)
        observ.append([oid(do(o, q)) for q in obs])
        mutated.append(0 if fingerprint(o) == f0 else 1)
        if len(path) < depth:
            row = []
            for k, op in enumerate(ops):
                o = construct(cfg)
                for j in path:
                    do(o, ops[j])
                r = do(o, op)
                f = fingerprint(o)
                n = ids.get(f)
                if n is None:
                    if len(paths) >= cap:
                        problems.append('state cap %d reached' % cap)
                        n = -1
                    else:
                        n = ids[f] = len(paths)
                        paths.append(path + [k])
                row += [oid(r), n]
            trans.append(row)
        else:
            trans.append(None)
        i += 1
    out.update(outs=outs, paths=paths, trans=trans, obs=observ, mutated=mutated, problems=problems,
               fp0=None)
    return out


def seq(job):
    try:
        o = construct(job['cfg'])
    except Exception as e:
        return {'construct': ['x', type(e).__name__, str(e)[:120]], 'outs': []}
    res = [do(o, op) for op in job['ops']]
    return {'construct': ['v', type(o).__name__, ''], 'outs': res, 'fp': fingerprint(o)}


def main():
    with open(sys.argv[1]) as f:
        jobs = json.load(f)['jobs']
    res = []
    for j in jobs:
        res.append(explore(j) if j['mode'] == 'explore' else seq(j))
    with open(sys.argv[2], 'w') as f:
        json.dump({'results': res, 'module': A.__file__}, f, separators=(',', ':'))


if __name__ == '__main__':
    main()
