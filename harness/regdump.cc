// regdump: print the run-time dictionary registered by a generated schema library, one JSON object per line.
//   {"k":"schema",...}  {"k":"entity",...}  {"k":"type",...}  {"k":"inst",...}  {"k":"done"}
// usage: regdump            dictionary + instances
//        regdump dict       dictionary only
//        regdump inst A B.. instances only, skipping entities A B .. (used to continue after a crash in one constructor);
//                           an argument w:A keeps the instance of A but does not write it
//        regdump find FILE  look names up the way an application does: each line of FILE is `S name` (Registry::FindSchema),
//                           `T name` (FindType) or `E name` (FindEntity, then ObjCreate by that name) -> {"k":"find",...}
//        regdump read FILE  read the Part 21 file with STEPfile::ReadExchangeFile -> one {"k":"read-inst"} per instance
//                           id listed in FILE.ids, then {"k":"read",...}
//        regdump bounds FILE  attribute-dependent aggregate bounds: each line of FILE is `entity case-id attr=int attr=int ...`;
//                           an instance of the entity is created with ObjCreate, the named INTEGER attributes are set, and for
//                           every aggregate-typed attribute descriptor of the entity and of its supertypes (first supertype chain)
//                           each aggregate level with a bound of type bound_runtime is evaluated for that instance with
//                           Bound1Runtime() / Bound2Runtime() -> {"k":"rtb",...}
// After the {"k":"inst"} record of an entity the fresh instance is written with STEPwrite: {"k":"inst-p21","entity":..,"text":..}
// Only getters of the dictionary classes are used (Registry iteration, descriptor accessors, ObjCreate).
// The library's cout chatter is discarded; every line is flushed so that a crash leaves the lines before it.
extern void SchemaInit( class Registry & );
#include "clstepcore/sdai.h"
#include "clstepcore/STEPattribute.h"
#include "clstepcore/ExpDict.h"
#include "clstepcore/Registry.h"
#include "clstepcore/aggrTypeDescriptor.h"
#include "clstepcore/enumTypeDescriptor.h"
#include "clstepcore/selectTypeDescriptor.h"
#include "clstepcore/inverseAttribute.h"
#include "clstepcore/derivedAttribute.h"
#include "clstepcore/instmgr.h"
#include "cleditor/STEPfile.h"
#include <fstream>
#include <iostream>
#include <sstream>
#include <string>
#include <cstdio>
#include <cstring>
#include <strings.h>
#include <cstdlib>

static std::string js( const char * s ) {
    if( !s ) {
        return "null";
    }
    std::string o = "\"";
    for( ; *s; s++ ) {
        unsigned char c = ( unsigned char ) * s;
        if( c == '"' || c == '\\' ) {
            o += '\\';
            o += ( char )c;
        } else if( c < 0x20 || c >= 0x7f ) {
            char b[8];
            snprintf( b, sizeof b, "\\u%04x", c );
            o += b;
        } else {
            o += ( char )c;
        }
    }
    return o + "\"";
}
static std::string js( const std::string & s ) {
    return js( s.c_str() );
}
static std::string num( long v ) {
    char b[32];
    snprintf( b, sizeof b, "%ld", v );
    return b;
}

static const char * ptname( int t ) {
    switch( t ) {
        case sdaiINTEGER: return "INTEGER";
        case sdaiREAL: return "REAL";
        case sdaiBOOLEAN: return "BOOLEAN";
        case sdaiLOGICAL: return "LOGICAL";
        case sdaiSTRING: return "STRING";
        case sdaiBINARY: return "BINARY";
        case sdaiENUMERATION: return "ENUMERATION";
        case sdaiSELECT: return "SELECT";
        case sdaiINSTANCE: return "INSTANCE";
        case sdaiAGGR: return "AGGR";
        case sdaiNUMBER: return "NUMBER";
        case ARRAY_TYPE: return "ARRAY";
        case BAG_TYPE: return "BAG";
        case SET_TYPE: return "SET";
        case LIST_TYPE: return "LIST";
        case GENERIC_TYPE: return "GENERIC";
        case REFERENCE_TYPE: return "REFERENCE";
        case UNKNOWN_TYPE: return "UNKNOWN";
    }
    return "?";
}

static const char * lg( int v ) {   // Logical as text
    return v == LFalse ? "F" : v == LTrue ? "T" : v == LUnknown ? "U" : "unset";
}

static const char * btname( AggrBoundTypeEnum b ) {
    return b == bound_unset ? "unset" : b == bound_constant ? "constant" : b == bound_runtime ? "runtime" : "funcall";
}

// description of a type descriptor; named types / base types / entities below the top level are given by name only
static std::string tdj( const TypeDescriptor * t, int depth ) {
    if( !t ) {
        return "null";
    }
    std::string o = "{";
    const EntityDescriptor * ed = dynamic_cast< const EntityDescriptor * >( t );
    if( ed ) {
        return o + "\"c\":\"entity\",\"name\":" + js( ed->Name() ) + ",\"ft\":" + js( ptname( ed->Type() ) ) + "}";
    }
    o += "\"name\":" + js( t->Name() ) + ",\"ft\":" + js( ptname( t->Type() ) );
    if( depth > 0 && t->Name() && *t->Name() ) {
        return o + ",\"c\":\"named\"}";
    }
    if( depth > 8 ) {
        return o + ",\"c\":\"too deep\"}";
    }
    o += ",\"nonref\":" + js( ptname( t->NonRefType() ) ) + ",\"desc\":" + js( t->Description() );
    TypeDescriptor * nt = const_cast< TypeDescriptor * >( t );
    AggrTypeDescriptor * at = dynamic_cast< AggrTypeDescriptor * >( nt );
    EnumTypeDescriptor * et = dynamic_cast< EnumTypeDescriptor * >( nt );
    SelectTypeDescriptor * st = dynamic_cast< SelectTypeDescriptor * >( nt );
    if( at ) {
        const char * cls = dynamic_cast< ArrayTypeDescriptor * >( nt ) ? "array" : dynamic_cast< ListTypeDescriptor * >( nt ) ? "list" :
                           dynamic_cast< SetTypeDescriptor * >( nt ) ? "set" : dynamic_cast< BagTypeDescriptor * >( nt ) ? "bag" : "aggr";
        o += std::string( ",\"c\":\"" ) + cls + "\"";
        o += std::string( ",\"b1t\":\"" ) + btname( at->Bound1Type() ) + "\",\"b2t\":\"" + btname( at->Bound2Type() ) + "\"";
        if( at->Bound1Type() == bound_constant ) {
            o += ",\"b1\":" + num( ( long )at->Bound1() );
        }
        if( at->Bound2Type() == bound_constant ) {
            o += ",\"b2\":" + num( ( long )at->Bound2() );
        }
        if( at->Bound1Type() == bound_funcall ) {
            o += ",\"b1s\":" + js( at->Bound1Funcall() );
        }
        if( at->Bound2Type() == bound_funcall ) {
            o += ",\"b2s\":" + js( at->Bound2Funcall() );
        }
        o += std::string( ",\"uniq\":\"" ) + lg( at->UniqueElements().asInt() ) + "\"";
        ArrayTypeDescriptor * ar = dynamic_cast< ArrayTypeDescriptor * >( nt );
        if( ar ) {
            o += std::string( ",\"optel\":\"" ) + lg( ar->OptionalElements().asInt() ) + "\"";
        }
    } else if( et ) {
        o += ",\"c\":\"enum\",\"items\":";
        SDAI_Enum * e = et->CreateEnum();
        if( !e ) {
            o += "null";
        } else {
            o += "[";
            int n = e->no_elements();
            for( int i = 0; i < n; i++ ) {
                o += ( i ? "," : "" ) + js( e->element_at( i ) );
            }
            o += "]";
        }
    } else if( st ) {
        o += ",\"c\":\"select\",\"members\":[";
        TypeDescItr it( st->GetElements() );
        const TypeDescriptor * m;
        int i = 0;
        while( ( m = it.NextTypeDesc() ) ) {
            o += ( i++ ? "," : "" ) + tdj( m, depth + 1 );
        }
        o += "]";
    } else {
        o += ",\"c\":\"plain\"";
    }
    o += ",\"ref\":" + tdj( t->ReferentType(), depth + 1 );
    return o + "}";
}

static std::string attrj( const AttrDescriptor * a ) {
    std::string o = "{\"name\":" + js( a->Name() );
    o += std::string( ",\"opt\":\"" ) + lg( a->Optional().asInt() ) + "\"";
    o += std::string( ",\"uniq\":\"" ) + lg( a->Unique().asInt() ) + "\"";
    const char * at = a->AttrType() == AttrType_Explicit ? "explicit" : a->AttrType() == AttrType_Inverse ? "inverse" :
                      a->AttrType() == AttrType_Deriving ? "deriving" : a->AttrType() == AttrType_Redefining ? "redefining" : "?";
    o += std::string( ",\"at\":\"" ) + at + "\"";
    o += std::string( ",\"explicit\":\"" ) + lg( a->Explicit() ) + "\",\"deriving\":\"" + lg( a->Deriving() ) + "\",\"redefining\":\"" + lg( a->Redefining() )
         + "\",\"derived\":\"" + lg( a->Derived() ) + "\"";
    o += ",\"owner\":" + js( a->Owner().Name() );
    o += ",\"tname\":" + js( a->TypeName() );
    o += ",\"nonref\":" + js( a->DomainType() ? ptname( a->NonRefType() ) : 0 );
    o += ",\"type\":" + tdj( a->DomainType(), 0 );
    // a named domain type is given by name: tdj(.,0) expands it, which is what the check wants for the top level too
    o += ",\"tnamed\":" + std::string( ( a->DomainType() && a->DomainType()->Name() && *a->DomainType()->Name() ) ? "true" : "false" );
    return o + "}";
}

int main( int argc, char ** argv ) {
    std::ostringstream & sink = *new std::ostringstream; // never destroyed: cout is flushed after main returns
    std::cout.rdbuf( sink.rdbuf() );
    bool want_inst = !( argc > 1 && !strcmp( argv[1], "dict" ) );
    bool want_dict = !( argc > 1 && !strcmp( argv[1], "inst" ) );
    Registry reg( SchemaInit );
    if( argc > 2 && !strcmp( argv[1], "find" ) ) {
        std::ifstream in( argv[2] );
        std::string kind, name;
        while( in >> kind >> name ) {
            std::string o = "{\"k\":\"find\",\"what\":" + js( kind ) + ",\"name\":" + js( name );
            if( kind == "S" ) {
                const Schema * x = reg.FindSchema( name.c_str() );
                o += std::string( ",\"found\":" ) + ( x ? "true" : "false" ) + ",\"dname\":" + js( x ? x->Name() : 0 );
            } else if( kind == "T" ) {
                const TypeDescriptor * x = reg.FindType( name.c_str() );
                o += std::string( ",\"found\":" ) + ( x ? "true" : "false" ) + ",\"dname\":" + js( x ? x->Name() : 0 );
            } else {
                const EntityDescriptor * x = reg.FindEntity( name.c_str() );
                o += std::string( ",\"found\":" ) + ( x ? "true" : "false" ) + ",\"dname\":" + js( x ? x->Name() : 0 );
                printf( "{\"k\":\"find-begin\",\"name\":%s}\n", js( name ).c_str() );
                fflush( stdout );
                SDAI_Application_instance * se = reg.ObjCreate( name.c_str() );
                bool ok = se && se != ENTITY_NULL;
                o += std::string( ",\"created\":" ) + ( ok ? "true" : "false" ) + ",\"ename\":" + js( ok ? se->EntityName() : 0 );
            }
            printf( "%s}\n", o.c_str() );
            fflush( stdout );
        }
        printf( "{\"k\":\"done\"}\n" );
        fflush( stdout );
        return 0;
    }
    if( argc > 2 && !strcmp( argv[1], "read" ) ) {
        std::ostringstream & esink = *new std::ostringstream;
        std::cerr.rdbuf( esink.rdbuf() );     // the reader's diagnostics; sanitizer reports do not go through std::cerr
        InstMgr instances;
        STEPfile sfile( reg, instances, "", false );
        sfile.ReadExchangeFile( argv[2] );
        std::ifstream in( ( std::string( argv[2] ) + ".ids" ).c_str() );
        std::string w;
        while( in >> w ) {
            int id = atoi( w.c_str() );
            MgrNode * mn = instances.FindFileId( id );
            SDAI_Application_instance * se = mn ? mn->GetApplication_instance() : 0;
            bool ok = se && se != ENTITY_NULL;
            printf( "{\"k\":\"read-inst\",\"id\":%d,\"present\":%s,\"ename\":%s,\"count\":%d}\n", id, ok ? "true" : "false",
                    js( ok ? se->EntityName() : 0 ).c_str(), ok ? se->AttributeCount() : -1 );
            fflush( stdout );
        }
        printf( "{\"k\":\"read\",\"n\":%d,\"severity\":%d,\"msg\":%s,\"log\":%s}\n", instances.InstanceCount(), ( int )sfile.Error().severity(),
                js( esink.str().substr( 0, 600 ) ).c_str(), js( sink.str().substr( 0, 1500 ) ).c_str() );
        printf( "{\"k\":\"done\"}\n" );
        fflush( stdout );
        return 0;
    }
    if( argc > 2 && !strcmp( argv[1], "bounds" ) ) {
        std::ifstream in( argv[2] );
        std::string line;
        while( std::getline( in, line ) ) {
            std::istringstream ls( line );
            std::string ename, caseid, kv;
            if( !( ls >> ename >> caseid ) ) {
                continue;
            }
            printf( "{\"k\":\"rtb-begin\",\"entity\":%s,\"case\":%s}\n", js( ename ).c_str(), js( caseid ).c_str() );
            fflush( stdout );
            const EntityDescriptor * ied = reg.FindEntity( ename.c_str() );
            SDAI_Application_instance * se = reg.ObjCreate( ename.c_str() );
            if( !ied || !se || se == ENTITY_NULL ) {
                printf( "{\"k\":\"rtb-inst\",\"entity\":%s,\"case\":%s,\"created\":false}\n", js( ename ).c_str(), js( caseid ).c_str() );
                fflush( stdout );
                continue;
            }
            std::string setlog = "[";
            int nset = 0;
            while( ls >> kv ) {
                size_t eq = kv.find( '=' );
                if( eq == std::string::npos ) {
                    continue;
                }
                std::string an = kv.substr( 0, eq );
                long v = atol( kv.c_str() + eq + 1 );
                bool done = false;
                int cnt = se->AttributeCount();
                for( int i = 0; i < cnt && !done; i++ ) {
                    STEPattribute & a = se->attributes[i];
                    if( a.Name() && !strcasecmp( a.Name(), an.c_str() ) && a.Integer() ) {
                        *a.Integer() = v;
                        done = true;
                    }
                }
                setlog += std::string( nset++ ? "," : "" ) + "{\"attr\":" + js( an ) + ",\"value\":" + num( v ) + ",\"set\":" + ( done ? "true" : "false" ) + "}";
            }
            setlog += "]";
            printf( "{\"k\":\"rtb-inst\",\"entity\":%s,\"case\":%s,\"created\":true,\"ename\":%s,\"set\":%s}\n", js( ename ).c_str(), js( caseid ).c_str(),
                    js( se->EntityName() ).c_str(), setlog.c_str() );
            fflush( stdout );
            // the entity and its first-supertype chain (the generated C++ class derives from the class of the first supertype)
            for( const EntityDescriptor * ed = ied; ed; ) {
                AttrDescItr it( ed->ExplicitAttr() );
                const AttrDescriptor * ad;
                while( ( ad = it.NextAttrDesc() ) ) {
                    const TypeDescriptor * td = ad->DomainType();
                    for( int level = 0; td && level < 8; level++, td = td->ReferentType() ) {
                        AggrTypeDescriptor * at = dynamic_cast< AggrTypeDescriptor * >( const_cast< TypeDescriptor * >( td ) );
                        if( !at ) {
                            break;
                        }
                        if( at->Bound1Type() != bound_runtime && at->Bound2Type() != bound_runtime ) {
                            continue;
                        }
                        std::string o = "{\"k\":\"rtb\",\"entity\":" + js( ename ) + ",\"case\":" + js( caseid ) + ",\"owner\":" + js( ed->Name() )
                                        + ",\"attr\":" + js( ad->Name() ) + ",\"level\":" + num( level );
                        printf( "{\"k\":\"rtb-eval\",\"entity\":%s,\"case\":%s,\"owner\":%s,\"attr\":%s,\"level\":%d}\n", js( ename ).c_str(), js( caseid ).c_str(),
                                js( ed->Name() ).c_str(), js( ad->Name() ).c_str(), level );
                        fflush( stdout );
                        if( at->Bound1Type() == bound_runtime ) {
                            o += ",\"b1\":" + num( ( long )at->Bound1Runtime( se ) );
                        }
                        if( at->Bound2Type() == bound_runtime ) {
                            o += ",\"b2\":" + num( ( long )at->Bound2Runtime( se ) );
                        }
                        printf( "%s}\n", o.c_str() );
                        fflush( stdout );
                    }
                }
                EntityDescItr si( ed->Supertypes() );
                ed = si.NextEntityDesc();
            }
        }
        printf( "{\"k\":\"done\"}\n" );
        fflush( stdout );
        return 0;
    }
    const Schema * s;
    const EntityDescriptor * e;
    const TypeDescriptor * t;
  if( want_dict ) {

    reg.ResetSchemas();
    while( ( s = reg.NextSchema() ) ) {
        printf( "{\"k\":\"schema\",\"name\":%s}\n", js( s->Name() ).c_str() );
        fflush( stdout );
    }

    reg.ResetEntities();
    while( ( e = reg.NextEntity() ) ) {
        std::string o = "{\"k\":\"entity\",\"name\":" + js( e->Name() );
        o += std::string( ",\"abstract\":\"" ) + lg( e->AbstractEntity().asInt() ) + "\"";
        o += std::string( ",\"extmap\":\"" ) + lg( e->ExtMapping().asInt() ) + "\"";
        o += ",\"ft\":" + js( ptname( e->Type() ) );
        o += ",\"schema\":" + js( e->OriginatingSchema() ? e->OriginatingSchema()->Name() : 0 );
        o += ",\"supers\":[";
        {
            EntityDescItr it( e->Supertypes() );
            const EntityDescriptor * x;
            int i = 0;
            while( ( x = it.NextEntityDesc() ) ) {
                o += ( i++ ? "," : "" ) + js( x->Name() );
            }
        }
        o += "],\"subs\":[";
        {
            EntityDescItr it( e->Subtypes() );
            const EntityDescriptor * x;
            int i = 0;
            while( ( x = it.NextEntityDesc() ) ) {
                o += ( i++ ? "," : "" ) + js( x->Name() );
            }
        }
        o += "],\"attrs\":[";
        {
            AttrDescItr it( e->ExplicitAttr() );
            const AttrDescriptor * a;
            int i = 0;
            while( ( a = it.NextAttrDesc() ) ) {
                o += ( i++ ? "," : "" ) + attrj( a );
            }
        }
        o += "],\"inverse\":[";
        {
            InverseAItr it( &( e->InverseAttr() ) );
            Inverse_attribute * a;
            int i = 0;
            while( ( a = it.NextInverse_attribute() ) ) {
                std::string x = attrj( a );
                x.erase( x.size() - 1 );
                x += ",\"inv_entity\":" + js( a->inverted_entity_id_() ) + ",\"inv_attr\":" + js( a->inverted_attr_id_() ) + "}";
                o += ( i++ ? "," : "" ) + x;
            }
        }
        o += "]}";
        printf( "%s\n", o.c_str() );
        fflush( stdout );
    }

    reg.ResetTypes();
    while( ( t = reg.NextType() ) ) {
        printf( "{\"k\":\"type\",\"schema\":%s,\"d\":%s}\n", js( t->OriginatingSchema() ? t->OriginatingSchema()->Name() : 0 ).c_str(), tdj( t, 0 ).c_str() );
        fflush( stdout );
    }
    printf( "{\"k\":\"dict-done\"}\n" );
    fflush( stdout );
  }

    if( want_inst ) {
        // names first: ObjCreate may use the registry's entity cursor
        std::string names[4096];
        int n = 0;
        reg.ResetEntities();
        while( ( e = reg.NextEntity() ) && n < 4096 ) {
            names[n++] = e->Name();
        }
        for( int k = 0; k < n; k++ ) {
            bool skip = false;
            for( int a = 2; a < argc; a++ ) {
                if( names[k] == argv[a] ) {
                    skip = true;
                }
            }
            if( skip ) {
                continue;
            }
            printf( "{\"k\":\"inst-begin\",\"entity\":%s}\n", js( names[k] ).c_str() );
            fflush( stdout );
            SDAI_Application_instance * se = reg.ObjCreate( names[k].c_str() );
            std::string o = "{\"k\":\"inst\",\"entity\":" + js( names[k] );
            if( !se || se == ENTITY_NULL ) {
                o += ",\"created\":false}";
            } else {
                o += ",\"created\":true,\"ename\":" + js( se->EntityName() ) + ",\"count\":" + num( se->AttributeCount() ) + ",\"attrs\":[";
                int cnt = se->AttributeCount();
                for( int i = 0; i < cnt; i++ ) {
                    STEPattribute & a = se->attributes[i];
                    const AttrDescriptor * ad = a.getADesc();
                    o += std::string( i ? "," : "" ) + "{\"name\":" + js( a.Name() ) + ",\"owner\":" + js( ad ? ad->Owner().Name() : 0 )
                         + ",\"derived\":" + ( a.IsDerived() ? "true" : "false" ) + ",\"null\":" + ( a.is_null() ? "true" : "false" )
                         + ",\"nonref\":" + js( ptname( a.NonRefType() ) ) + "}";
                }
                o += "]}";
            }
            printf( "%s\n", o.c_str() );
            fflush( stdout );
            bool nowrite = !se || se == ENTITY_NULL;
            for( int a = 2; a < argc; a++ ) {
                if( std::string( "w:" ) + names[k] == argv[a] ) {
                    nowrite = true;
                }
            }
            if( !nowrite ) {
                // the Part 21 text of the fresh instance: one parameter per attribute the library takes to be part of the record
                std::ostringstream p21;
                se->STEPwrite( p21, 0, 0 );
                printf( "{\"k\":\"inst-p21\",\"entity\":%s,\"text\":%s}\n", js( names[k] ).c_str(), js( p21.str() ).c_str() );
                fflush( stdout );
            }
        }
    }
    printf( "{\"k\":\"done\"}\n" );
    fflush( stdout );
    return 0;
}
