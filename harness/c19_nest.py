"""C19 builder for aggregate declarations and aggregate-valued elements (imported by harness/c19_drv.py; its source is
also pasted verbatim into the repro.py of a finding, so it must stay self-contained).

A type descriptor T is a simple type name 'INTEGER' | 'REAL' | 'STRING' or [kind, b1, b2, T] with kind one of ARRAY, LIST,
BAG, SET (b2 None = indeterminate).  A declaration tree is a chain of Node(desc, obj, child): obj is the REAL stepcode
object that stands for the declaration (the class for a simple type, an ARRAY/LIST/BAG/SET instance for an aggregate).

Element values [T', token, mode]:
  mode 'shared'    the declaration objects of T' are the container's own declaration objects wherever T' and the declared
                   base type agree at the same nesting position (maximal sharing; a declaration that differs is new, and so
                   is everything above it)
  mode 'separate'  every declaration object of T' is built anew (what two evaluations of the same EXPRESS type give)
The element is an instance of the outermost aggregate of T' and is FILLED along its first position down to one innermost
simple value derived from the token, so two elements with different tokens are different by value and by identity; the
same token within one job gives the same Python object again.
"""
import stepcode.AggregationDataTypes as A
from stepcode.SimpleDataTypes import INTEGER, REAL, STRING

SIMPLE = {'INTEGER': INTEGER, 'REAL': REAL, 'STRING': STRING}


class BuildError(Exception):
    """The element could not be built/filled - not an outcome of the operation under test."""


class Node(object):
    def __init__(self, desc, obj, child):
        self.desc, self.obj, self.child = desc, obj, child


def simple(t):
    return isinstance(t, str)


def same(a, b):
    if simple(a) or simple(b):
        return a == b
    return a[0] == b[0] and a[1] == b[1] and a[2] == b[2] and same(a[3], b[3])


def make(t, base_obj):
    return getattr(A, t[0])(t[1], t[2], base_obj)


def new_decl(t):
    if simple(t):
        return Node(t, SIMPLE[t], None)
    ch = new_decl(t[3])
    return Node(t, make(t, ch.obj), ch)


def shared_decl(t, node):
    """Declaration tree for t that reuses the objects of `node` (tree at the same nesting position) where equal."""
    if node is not None and same(t, node.desc):
        return node
    if simple(t):
        return Node(t, SIMPLE[t], None)
    ch = shared_decl(t[3], node.child if node is not None else None)
    return Node(t, make(t, ch.obj), ch)


def simple_value(name, token):
    if name == 'INTEGER':
        return INTEGER(1000 + token)
    if name == 'REAL':
        return REAL(1000.5 + token)
    return STRING('t%d' % token)


def put_first(inst, t, value):
    if t[0] == 'ARRAY':
        inst[t[1]] = value
    elif t[0] == 'LIST':
        inst[1] = value
    else:
        inst.add(value)


def fill(inst, t, base_node, token):
    """Store one element in inst (instance of aggregate type t whose base declaration is base_node), recursively."""
    if simple(base_node.desc):
        value = simple_value(base_node.desc, token)
    else:
        value = make(base_node.desc, base_node.child.obj)
        fill(value, base_node.desc, base_node.child, token)
    put_first(inst, t, value)


class Builder(object):
    """Per container: its declaration tree and the elements built so far (token -> object)."""

    def __init__(self, base_desc):
        self.base = new_decl(base_desc)
        self.by_token = {}
        self.token_of = {}

    def element(self, t, token, mode):
        if token in self.by_token:
            return self.by_token[token]
        try:
            below = self.base.child if mode == 'shared' else None
            base_node = shared_decl(t[3], below) if mode == 'shared' else new_decl(t[3])
            inst = make(t, base_node.obj)
            fill(inst, t, base_node, token)
        except Exception as e:
            raise BuildError('%s: %s' % (type(e).__name__, str(e)[:100]))
        self.by_token[token] = inst
        self.token_of[id(inst)] = token
        return inst
