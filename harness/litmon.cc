// C09 literal probe.  Linked against a fixed schema (vf/props/c09.py SCHEMA_TEXT): entity `e` with one OPTIONAL
// attribute of each simple kind, in this order:
//   0 INTEGER  1 REAL  2 NUMBER  3 STRING  4 BINARY  5 BOOLEAN  6 LOGICAL  7 ENUMERATION  8 reference to `tgt`
// argv[1] = comma separated file ids for which a `tgt` instance is registered in the InstMgr.
// stdin, one probe per line:
//   R <attr> <hex stream text>      STEPattribute::STEPread on the text
//   W <attr> <hex value>            set the value through the typed pointer, STEPwrite, then read the written text + ","
//                                   (value: decimal integer / C floating literal / raw string / binary digits /
//                                    enumeration ordinal / referenced file id)
// stdout, one line per probe (all fields hex so that no byte of a value can break the framing):
//   R <sev> <is_null> <value> <pos> <STEPwrite> <asStr>
//   W <STEPwrite> <asStr> <is_null after set> <sev> <is_null> <value> <pos>         (re-read part after the 3rd field)
// value: %ld / %.17g / raw c_str() / enumeration ordinal asInt() / file id of the referenced instance (0 = none).
// A line "B <n>" is printed (and flushed) before every probe n so that a crash is attributed to one probe.
extern void SchemaInit( class Registry & );
#include "cleditor/STEPfile.h"
#include "clstepcore/sdai.h"
#include "clstepcore/STEPattribute.h"
#include "clstepcore/Registry.h"
#include <iostream>
#include <sstream>
#include <cstdio>
#include <cstdlib>
#include <cstring>
#include <string>

static std::string unhex( const std::string & h ) {
    std::string o;
    for( size_t i = 0; i + 1 < h.size(); i += 2 ) {
        char b[3] = { h[i], h[i + 1], 0 };
        o += ( char )strtol( b, 0, 16 );
    }
    return o;
}
static std::string hex( const std::string & s ) {
    static const char * d = "0123456789abcdef";
    std::string o;
    for( size_t i = 0; i < s.size(); i++ ) {
        unsigned char c = s[i];
        o += d[c >> 4];
        o += d[c & 15];
    }
    return o.empty() ? std::string( "-" ) : o;
}

static std::string value_of( STEPattribute & a, int ai ) {
    char buf[96];
    buf[0] = 0;
    switch( ai ) {
        case 0:
            snprintf( buf, sizeof buf, "%ld", ( long )*a.Integer() );
            return buf;
        case 1:
            snprintf( buf, sizeof buf, "%.17g", ( double )*a.Real() );
            return buf;
        case 2:
            snprintf( buf, sizeof buf, "%.17g", ( double )*a.Number() );
            return buf;
        case 3:
            return std::string( a.String()->c_str() );
        case 4:
            return std::string( a.Binary()->c_str() );
        case 5:
            snprintf( buf, sizeof buf, "%d", a.Boolean()->asInt() );
            return buf;
        case 6:
            snprintf( buf, sizeof buf, "%d", a.Logical()->asInt() );
            return buf;
        case 7:
            snprintf( buf, sizeof buf, "%d", a.Enum()->asInt() );
            return buf;
        case 8: {
            SDAI_Application_instance * p = a.Entity();
            if( !p || p == S_ENTITY_NULL ) {
                return "0";
            }
            snprintf( buf, sizeof buf, "%d", p->StepFileId() );
            return buf;
        }
    }
    return "?";
}

int main( int argc, char ** argv ) {
    std::ostringstream & sink = *new std::ostringstream; // never destroyed: cout is flushed after main returns
    std::cout.rdbuf( sink.rdbuf() );
    std::cerr.rdbuf( sink.rdbuf() );
    Registry reg( SchemaInit );
    InstMgr im;
    if( argc > 1 ) {
        char * spec = strdup( argv[1] );
        for( char * t = strtok( spec, "," ); t; t = strtok( 0, "," ) ) {
            SDAI_Application_instance * ti = reg.ObjCreate( "tgt" );
            ti->StepFileId( atoi( t ) );
            im.Append( ti, completeSE );
        }
        free( spec );
    }
    SDAI_Application_instance * e = reg.ObjCreate( "e" );
    static char line[1 << 16];
    long n = 0;
    while( fgets( line, sizeof line, stdin ) ) {
        size_t L = strlen( line );
        while( L && ( line[L - 1] == '\n' || line[L - 1] == '\r' ) ) {
            line[--L] = 0;
        }
        if( L < 3 ) {
            continue;
        }
        char op = line[0];
        char * q = line + 2;
        int ai = atoi( q );
        char * sp = strchr( q, ' ' );
        std::string txt = sp ? unhex( sp + 1 ) : std::string();
        if( ai < 0 || ai > 8 ) {
            continue;
        }
        STEPattribute & a = e->attributes[ai];
        printf( "B %ld\n", n++ );
        fflush( stdout );
        sink.str( "" );
        a.set_null();
        if( op == 'R' ) {
            std::istringstream in( txt );
            Severity sev = a.STEPread( in, &im, 0, "LIT", false );
            in.clear();
            long pos = ( long )in.tellg();
            int isnull = a.is_null() ? 1 : 0;
            std::string val = value_of( a, ai );
            std::ostringstream w;
            a.STEPwrite( w, "LIT" );
            std::string as;
            a.asStr( as, "LIT" );
            printf( "R %d %d %s %ld %s %s\n", ( int )sev, isnull, hex( val ).c_str(), pos, hex( w.str() ).c_str(), hex( as ).c_str() );
        } else if( op == 'W' ) {
            switch( ai ) {
                case 0:
                    *a.Integer() = strtol( txt.c_str(), 0, 10 );
                    break;
                case 1:
                    *a.Real() = strtod( txt.c_str(), 0 );
                    break;
                case 2:
                    *a.Number() = strtod( txt.c_str(), 0 );
                    break;
                case 3:
                    *a.String() = txt.c_str();
                    break;
                case 4:
                    *a.Binary() = txt.c_str();
                    break;
                case 5:
                    a.Boolean()->put( atoi( txt.c_str() ) );
                    break;
                case 6:
                    a.Logical()->put( atoi( txt.c_str() ) );
                    break;
                case 7:
                    a.Enum()->put( atoi( txt.c_str() ) );
                    break;
                case 8: {
                    MgrNodeBase * mn = im.FindFileId( atoi( txt.c_str() ) );
                    if( mn ) {
                        *( a.ptr.c ) = mn->GetSTEPentity(); // the typed pointer (the Entity(x) setter frees a member address)
                    }
                    break;
                }
            }
            int null0 = a.is_null() ? 1 : 0;
            std::ostringstream w;
            a.STEPwrite( w, "LIT" );
            std::string as;
            a.asStr( as, "LIT" );
            std::string back = w.str() + ",";
            a.set_null();
            std::istringstream in( back );
            Severity sev = a.STEPread( in, &im, 0, "LIT", false );
            in.clear();
            long pos = ( long )in.tellg();
            int isnull = a.is_null() ? 1 : 0;
            std::string val = value_of( a, ai );
            // numeric kinds: the token the scalar writer produced, read and written again as the single element of a LIST attribute
            // (attributes 9..11) - the element writers (IntNode / RealNode) must render the same value the same way
            std::string aggw = "-";
            int aggsev = 99;
            if( ai <= 7 && !null0 && w.str().size() ) {
                STEPattribute & g = e->attributes[ai + 9];
                g.set_null();
                std::istringstream gin( "(" + w.str() + ")," );
                aggsev = ( int )g.STEPread( gin, &im, 0, "LIT", false );
                std::ostringstream gw;
                g.STEPwrite( gw, "LIT" );
                aggw = hex( gw.str() );
                g.set_null();
            }
            printf( "W %s %s %d %d %d %s %ld %s %d\n", hex( w.str() ).c_str(), hex( as ).c_str(), null0, ( int )sev, isnull, hex( val ).c_str(), pos, aggw.c_str(), aggsev );
        }
    }
    printf( "END %ld\n", n );
    fflush( stdout );
    _Exit( 0 );
}
