// Generic Registry/STEPfile driver.  Ops (argv, executed in order):
//   strict            use strict mode (must precede the first read)
//   read F | readws F | append F | appendws F
//   states id:S,id:S  S in C I N D  (ChangeState on the MgrNode)
//   dump F            per-instance dump: "@@I id state name\n<STEPwrite>@@E\n"
//   dumpattrs F       every attribute object of every instance with its own value (asStr)
//   write F | writews F
//   fresh             discard session (new Registry/InstMgr/STEPfile)
//   clear | purge     empty the instance manager of the SAME session (ClearInstances / DeleteInstances): in-place reload
// Log lines go to stdout via printf (the library's cout chatter is discarded).
extern void SchemaInit( class Registry & );
#include "cleditor/STEPfile.h"
#include "clstepcore/sdai.h"
#include "clstepcore/STEPattribute.h"
#include "clstepcore/ExpDict.h"
#include "clstepcore/Registry.h"
#include "clutils/errordesc.h"
#include <iostream>
#include <sstream>
#include <fstream>
#include <cstdio>
#include <cstring>
#include <cstdlib>

struct Session {
    Registry * reg; InstMgr * im; STEPfile * sf;
    Session( bool strict ) { reg = new Registry( SchemaInit ); im = new InstMgr; sf = new STEPfile( *reg, *im, "", strict ); }
    ~Session() { delete sf; im->DeleteInstances(); delete im; delete reg; }
};

static char stch( stateEnum s ) { switch( s ) { case completeSE: return 'C'; case incompleteSE: return 'I'; case newSE: return 'N'; case deleteSE: return 'D'; default: return '?'; } }

int main( int argc, char ** argv ) {
    std::ostringstream & sink = *new std::ostringstream; // never destroyed: cout is flushed after main returns
    std::cout.rdbuf( sink.rdbuf() );
    bool strict = false;
    Session * s = 0;
    for( int i = 1; i < argc; i++ ) {
        std::string op = argv[i];
        sink.str( "" );
        if( op == "strict" ) { strict = true; continue; }
        if( op == "fresh" ) { delete s; s = 0; continue; }
        if( op == "clear" && s ) { s->im->ClearInstances(); printf( "OP clear n=%d max=%d\n", s->im->InstanceCount(), s->im->MaxFileId() ); continue; }
        if( op == "purge" && s ) { s->im->DeleteInstances(); printf( "OP purge n=%d max=%d\n", s->im->InstanceCount(), s->im->MaxFileId() ); continue; }
        if( !s ) s = new Session( strict );
        if( op == "read" || op == "readws" || op == "append" || op == "appendws" ) {
            const char * f = argv[++i];
            Severity r;
            if( op == "read" ) r = s->sf->ReadExchangeFile( f );
            else if( op == "readws" ) r = s->sf->ReadWorkingFile( f );
            else if( op == "append" ) r = s->sf->AppendExchangeFile( f );
            else r = s->sf->AppendWorkingFile( f );
            printf( "OP %s ret=%d sev=%d n=%d max=%d\n", op.c_str(), ( int )r, ( int )s->sf->Error().severity(), s->im->InstanceCount(), s->im->MaxFileId() );
            std::string um = s->sf->Error().UserMsg(); std::string dm = s->sf->Error().DetailMsg();
            for( size_t k = 0; k < um.size(); k++ ) if( um[k] == '\n' ) um[k] = '|';
            for( size_t k = 0; k < dm.size(); k++ ) if( dm[k] == '\n' ) dm[k] = '|';
            printf( "MSG %s || %s\n", um.substr( 0, 2000 ).c_str(), dm.substr( 0, 4000 ).c_str() );
        } else if( op == "write" || op == "writews" ) {
            const char * f = argv[++i];
            Severity r = ( op == "write" ) ? s->sf->WriteExchangeFile( f ) : s->sf->WriteWorkingFile( f );
            printf( "OP %s ret=%d sev=%d n=%d\n", op.c_str(), ( int )r, ( int )s->sf->Error().severity(), s->im->InstanceCount() );
        } else if( op == "states" ) {
            char * spec = strdup( argv[++i] );
            for( char * t = strtok( spec, "," ); t; t = strtok( 0, "," ) ) {
                int id = atoi( t ); char * c = strchr( t, ':' ); if( !c ) continue;
                MgrNode * mn = s->im->FindFileId( id ); if( !mn ) { printf( "STATE %d missing\n", id ); continue; }
                stateEnum st = c[1] == 'C' ? completeSE : c[1] == 'I' ? incompleteSE : c[1] == 'N' ? newSE : deleteSE;
                mn->ChangeState( st );
            }
            free( spec );
            printf( "OP states\n" );
        } else if( op == "dump" ) {
            std::ofstream o( argv[++i] );
            int n = s->im->InstanceCount();
            o << "@@N " << n << "\n";
            // header instances
            InstMgr * him = s->sf->HeaderInstances();
            for( int k = 0; him && k < him->InstanceCount(); k++ ) {
                MgrNode * mn = him->GetMgrNode( k );
                o << "@@H " << mn->GetFileId() << "\n"; mn->GetApplication_instance()->STEPwrite( o, 0, 0 ); o << "@@E\n";
            }
            for( int k = 0; k < n; k++ ) {
                MgrNode * mn = s->im->GetMgrNode( k );
                SDAI_Application_instance * se = mn->GetApplication_instance();
                o << "@@I " << mn->GetFileId() << " " << stch( mn->CurrState() ) << " " << se->EntityName() << " idx=" << s->im->GetIndex( mn ) << " sfid=" << se->StepFileId() << "\n";
                se->STEPwrite( o, 0, 0 );
                o << "@@E\n";
            }
            printf( "OP dump n=%d\n", n );
        } else if( op == "dumpattrs" ) {
            // one line per attribute object of every instance (inherited, own and re-declaring ones): "@@A id index name value"
            std::ofstream o( argv[++i] );
            int n = s->im->InstanceCount();
            for( int k = 0; k < n; k++ ) {
                MgrNode * mn = s->im->GetMgrNode( k );
                SDAI_Application_instance * se = mn->GetApplication_instance();
                int na = se->attributes.list_length();
                for( int a = 0; a < na; a++ ) {
                    STEPattribute * at = &se->attributes[a];
                    std::string v = at->asStr();
                    for( size_t q = 0; q < v.size(); q++ ) if( v[q] == '\n' ) v[q] = ' ';
                    o << "@@A " << mn->GetFileId() << " " << a << " " << at->Name() << " " << ( at->IsDerived() ? "*" : v.c_str() ) << "\n";
                }
            }
            printf( "OP dumpattrs n=%d\n", n );
        } else {
            fprintf( stderr, "p21mon: unknown op %s\n", op.c_str() );
            return 64;
        }
        fflush( stdout );
    }
    delete s;
    printf( "DONE\n" );
    return 0;
}
