// C13 harness: interprets InstMgr operation scripts (one script per stdin line) and prints, after every operation,
// the operation's own return value and the full public view of the manager.  No generated schema is needed: the
// instances are header-schema entities (SdaiFile_name, SdaiFile_description, SdaiFile_schema).
//
// Scripts are run one after another in this process (0.2 ms each); every script's output is bracketed by "S <n>" /
// "X <n> <how>" on stdout and "@@S <n>" / "@@X <n>" on stderr, so when the process dies the driver knows which script
// was running, judges that script again ALONE in a fresh process, and restarts the batch behind it.
// `instmon --fork` runs each script in its own forked child instead (3.7 ms each under ASan): used by the driver when
// a batch keeps dying, so that every report is still attributed to exactly one script.
//
// Script: "O<0|1> op op ..."   (O1 = owning manager InstMgr(1), O0 = non-owning InstMgr(0))
//   A<c>,<id>,<st>   new instance of class c (0 File_name 1 File_description 2 File_schema); StepFileId(id) unless id==0;
//                    Append(obj, st)                   -> a<uid>:<ret!=0>:<id after>:<index of returned node|->
//   R<uid>,<st>      Append(object uid again, st)      -> <ret!=0>:<id after>
//   DN<i>            Delete(GetMgrNode(i))             -> -
//   DI<uid>          Delete(instance uid)              -> -
//   CS<i>,<st>       ChangeState(GetMgrNode(i), st)    -> -
//   CL / DA          ClearInstances / DeleteInstances  -> -
//   FF<k>            FindFileId(k)                     -> uid|-
//   GI<i>            GetApplication_instance(i)        -> uid|-
//   GN<name>,<start> GetApplication_instance(NAMES[name], start) -> uid|nil (ENTITY_NULL)|0 (null pointer)
//   IX<i>            GetIndex(GetMgrNode(i))           -> int
//   KC<name>         EntityKeywordCount(NAMES[name])   -> int
//   MX / NX          MaxFileId / NextFileId            -> int
// Output line per operation:
//   <ret> | n=<count> m=<MaxFileId> | <uid>:<id>:<GetIndex>:<state> per index | <k>:<uid> for every k in [-1, hi] with
//   FindFileId(k) != 0 | <H2 events since the previous operation>
// where hi = max(MaxFileId, highest id ever given to an instance in this script) + 2.
//
// Ownership follows the API: Delete(node|instance) and DeleteInstances free the instances (MgrNode's destructor deletes
// its instance); ClearInstances never frees them (the caller keeps them); ~InstMgr frees them only when owning.  The
// harness frees exactly what the API leaves to the caller, so ASan is quiet on correct code and reports a double free /
// use after free when the manager frees or keeps something it should not.
#include "cleditor/STEPfile.h"
#include "cleditor/SdaiHeaderSchema.h"
#include "clstepcore/sdai.h"
#include "clstepcore/instmgr.h"
#include <iostream>
#include <map>
#include <string>
#include <vector>
#include <cstdio>
#include <cstdlib>
#include <cstring>
#include <unistd.h>
#include <fcntl.h>
#include <sys/wait.h>

static const char * NAMES[] = { "File_Name", "File_Description", "File_Schema", "FILE_NAME", "file_schema",
                                "No_Such_Entity", "File_Population",
                                // proper prefixes / extensions of real entity names: must match nothing
                                "File", "File_Nam", "File_Name_Extra", "File_S" };
static const int NNAMES = sizeof( NAMES ) / sizeof( NAMES[0] );

enum Where { IN_MGR = 0, FREED = 1, DETACHED = 2 };
struct Obj {
    SDAI_Application_instance * p;
    int where;
};

static int logfd = -1;

struct Script {
    InstMgr * im;
    int owning;
    std::vector<Obj> objs;
    std::map<const void *, int> byptr;
    int hi_id;

    Script( int own ) : im( new InstMgr( own ) ), owning( own ), hi_id( 0 ) {}

    std::string uid( const void * p ) {
        if( !p ) {
            return "-";
        }
        std::map<const void *, int>::iterator it = byptr.find( p );
        if( it == byptr.end() ) {
            return "?";
        }
        char b[16];
        snprintf( b, sizeof b, "%d", it->second );
        return b;
    }
    void freed( int u ) {
        objs[u].where = FREED;
        byptr.erase( objs[u].p );
    }
    void note_id( int id ) {
        if( id > hi_id ) {
            hi_id = id;
        }
    }

    void events() {
        if( logfd < 0 ) {
            return;
        }
        char buf[4096];
        ssize_t n;
        std::string all;
        while( ( n = read( logfd, buf, sizeof buf ) ) > 0 ) {
            all.append( buf, n );
        }
        // "INSTMGR Append n=3 ok" -> "Append:3:ok"
        size_t pos = 0;
        bool first = true;
        while( pos < all.size() ) {
            size_t e = all.find( '\n', pos );
            if( e == std::string::npos ) {
                e = all.size();
            }
            std::string ln = all.substr( pos, e - pos );
            pos = e + 1;
            if( ln.compare( 0, 8, "INSTMGR " ) != 0 ) {
                continue;
            }
            ln = ln.substr( 8 );
            size_t sp = ln.find( " n=" );
            if( sp == std::string::npos ) {
                continue;
            }
            std::string op = ln.substr( 0, sp ), rest = ln.substr( sp + 3 );
            size_t sp2 = rest.find( ' ' );
            std::string cnt = rest.substr( 0, sp2 ), msg = sp2 == std::string::npos ? "" : rest.substr( sp2 + 1 );
            for( size_t i = 0; i < msg.size(); i++ ) if( msg[i] == ' ' || msg[i] == '|' ) {
                    msg[i] = '_';
                }
            printf( "%s%s:%s:%s", first ? "" : ",", op.c_str(), cnt.c_str(), msg.c_str() );
            first = false;
        }
    }

    void view() {
        int n = im->InstanceCount();
        printf( " | n=%d m=%d |", n, im->MaxFileId() );
        for( int i = 0; i < n; i++ ) {
            MgrNode * mn = im->GetMgrNode( i );
            SDAI_Application_instance * se = im->GetApplication_instance( i );
            if( !mn || !se ) {
                printf( " null" );
                continue;
            }
            if( mn->GetApplication_instance() != se ) {
                printf( " node/instance-mismatch" );
                continue;
            }
            note_id( se->StepFileId() );
            printf( " %s:%d:%d:%d", uid( se ).c_str(), se->StepFileId(), im->GetIndex( mn ), ( int )mn->CurrState() );
        }
        printf( " |" );
        int hi = ( im->MaxFileId() > hi_id ? im->MaxFileId() : hi_id ) + 2;
        if( hi > 100000 ) {
            hi = 100000;
        }
        for( int k = -1; k <= hi; k++ ) {
            MgrNode * mn = im->FindFileId( k );
            if( mn ) {
                printf( " %d:%s", k, uid( mn->GetApplication_instance() ).c_str() );
            }
        }
        printf( " | " );
        events();
        printf( "\n" );
    }

    static bool args( const char * s, int * a, int * b, int * c ) {
        int n = sscanf( s, "%d,%d,%d", a, b, c );
        return n >= 1;
    }

    // returns false on a malformed / precondition-violating op (script error, never the subject's fault)
    bool op( const std::string & t ) {
        int a = 0, b = 0, c = 0;
        const char * s = t.c_str();
        if( t[0] == 'A' ) {
            if( sscanf( s + 1, "%d,%d,%d", &a, &b, &c ) != 3 ) {
                return false;
            }
            SDAI_Application_instance * o = a == 0 ? ( SDAI_Application_instance * )new SdaiFile_name
                                            : a == 1 ? ( SDAI_Application_instance * )new SdaiFile_description
                                            : ( SDAI_Application_instance * )new SdaiFile_schema;
            if( b != 0 ) {
                o->StepFileId( b );
                note_id( b );
            }
            int u = ( int )objs.size();
            Obj ob = { o, DETACHED };
            objs.push_back( ob );
            byptr[o] = u;
            MgrNode * mn = im->Append( o, ( stateEnum )c );
            if( mn ) {
                objs[u].where = IN_MGR;
            }
            note_id( o->StepFileId() );
            printf( "a%d:%d:%d:", u, mn ? 1 : 0, o->StepFileId() );
            if( mn ) {
                printf( "%d", im->GetIndex( mn ) );
            } else {
                printf( "-" );
            }
        } else if( t[0] == 'R' ) {
            if( sscanf( s + 1, "%d,%d", &a, &b ) != 2 || a < 0 || a >= ( int )objs.size() || objs[a].where != IN_MGR ) {
                return false;
            }
            MgrNode * mn = im->Append( objs[a].p, ( stateEnum )b );
            note_id( objs[a].p->StepFileId() );
            printf( "%d:%d", mn ? 1 : 0, objs[a].p->StepFileId() );
        } else if( t.compare( 0, 2, "DN" ) == 0 ) {
            a = atoi( s + 2 );
            if( a < 0 || a >= im->InstanceCount() ) {
                return false;
            }
            MgrNode * mn = im->GetMgrNode( a );
            std::map<const void *, int>::iterator it = byptr.find( mn->GetApplication_instance() );
            if( it != byptr.end() ) {
                freed( it->second );    // Delete(node) deletes the node, whose destructor deletes the instance
            }
            im->Delete( mn );
            printf( "-" );
        } else if( t.compare( 0, 2, "DI" ) == 0 ) {
            a = atoi( s + 2 );
            if( a < 0 || a >= ( int )objs.size() || objs[a].where != IN_MGR ) {
                return false;
            }
            SDAI_Application_instance * p = objs[a].p;
            freed( a );
            im->Delete( p );
            printf( "-" );
        } else if( t.compare( 0, 2, "CS" ) == 0 ) {
            if( sscanf( s + 2, "%d,%d", &a, &b ) != 2 || a < 0 || a >= im->InstanceCount() ) {
                return false;
            }
            im->ChangeState( im->GetMgrNode( a ), ( stateEnum )b );
            printf( "-" );
        } else if( t == "CL" ) {
            im->ClearInstances();
            for( size_t i = 0; i < objs.size(); i++ ) if( objs[i].where == IN_MGR ) {
                    objs[i].where = DETACHED;    // ClearInstances does not delete: the caller keeps the instances
                }
            printf( "-" );
        } else if( t == "DA" ) {
            for( size_t i = 0; i < objs.size(); i++ ) if( objs[i].where == IN_MGR ) {
                    freed( ( int )i );    // DeleteInstances deletes every instance regardless of ownership
                }
            im->DeleteInstances();
            printf( "-" );
        } else if( t.compare( 0, 2, "FF" ) == 0 ) {
            MgrNode * mn = im->FindFileId( atoi( s + 2 ) );
            printf( "%s", mn ? uid( mn->GetApplication_instance() ).c_str() : "-" );
        } else if( t.compare( 0, 2, "GI" ) == 0 ) {
            a = atoi( s + 2 );
            if( a < 0 ) {
                return false;
            }
            printf( "%s", uid( im->GetApplication_instance( a ) ).c_str() );
        } else if( t.compare( 0, 2, "GN" ) == 0 ) {
            if( sscanf( s + 2, "%d,%d", &a, &b ) != 2 || a < 0 || a >= NNAMES || b < 0 ) {
                return false;
            }
            SDAI_Application_instance * r = im->GetApplication_instance( NAMES[a], b );
            printf( "%s", r == ENTITY_NULL ? "nil" : r == 0 ? "0" : uid( r ).c_str() );
        } else if( t.compare( 0, 2, "IX" ) == 0 ) {
            a = atoi( s + 2 );
            if( a < 0 || a >= im->InstanceCount() ) {
                return false;
            }
            printf( "%d", im->GetIndex( im->GetMgrNode( a ) ) );
        } else if( t.compare( 0, 2, "KC" ) == 0 ) {
            a = atoi( s + 2 );
            if( a < 0 || a >= NNAMES ) {
                return false;
            }
            printf( "%d", im->EntityKeywordCount( NAMES[a] ) );
        } else if( t == "MX" ) {
            printf( "%d", im->MaxFileId() );
        } else if( t == "NX" ) {
            int v = im->NextFileId();
            note_id( v );
            printf( "%d", v );
        } else {
            return false;
        }
        return true;
    }

    void finish() {
        // ~InstMgr deletes the live instances only when the manager owns them
        if( owning ) {
            for( size_t i = 0; i < objs.size(); i++ ) if( objs[i].where == IN_MGR ) {
                    freed( ( int )i );
                }
        }
        delete im;
        im = 0;
        for( size_t i = 0; i < objs.size(); i++ ) if( objs[i].where != FREED ) {
                delete objs[i].p;    // left to the caller by the API
                objs[i].where = FREED;
            }
        events();
    }
};

static int run_script( const std::string & line ) {
    size_t pos = 0;
    std::vector<std::string> toks;
    while( pos < line.size() ) {
        size_t e = line.find( ' ', pos );
        if( e == std::string::npos ) {
            e = line.size();
        }
        if( e > pos ) {
            toks.push_back( line.substr( pos, e - pos ) );
        }
        pos = e + 1;
    }
    if( toks.empty() || toks[0].size() != 2 || toks[0][0] != 'O' ) {
        printf( "BADSCRIPT header\n" );
        return 3;
    }
    Script sc( toks[0][1] == '1' );
    sc.events();    // drop anything logged before the script
    printf( "-" );
    sc.view();      // initial view
    for( size_t i = 1; i < toks.size(); i++ ) {
        if( !sc.op( toks[i] ) ) {
            printf( "\nBADSCRIPT op %d %s\n", ( int )i, toks[i].c_str() );
            return 3;
        }
        sc.view();
        fflush( stdout );
    }
    sc.finish();
    printf( "END\n" );
    fflush( stdout );
    return 0;
}

int main( int argc, char ** argv ) {
    bool nofork = !( argc > 1 && !strcmp( argv[1], "--fork" ) );
    std::cout.setstate( std::ios::badbit );
    setvbuf( stdout, 0, _IOFBF, 1 << 16 );
    const char * lp = getenv( "SC_VERIF_LOG" );
    if( lp ) {
        logfd = open( lp, O_RDONLY | O_CREAT, 0600 );
        if( logfd >= 0 ) {
            lseek( logfd, 0, SEEK_END );
        }
    }
    Registry reg( HeaderSchemaInit );
    std::vector<std::string> scripts;
    std::string line;
    while( std::getline( std::cin, line ) ) {
        if( !line.empty() ) {
            scripts.push_back( line );
        }
    }
    for( size_t n = 0; n < scripts.size(); n++ ) {
        printf( "S %d\n", ( int )n );
        fflush( stdout );
        char mark[64];
        int ml = snprintf( mark, sizeof mark, "@@S %d\n", ( int )n );
        if( write( 2, mark, ml ) < 0 ) {}
        if( nofork ) {
            int rc = run_script( scripts[n] );
            printf( "X %d exit %d\n", ( int )n, rc );
        } else {
            pid_t pid = fork();
            if( pid < 0 ) {
                printf( "X %d forkfail\n", ( int )n );
                fflush( stdout );
                return 4;
            }
            if( pid == 0 ) {
                int rc = run_script( scripts[n] );
                fflush( stdout );
                _exit( rc );
            }
            int st = 0;
            waitpid( pid, &st, 0 );
            if( WIFSIGNALED( st ) ) {
                printf( "\nX %d signal %d\n", ( int )n, WTERMSIG( st ) );
            } else {
                printf( "X %d exit %d\n", ( int )n, WEXITSTATUS( st ) );
            }
            if( logfd >= 0 ) {
                lseek( logfd, 0, SEEK_END );
            }
        }
        fflush( stdout );
        ml = snprintf( mark, sizeof mark, "@@X %d\n", ( int )n );
        if( write( 2, mark, ml ) < 0 ) {}
    }
    return 0;
}
