// The repository's own reference tool, unmodified, built against the generated schema library.
#include "p21read.cc"
#include "sc_benchmark.cc"
