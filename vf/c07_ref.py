"""C07 reference reader of EXPRESS (ISO 10303-11 edition 1), independent of stepcode's scanner/parser.

tokenize(text)            -> [Tok(kind, val, line)]   kinds: kw id int real str estr bin op rem bad
parse(text)               -> {key: Decl}   key = (scope path tuple, kind, name); Decl(ast, first_line, last_line)
expr_of(text)             -> expression tree (precedence climbing per clause 12 / annex A of ISO 10303-11)
flat(ast)                 -> in-order token list without parentheses (what "token-for-token" compares)
align(src, out)           -> `out` with string literals the printer split re-joined where `src` has one literal

Trees are nested tuples so that they compare with == and hash.  Redundant parentheses never appear in a tree.
Normal forms (so that legal re-groupings do not count as differences):
  * `a, b : T` (attributes, locals, formal parameters) is one entry per name;
  * REPEAT without BY carries the default increment `BY 1` (ISO 10303-11 13.9.1);
  * keywords / identifiers are folded to lower case, simple strings are held decoded ('' -> ');
  * REAL literals are ('real', float) and INTEGER literals ('int', int): kind and value both count.
The parser is lenient where stepcode is (chained relational operators, qualifiers after a parenthesis,
`**` chains, OPTIONAL/UNIQUE in either order) so that accepted-but-odd printer output is still compared.
"""
import re
from collections import namedtuple

Tok = namedtuple('Tok', 'kind val line')
Decl = namedtuple('Decl', 'ast first last')


class ParseError(Exception):
    pass


STRUCT_KW = set('''abstract aggregate alias array as bag begin binary boolean by case constant derive else end
end_alias end_case end_constant end_entity end_function end_if end_local end_procedure end_repeat end_rule end_schema
end_type entity enumeration escape fixed for from function generic if integer inverse list local logical number of
oneof optional otherwise procedure query real reference repeat return rule schema select set skip string subtype
supertype then to type unique until use var where while and andor div in like mod not or xor'''.split())

_OPS = [':<>:', ':=:', ':=', '<=', '>=', '<>', '<*', '**', '||',
        '+', '-', '*', '/', '<', '>', '=', '(', ')', '[', ']', '{', '}', ',', ';', ':', '.', '\\', '|', '?']
_WORD = re.compile(r'[A-Za-z][A-Za-z0-9_]*')
_NUM = re.compile(r'[0-9]+(\.[0-9]*([eE][+-]?[0-9]+)?)?')
_BIN = re.compile(r'%[01]+')
_ESTR = re.compile(r'"[0-9A-Fa-f]*"')


def tokenize(text, remarks=False):
    """Tolerant scanner: what it cannot scan becomes a 'bad' token (never raises)."""
    out = []
    i, n, line = 0, len(text), 1
    while i < n:
        c = text[i]
        if c == '\n':
            line += 1
            i += 1
            continue
        if c in ' \t\r\f\v':
            i += 1
            continue
        if c == '-' and text.startswith('--', i):
            j = text.find('\n', i)
            if j < 0:
                j = n
            if remarks:
                out.append(Tok('rem', ' '.join(text[i + 2:j].split()), line))
            i = j
            continue
        if c == '(' and text.startswith('(*', i):
            depth, j, l0 = 1, i + 2, line
            while j < n and depth:
                if text.startswith('(*', j):
                    depth += 1
                    j += 2
                elif text.startswith('*)', j):
                    depth -= 1
                    j += 2
                else:
                    if text[j] == '\n':
                        line += 1
                    j += 1
            if depth:
                out.append(Tok('bad', 'unterminated remark', l0))
            elif remarks:
                out.append(Tok('rem', ' '.join(text[i + 2:j - 2].split()), l0))
            i = j
            continue
        if c == "'":
            j = i + 1
            buf = []
            ok = False
            while j < n and text[j] != '\n':
                if text[j] == "'":
                    if j + 1 < n and text[j + 1] == "'":
                        buf.append("'")
                        j += 2
                        continue
                    ok = True
                    j += 1
                    break
                buf.append(text[j])
                j += 1
            out.append(Tok('str' if ok else 'bad', ''.join(buf), line))
            i = j
            continue
        if c == '"':
            m = _ESTR.match(text, i)
            if m:
                out.append(Tok('estr', m.group(0)[1:-1].upper(), line))
                i = m.end()
            else:
                out.append(Tok('bad', '"', line))
                i += 1
            continue
        if c == '%':
            m = _BIN.match(text, i)
            if m:
                out.append(Tok('bin', m.group(0)[1:], line))
                i = m.end()
            else:
                out.append(Tok('bad', '%', line))
                i += 1
            continue
        if c.isdigit():
            m = _NUM.match(text, i)
            s = m.group(0)
            if m.group(1) is not None:
                out.append(Tok('real', float(s), line))
            else:
                out.append(Tok('int', int(s), line))
            i = m.end()
            continue
        if c.isalpha():
            m = _WORD.match(text, i)
            w = m.group(0).lower()
            out.append(Tok('kw' if w in STRUCT_KW else 'id', w, line))
            i = m.end()
            continue
        for op in _OPS:
            if text.startswith(op, i):
                out.append(Tok('op', op, line))
                i += len(op)
                break
        else:
            out.append(Tok('bad', c, line))
            i += 1
    return out


def token_values(text, remarks=True):
    """(kind, value) pairs, line numbers dropped: two texts with the same list differ only in white space."""
    return [(t.kind, t.val) for t in tokenize(text, remarks)]


REL = ('<', '>', '<=', '>=', '<>', '=', ':<>:', ':=:', 'in', 'like')
ADD = ('+', '-', 'or', 'xor')
MUL = ('*', '/', 'div', 'mod', 'and', '||')
EOF = Tok('eof', None, -1)


class Parser(object):
    def __init__(self, text):
        self.toks = tokenize(text)
        self.p = 0
        self.decls = {}
        self.order = []

    # ---- token helpers
    def peek(self, k=0):
        i = self.p + k
        return self.toks[i] if i < len(self.toks) else EOF

    def is_(self, val, kind=None):
        t = self.peek()
        return t.val == val and t.kind in (('kw', 'op') if kind is None else (kind,))

    def acc(self, val):
        if self.is_(val):
            self.p += 1
            return True
        return False

    def exp(self, val):
        if not self.acc(val):
            t = self.peek()
            raise ParseError('line %s: expected %r, found %s %r' % (t.line, val, t.kind, t.val))

    def ident(self):
        t = self.peek()
        if t.kind != 'id':
            raise ParseError('line %s: expected identifier, found %s %r' % (t.line, t.kind, t.val))
        self.p += 1
        return t.val

    def line(self):
        return self.peek().line

    def lastline(self):
        return self.toks[self.p - 1].line if self.p else 1

    # ---- expressions (precedence climbing)
    def expr(self):
        l = self.simple()
        while self.peek().kind in ('op', 'kw') and self.peek().val in REL:
            op = self.peek().val
            self.p += 1
            l = ('op', op, l, self.simple())
        return l

    def simple(self):
        l = self.term()
        while self.peek().kind in ('op', 'kw') and self.peek().val in ADD:
            op = self.peek().val
            self.p += 1
            l = ('op', op, l, self.term())
        return l

    def term(self):
        l = self.factor()
        while self.peek().kind in ('op', 'kw') and self.peek().val in MUL:
            op = self.peek().val
            self.p += 1
            l = ('op', op, l, self.factor())
        return l

    def factor(self):
        l = self.simple_factor()
        if self.is_('**'):
            self.p += 1
            return ('op', '**', l, self.factor())
        return l

    def simple_factor(self):
        t = self.peek()
        if (t.kind == 'op' and t.val in ('+', '-')) or (t.kind == 'kw' and t.val == 'not'):
            self.p += 1
            return ('un', t.val, self.simple_factor())
        return self.postfix(self.atom())

    def atom(self):
        t = self.peek()
        k, v = t.kind, t.val
        if k in ('int', 'real', 'str', 'estr'):
            self.p += 1
            return (k, v)
        if k == 'bin':
            self.p += 1
            return ('binlit', v)
        if k == 'op':
            if v == '(':
                self.p += 1
                e = self.expr()
                self.exp(')')
                return e
            if v == '?':
                self.p += 1
                return ('indet',)
            if v == '[':
                self.p += 1
                items = []
                if not self.is_(']'):
                    while True:
                        e = self.expr()
                        rep = None
                        if self.acc(':'):
                            rep = self.expr()
                        items.append((e, rep))
                        if not self.acc(','):
                            break
                self.exp(']')
                return ('agg', tuple(items))
            if v == '{':
                self.p += 1
                lo = self.simple()
                o1 = self.relop()
                it = self.simple()
                o2 = self.relop()
                hi = self.simple()
                self.exp('}')
                return ('interval', lo, o1, it, o2, hi)
        if k == 'kw' and v == 'query':
            self.p += 1
            self.exp('(')
            var = self.ident()
            self.exp('<*')
            src = self.simple()
            self.exp('|')
            cond = self.expr()
            self.exp(')')
            return ('query', var, src, cond)
        if k == 'id':
            self.p += 1
            if self.is_('('):
                self.p += 1
                args = []
                if not self.is_(')'):
                    while True:
                        args.append(self.expr())
                        if not self.acc(','):
                            break
                self.exp(')')
                if not args:
                    return ('id', v)      # `f()` is how exppp (and stepcode's parser) write a call without arguments
                return ('call', v, tuple(args))
            return ('id', v)
        raise ParseError('line %s: expression expected, found %s %r' % (t.line, k, v))

    def relop(self):
        t = self.peek()
        if t.val in REL and t.kind in ('op', 'kw'):
            self.p += 1
            return t.val
        raise ParseError('line %s: relational operator expected, found %r' % (t.line, t.val))

    def postfix(self, e):
        while True:
            if self.is_('.'):
                self.p += 1
                e = ('attr', e, self.ident())
            elif self.is_('\\'):
                self.p += 1
                e = ('group', e, self.ident())
            elif self.is_('['):
                self.p += 1
                i = self.simple()
                if self.acc(':'):
                    j = self.simple()
                    self.exp(']')
                    e = ('range', e, i, j)
                else:
                    self.exp(']')
                    e = ('index', e, i)
            else:
                return e

    # ---- types
    def bounds(self):
        if self.acc('['):
            lo = self.simple()
            self.exp(':')
            hi = self.simple()
            self.exp(']')
            return lo, hi
        return None, None

    def width(self):
        w = None
        if self.acc('('):
            w = self.simple()
            self.exp(')')
        return w

    def type_(self):
        t = self.peek()
        k, v = t.kind, t.val
        if k == 'id':
            self.p += 1
            return ('named', v)
        if k != 'kw':
            raise ParseError('line %s: type expected, found %s %r' % (t.line, k, v))
        self.p += 1
        if v in ('integer', 'boolean', 'logical', 'number'):
            return ('simple', v)
        if v == 'real':
            return ('realt', self.width())
        if v in ('string', 'binary'):
            w = self.width()
            fixed = self.acc('fixed')
            return (v + 't', w, fixed)
        if v in ('list', 'bag', 'set', 'array'):
            lo, hi = self.bounds()
            self.exp('of')
            opt = uniq = False
            while True:
                if self.acc('optional'):
                    opt = True
                elif self.acc('unique'):
                    uniq = True
                else:
                    break
            return ('aggr', v, lo, hi, opt, uniq, self.type_())
        if v == 'aggregate':
            tag = None
            if self.acc(':'):
                tag = self.ident()
            self.exp('of')
            return ('aggregate', tag, self.type_())
        if v == 'generic':
            tag = None
            if self.acc(':'):
                tag = self.ident()
            return ('generic', tag)
        if v == 'enumeration':
            self.exp('of')
            return ('enum', self.idlist_paren())
        if v == 'select':
            return ('select', self.idlist_paren())
        raise ParseError('line %s: type expected, found keyword %r' % (t.line, v))

    def idlist_paren(self):
        self.exp('(')
        ids = [self.ident()]
        while self.acc(','):
            ids.append(self.ident())
        self.exp(')')
        return tuple(ids)

    # ---- statements
    def stmts(self, enders):
        out = []
        while not (self.peek().kind == 'kw' and self.peek().val in enders) and self.peek().kind != 'eof':
            out.append(self.stmt())
        return tuple(out)

    def stmt(self):
        t = self.peek()
        k, v = t.kind, t.val
        if k == 'op' and v == ';':
            self.p += 1
            return ('null',)
        if k == 'kw':
            if v == 'alias':
                self.p += 1
                name = self.ident()
                self.exp('for')
                target = self.postfix(('id', self.ident()))
                self.exp(';')
                body = self.stmts(('end_alias',))
                self.exp('end_alias')
                self.exp(';')
                return ('alias', name, target, body)
            if v == 'begin':
                self.p += 1
                body = self.stmts(('end',))
                self.exp('end')
                self.exp(';')
                return ('compound', body)
            if v == 'case':
                self.p += 1
                sel = self.expr()
                self.exp('of')
                actions = []
                other = None
                while not self.is_('end_case'):
                    if self.acc('otherwise'):
                        self.exp(':')
                        other = self.stmt()
                    else:
                        labels = [self.expr()]
                        while self.acc(','):
                            labels.append(self.expr())
                        self.exp(':')
                        actions.append((tuple(labels), self.stmt()))
                self.exp('end_case')
                self.exp(';')
                return ('case', sel, tuple(actions), other)
            if v == 'escape':
                self.p += 1
                self.exp(';')
                return ('escape',)
            if v == 'skip':
                self.p += 1
                self.exp(';')
                return ('skip',)
            if v == 'if':
                self.p += 1
                c = self.expr()
                self.exp('then')
                a = self.stmts(('else', 'end_if'))
                b = ()
                if self.acc('else'):
                    b = self.stmts(('end_if',))
                self.exp('end_if')
                self.exp(';')
                return ('if', c, a, b)
            if v == 'repeat':
                self.p += 1
                incr = wh = un = None
                if self.peek().kind == 'id':
                    var = self.ident()
                    self.exp(':=')
                    a = self.simple()
                    self.exp('to')
                    b = self.simple()
                    by = ('int', 1)
                    if self.acc('by'):
                        by = self.simple()
                    incr = (var, a, b, by)
                if self.acc('while'):
                    wh = self.expr()
                if self.acc('until'):
                    un = self.expr()
                self.exp(';')
                body = self.stmts(('end_repeat',))
                self.exp('end_repeat')
                self.exp(';')
                return ('repeat', incr, wh, un, body)
            if v == 'return':
                self.p += 1
                e = None
                if self.acc('('):
                    e = self.expr()
                    self.exp(')')
                self.exp(';')
                return ('return', e)
        if k == 'id':
            # assignment or procedure call
            self.p += 1
            if self.is_('('):
                save = self.p
                self.p += 1
                args = []
                if not self.is_(')'):
                    while True:
                        args.append(self.expr())
                        if not self.acc(','):
                            break
                self.exp(')')
                if self.acc(';'):
                    return ('pcall', v, tuple(args))
                self.p = save
            if self.acc(';'):
                return ('pcall', v, ())
            lhs = self.postfix(('id', v))
            self.exp(':=')
            rhs = self.expr()
            self.exp(';')
            return ('assign', lhs, rhs)
        raise ParseError('line %s: statement expected, found %s %r' % (t.line, k, v))

    # ---- declarations
    def put(self, path, kind, name, ast, first):
        key = (path, kind, name)
        if key in self.decls:
            if kind in ('use', 'reference'):
                old = self.decls[key]
                self.decls[key] = Decl((kind, name, tuple(sorted(set(old.ast[2]) | set(ast[2]), key=repr))),
                                       old.first, self.lastline())
                return
            raise ParseError('line %s: duplicate declaration %r' % (first, key))
        self.decls[key] = Decl(ast, first, self.lastline())
        self.order.append(key)

    def wheres(self):
        out = []
        if self.acc('where'):
            while not (self.peek().kind == 'eof' or (self.peek().kind == 'kw' and self.peek().val.startswith('end_'))):
                label = None
                if self.peek().kind == 'id' and self.peek(1).val == ':' and self.peek(1).kind == 'op':
                    label = self.ident()
                    self.p += 1
                e = self.expr()
                self.exp(';')
                out.append((label, e))
        return tuple(out)

    def attr_ref(self):
        """attribute name or SELF\\entity.attr"""
        e = self.postfix(('id', self.ident()))
        return e

    def constants(self, path):
        self.exp('constant')
        while not self.is_('end_constant'):
            first = self.line()
            name = self.ident()
            self.exp(':')
            ty = self.type_()
            self.exp(':=')
            e = self.expr()
            self.exp(';')
            self.put(path, 'constant', name, ('constant', name, ty, e), first)
        self.exp('end_constant')
        self.exp(';')

    def locals_(self):
        out = []
        self.exp('local')
        while not self.is_('end_local'):
            names = [self.ident()]
            while self.acc(','):
                names.append(self.ident())
            self.exp(':')
            ty = self.type_()
            init = None
            if self.acc(':='):
                init = self.expr()
            self.exp(';')
            out += [(nm, ty, init) for nm in names]
        self.exp('end_local')
        self.exp(';')
        return out

    def alg_head(self, path):
        """{declaration} [constants] [locals] in any order (stepcode does not force the order either)."""
        loc = []
        while True:
            t = self.peek()
            if t.kind != 'kw':
                break
            if t.val in ('entity', 'type', 'function', 'procedure', 'rule'):
                self.declaration(path)
            elif t.val == 'constant':
                self.constants(path)
            elif t.val == 'local':
                loc += self.locals_()
            else:
                break
        return tuple(loc)

    def params(self):
        out = []
        if self.acc('('):
            while True:
                var = self.acc('var')
                names = [self.ident()]
                while self.acc(','):
                    names.append(self.ident())
                self.exp(':')
                ty = self.type_()
                out += [(var, nm, ty) for nm in names]
                if not self.acc(';'):
                    break
            self.exp(')')
        return tuple(out)

    def supertype_expr(self):
        l = self.super_term()
        while self.acc('andor'):
            l = ('op', 'andor', l, self.super_term())
        return l

    def super_term(self):
        l = self.super_factor()
        while self.acc('and'):
            l = ('op', 'and', l, self.super_factor())
        return l

    def super_factor(self):
        if self.acc('('):
            e = self.supertype_expr()
            self.exp(')')
            return e
        if self.acc('oneof'):
            self.exp('(')
            items = [self.supertype_expr()]
            while self.acc(','):
                items.append(self.supertype_expr())
            self.exp(')')
            return ('oneof', tuple(items))
        return ('id', self.ident())

    def declaration(self, path):
        t = self.peek()
        first = t.line
        v = t.val
        self.p += 1
        if v == 'type':
            name = self.ident()
            self.exp('=')
            ty = self.type_()
            self.exp(';')
            wh = self.wheres()
            self.exp('end_type')
            self.exp(';')
            self.put(path, 'type', name, ('type', name, ty, wh), first)
        elif v == 'entity':
            name = self.ident()
            abstract = False
            sup = None
            subs = ()
            while True:
                if self.acc('abstract'):
                    abstract = True
                    self.exp('supertype')
                    if self.acc('of'):
                        self.exp('(')
                        sup = self.supertype_expr()
                        self.exp(')')
                elif self.acc('supertype'):
                    self.exp('of')
                    self.exp('(')
                    sup = self.supertype_expr()
                    self.exp(')')
                elif self.acc('subtype'):
                    self.exp('of')
                    subs = self.idlist_paren()
                else:
                    break
            self.exp(';')
            attrs, derive, inverse, unique = [], [], [], []
            while self.peek().kind == 'id':
                refs = [self.attr_ref()]
                while self.acc(','):
                    refs.append(self.attr_ref())
                self.exp(':')
                opt = self.acc('optional')
                ty = self.type_()
                self.exp(';')
                attrs += [(r, opt, ty) for r in refs]
            if self.acc('derive'):
                while self.peek().kind == 'id':
                    r = self.attr_ref()
                    self.exp(':')
                    ty = self.type_()
                    self.exp(':=')
                    e = self.expr()
                    self.exp(';')
                    derive.append((r, ty, e))
            if self.acc('inverse'):
                while self.peek().kind == 'id':
                    r = self.attr_ref()
                    self.exp(':')
                    ty = self.type_()
                    self.exp('for')
                    fa = self.ident()
                    self.exp(';')
                    inverse.append((r, ty, fa))
            if self.acc('unique'):
                while self.peek().kind == 'id':
                    label = None
                    if self.peek(1).kind == 'op' and self.peek(1).val == ':':
                        label = self.ident()
                        self.p += 1
                    refs = [self.attr_ref()]
                    while self.acc(','):
                        refs.append(self.attr_ref())
                    self.exp(';')
                    unique.append((label, tuple(refs)))
            wh = self.wheres()
            self.exp('end_entity')
            self.exp(';')
            self.put(path, 'entity', name, ('entity', name, abstract, sup, subs, tuple(attrs), tuple(derive),
                                             tuple(inverse), tuple(unique), wh), first)
        elif v in ('function', 'procedure'):
            name = self.ident()
            pr = self.params()
            ret = None
            if v == 'function':
                self.exp(':')
                ret = self.type_()
            self.exp(';')
            sub = path + (name,)
            loc = self.alg_head(sub)
            body = self.stmts(('end_' + v,))
            self.exp('end_' + v)
            self.exp(';')
            self.put(path, v, name, (v, name, pr, ret, loc, body), first)
        elif v == 'rule':
            name = self.ident()
            self.exp('for')
            ents = self.idlist_paren()
            self.exp(';')
            sub = path + (name,)
            loc = self.alg_head(sub)
            body = self.stmts(('where', 'end_rule'))
            wh = self.wheres()
            self.exp('end_rule')
            self.exp(';')
            self.put(path, 'rule', name, ('rule', name, ents, loc, body, wh), first)
        else:
            raise ParseError('line %s: declaration expected, found %r' % (first, v))

    def interface(self, path):
        t = self.peek()
        first = t.line
        kind = t.val
        self.p += 1
        self.exp('from')
        sch = self.ident()
        items = [('*', None)]
        if self.acc('('):
            items = []
            while True:
                nm = self.ident()
                alias = None
                if self.acc('as'):
                    alias = self.ident()
                items.append((nm, alias))
                if not self.acc(','):
                    break
            self.exp(')')
        self.exp(';')
        self.put(path, kind, sch, (kind, sch, tuple(sorted(items, key=repr))), first)

    def schema(self):
        first = self.line()
        self.exp('schema')
        name = self.ident()
        self.exp(';')
        path = (name,)
        self.put((), 'schema', name, ('schema', name), first)
        while True:
            t = self.peek()
            if t.kind == 'kw' and t.val in ('use', 'reference'):
                self.interface(path)
            elif t.kind == 'kw' and t.val == 'constant':
                self.constants(path)
            elif t.kind == 'kw' and t.val in ('entity', 'type', 'function', 'procedure', 'rule'):
                self.declaration(path)
            else:
                break
        self.exp('end_schema')
        self.exp(';')

    def file(self):
        while self.peek().kind != 'eof':
            self.schema()
        return self.decls


def parse(text):
    p = Parser(text)
    p.file()
    return p.decls


def parse_ordered(text):
    p = Parser(text)
    p.file()
    return p.decls, p.order


def expr_of(text):
    p = Parser(text)
    e = p.expr()
    if p.peek().kind != 'eof':
        raise ParseError('trailing tokens after expression: %r' % (p.peek(),))
    return e


# ---------------------------------------------------------------- in-order token list of a tree (no parentheses)
def flat(n, out=None):
    if out is None:
        out = []
    if not isinstance(n, tuple):
        out.append(n)
        return out
    if not n:
        return out
    k = n[0]
    if k == 'op' and len(n) == 4:
        flat(n[2], out)
        out.append(n[1])
        flat(n[3], out)
    elif k == 'un' and len(n) == 3:
        out.append('u' + n[1])
        flat(n[2], out)
    elif k in ('attr', 'group') and len(n) == 3:
        flat(n[1], out)
        out.append('.' if k == 'attr' else '\\')
        out.append(n[2])
    elif k == 'index' and len(n) == 3:
        flat(n[1], out)
        out.append('[')
        flat(n[2], out)
        out.append(']')
    elif k == 'range' and len(n) == 4:
        flat(n[1], out)
        out.append('[')
        flat(n[2], out)
        out.append(':')
        flat(n[3], out)
        out.append(']')
    elif k == 'interval' and len(n) == 6:
        out.append('{')
        flat(n[1], out)
        out.append(n[2])
        flat(n[3], out)
        out.append(n[4])
        flat(n[5], out)
        out.append('}')
    elif k in ('int', 'real', 'str', 'estr', 'binlit', 'id') and len(n) == 2 and not isinstance(n[1], tuple):
        out.append(n)
    else:
        for c in n:
            if isinstance(c, tuple):
                out.append('<')
                flat(c, out)
                out.append('>')
            else:
                out.append(c)
    return out


def _str_chain(n):
    """leaves of a `+` chain when all are simple string literals, else None"""
    if n[0] == 'str':
        return [n[1]]
    if n[0] == 'op' and n[1] == '+':
        a = _str_chain(n[2])
        b = _str_chain(n[3])
        if a is not None and b is not None:
            return a + b
    return None


def _spine(n):
    """operands of a left-associated `+` chain, left to right"""
    ops = []
    while isinstance(n, tuple) and len(n) == 4 and n[0] == 'op' and n[1] == '+':
        ops.append(n[3])
        n = n[2]
    ops.append(n)
    ops.reverse()
    return ops


def align(src, out, notes=None):
    """Return `out` with `'ab' + 'cd'` folded into 'abcd' wherever `src` holds the single literal 'abcd'.

    The printer writes the pieces of a split literal without parentheses, so inside a `+` chain they join the
    chain's left spine: `x + 'ab.cd'` is printed `x + 'ab.' + 'cd'`.  Both shapes are folded back."""
    if src == out or not isinstance(src, tuple) or not isinstance(out, tuple) or not src or not out:
        return out
    if len(out) == 4 and out[0] == 'op' and out[1] == '+':
        S, O = _spine(src), _spine(out)
        if len(O) > len(S):
            res, j, ok, n = [], 0, True, 0
            for s_ in S:
                if j >= len(O):
                    ok = False
                    break
                o_ = O[j]
                if (isinstance(s_, tuple) and len(s_) == 2 and s_[0] == 'str' and isinstance(o_, tuple) and len(o_) == 2
                        and o_[0] == 'str' and o_[1] != s_[1] and s_[1].startswith(o_[1])):
                    acc, j0 = '', j
                    while j < len(O) and isinstance(O[j], tuple) and len(O[j]) == 2 and O[j][0] == 'str' \
                            and s_[1].startswith(acc + O[j][1]) and acc != s_[1]:
                        acc += O[j][1]
                        j += 1
                    if acc != s_[1]:
                        ok = False
                        break
                    n += j - j0
                    res.append(s_)
                else:
                    res.append(align(s_, o_, notes))
                    j += 1
            if ok and j == len(O):
                if notes is not None:
                    notes.append(n)
                t = res[0]
                for x in res[1:]:
                    t = ('op', '+', t, x)
                return t
    if len(src) != len(out):
        return out
    return tuple(align(a, b, notes) for a, b in zip(src, out))


def first_diff(a, b, path=()):
    """(path of node kinds, sub-tree a, sub-tree b) at the first structural difference"""
    if a == b:
        return None
    if isinstance(a, tuple) and isinstance(b, tuple) and len(a) == len(b) and a and b:
        k = a[0] if isinstance(a[0], str) else None
        if k is not None and a[0] != b[0]:
            return path, a, b
        np = path + ((k,) if k else ())
        for x, y in zip(a, b):
            d = first_diff(x, y, np)
            if d:
                return d
    return path, a, b


def has_node(n, kind):
    if isinstance(n, tuple):
        if n and n[0] == kind:
            return True
        return any(has_node(c, kind) for c in n)
    return False
