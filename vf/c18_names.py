"""C18: deterministic NAME-ASSIGNMENT matrix (same oracle as every other case: vf/props/c18.py judge()).

Why: exp2python visits the types of a schema in DICTIONARY order, and the dictionary is a hash table keyed by the identifier - the order
in which the generator meets the declarations depends on the NAMES, not on where they stand in the file.  Every place of the generator
that has to order definitions itself (a defined type after the type it renames, a renamed enumeration after the enumeration, a select
whose member - or the attribute of an entity member - is a renamed enumeration / select / aggregate, the multi-pass machinery deciding
whether the schema can be written in one pass, entity classes after their supertypes) therefore sees a different visiting order for a
different naming of the SAME shape.  vf/c18_matrix.py gives each shape one fixed naming; this module instantiates every order-sensitive
shape with MANY namings: all permutations of a small pool of names over the type positions of the shape, for pools whose names differ in
first letter, length and character set (one letter, letter+digit, underscores, long common prefixes, ordinary words).

Shapes (positions = the declarations that receive the permuted names, dependency order first):
  chain      TYPE p0 = <base>; TYPE p1 = p0; ... TYPE p(n-1) = p(n-2);  n = 2..5 types; base simple (STRING / REAL / INTEGER) | aggregate |
             enumeration | select; last link typed into an entity attribute; declared root first, and (one permutation in four) last link first
  select     a SELECT type whose definition depends on renamed types:
               member = renamed enumeration | rename of a renamed enumeration | renamed select | renamed aggregate | aggregate of a
               renamed enumeration | a select that has the renamed enumeration as member (nested) | an entity whose attribute is a
               renamed enumeration / a LIST of one / a renamed select / a renamed defined type
  entities   supertypes declared after their subtypes: chain of 3, diamond, two roots + join, with one attribute each (names permuted over the
             entities; declaration order subtype first)
  late       the types an entity uses are declared AFTER the entity, most dependent first (entities-then-types file layout)

Oracle (property statement): exit 0; exactly ONE module, named <schema>.py; it compiles and imports; every type has one definition with the
declared underlying type; every entity class has the declared bases / constructor.
"""
import itertools

from . import model as M
from . import c18_gen

# every pool: 5 names; a shape with k positions takes the first k names (and, for small k, also the last k) in every permutation
POOLS = [
    ['label', 'identifier', 'caption', 'title', 'heading'],
    ['a', 'b', 'c', 'd', 'g'],
    ['t1', 't2', 't3', 't4', 't5'],
    ['tint', 'hue_kind', 'pick', 'sheet', 'layer'],
    ['x', 'yy', 'zzz', 'wwww', 'vvvvv'],
    ['alpha', 'beta', 'gamma', 'delta', 'epsilon'],
    ['n_one', 'n_two', 'n_three', 'n_four', 'n_five'],
    ['measure_value', 'positive_measure', 'ratio', 'count_of', 'plane_angle'],
    ['zone', 'yard', 'wing', 'vault', 'usage'],
    ['q', 'qq', 'qqq', 'qqqq', 'qqqqq'],
    ['k9', 'k10', 'k11', 'k12', 'k13'],
    ['first_long_type_name', 'second_long_type_name', 'third_long_type_name', 'fourth_long_type_name', 'fifth_long_type_name'],
    ['shade', 'base_colour', 'choice', 'panel', 'coating'],
    ['m', 'node', 'o2', 'p_q_r', 'stuv'],
]
for _p in POOLS:
    assert len(set(_p)) == 5
    for _n in _p:
        assert _n not in c18_gen.EXPRESS_RESERVED and c18_gen.id_class(_n) is None and _n not in ('h0', 'm0', 'zlab', 'zcnt', 'zsel'), _n

ENUM_ITEMS = ['north', 'east', 'south', 'west']
SIMPLE = ['STRING', 'REAL', 'INTEGER']


class SchemaEntitiesFirst(M.Schema):
    """Same schema, other file layout: the entity declarations stand before the type declarations they use."""

    def text(self):
        o = ['SCHEMA %s;' % self.name, '']
        for e in self.entities:
            o += [e.text(), '']
        for t in self.types:
            o.append(t.text())
        o += ['', 'END_SCHEMA;']
        return '\n'.join(o) + '\n'


def _ent(name, supers=(), attrs=()):
    return M.Entity(name, supers=list(supers), attrs=[M.Attr(*a) for a in attrs])


def _finish(s, shape, detail, pool, perm, layout=None):
    s.tags |= {'matrix:names', 'matrix:names shape:' + shape, 'matrix:names detail:' + detail, 'matrix:names pool:%d' % pool}
    if layout:
        s.tags.add('matrix:names layout:' + layout)
    s.matrix = ('names', shape, detail, pool, ''.join(str(i) for i in perm), layout)
    return s


def _base(kind, name, pool):
    """-> (TypeDef of the chain's root, helper types, helper entities)"""
    if kind == 'simple':
        return M.TypeDef(name, 'simple', base=M.T(SIMPLE[pool % 3])), [], []
    if kind == 'aggregate':
        return M.TypeDef(name, 'simple', base=M.AGG('LIST', M.INT(), 1, None)), [], []
    if kind == 'enumeration':
        return M.TypeDef(name, 'enum', items=ENUM_ITEMS), [], []
    return (M.TypeDef(name, 'select', members=['zlab', 'm0']), [M.TypeDef('zlab', 'simple', base=M.STR())], [])


# ------------------------------------------------------------------------------------------------ rename chains
def chain_schema(idx, kind, n, pool, names, perm, rev):
    root, ht, he = _base(kind, names[0], pool)
    chain = [root] + [M.TypeDef(names[k], 'simple', base=M.NAMED(names[k - 1])) for k in range(1, n)]
    ents = [_ent('m0', attrs=[('m0_a', M.INT())])] + he
    ents.append(_ent('h0', attrs=[('h0_a', M.NAMED(names[-1])), ('h0_b', M.NAMED(names[n // 2]), True)]))
    s = M.Schema('nc%d' % idx, ht + (chain[::-1] if rev else chain), ents)
    return _finish(s, 'chain of %d over %s' % (n, kind), 'chain', pool, perm, 'last link first' if rev else 'root first')


def _perms(pool, k, tail=False):
    """[(names in position order, permutation)] : every permutation of the first (or last) k names of the pool."""
    src = POOLS[pool][-k:] if tail else POOLS[pool][:k]
    return [([src[i] for i in p], p) for p in itertools.permutations(range(k))]


def _pools(j, count, tier):
    """Which pools a shape is instantiated with: all of them in the thorough tier; `count` of them, spread over the list and starting at a
    place that moves with the shape number j, in the quick tier (so that every pool is used by some shape)."""
    np = len(POOLS)
    if tier != 'quick' or count >= np:
        return list(range(np))
    return sorted(set((j + i * np // count) % np for i in range(count)))


def chains(tier='quick'):
    out = []
    quick = tier == 'quick'
    for ki, kind in enumerate(('simple', 'aggregate', 'enumeration', 'select')):
        for n in (2, 3, 4, 5):
            j = ki * 4 + n
            if kind == 'simple':
                pools = _pools(j, 4, tier) if n <= 4 else ([0] if quick else [0, 5, 11])
            else:
                pools = _pools(j, 3, tier) if n <= 3 else (_pools(j, 2, tier) if n == 4 else [3])
            for pool in pools:
                ps = _perms(pool, n)
                if n == 5 and kind != 'simple':
                    ps = ps[::3]     # 40 of the 120 orders; all 120 for the plain chain
                for i, (names, perm) in enumerate(ps):
                    out.append((kind, n, pool, names, perm, False))
                    if i % 4 == 1:
                        out.append((kind, n, pool, names, perm, True))
                if n <= 3:      # the other end of the pool as well: other first letters / lengths
                    for names, perm in _perms(pool, n, tail=True):
                        out.append((kind, n, pool, names, tuple(x + 5 - n for x in perm), False))
    return [chain_schema(i, *a) for i, a in enumerate(out)]


# ------------------------------------------------------------------------------------------------ selects over renamed types
# detail -> (number of positions, fn(names) -> (types, entities))
def _sel_renamed_enum(nm):
    e, r, s = nm
    return ([M.TypeDef(e, 'enum', items=ENUM_ITEMS), M.TypeDef(r, 'simple', base=M.NAMED(e)), M.TypeDef(s, 'select', members=[r, 'm0'])], [])


def _sel_renamed_enum_only(nm):
    e, r, s = nm
    return ([M.TypeDef(s, 'select', members=[r]), M.TypeDef(r, 'simple', base=M.NAMED(e)), M.TypeDef(e, 'enum', items=ENUM_ITEMS)], [])


def _sel_renamed_enum2(nm):
    e, r1, r2, s = nm
    return ([M.TypeDef(e, 'enum', items=ENUM_ITEMS), M.TypeDef(r1, 'simple', base=M.NAMED(e)), M.TypeDef(r2, 'simple', base=M.NAMED(r1)),
             M.TypeDef(s, 'select', members=[r2, 'm0'])], [])


def _sel_renamed_select(nm):
    a, b, s = nm
    return ([M.TypeDef('zlab', 'simple', base=M.STR()), M.TypeDef(a, 'select', members=['zlab', 'm0']), M.TypeDef(b, 'simple', base=M.NAMED(a)),
             M.TypeDef(s, 'select', members=[b, 'zcnt']), M.TypeDef('zcnt', 'simple', base=M.INT())], [])


def _sel_renamed_aggregate(nm):
    g, h, s = nm
    return ([M.TypeDef(g, 'simple', base=M.AGG('LIST', M.INT(), 1, None)), M.TypeDef(h, 'simple', base=M.NAMED(g)),
             M.TypeDef(s, 'select', members=[h, 'm0'])], [])


def _sel_aggregate_of_renamed_enum(nm):
    e, r, g, s = nm
    return ([M.TypeDef(e, 'enum', items=ENUM_ITEMS), M.TypeDef(r, 'simple', base=M.NAMED(e)),
             M.TypeDef(g, 'simple', base=M.AGG('SET', M.NAMED(r), 1, None)), M.TypeDef(s, 'select', members=[g, 'm0'])], [])


def _sel_nested(nm):
    e, r, s1, s2 = nm
    return ([M.TypeDef(e, 'enum', items=ENUM_ITEMS), M.TypeDef(r, 'simple', base=M.NAMED(e)), M.TypeDef(s1, 'select', members=[r, 'm0']),
             M.TypeDef(s2, 'select', members=[s1, 'zcnt']), M.TypeDef('zcnt', 'simple', base=M.INT())], [])


def _sel_renamed_defined(nm):
    d, r, s = nm
    return ([M.TypeDef(d, 'simple', base=M.REAL()), M.TypeDef(r, 'simple', base=M.NAMED(d)), M.TypeDef(s, 'select', members=[r, 'm0'])], [])


def _via_entity(attr_type):
    """select member = entity whose attribute has a type built on a rename: positions (ancestor, rename, select, entity)"""
    def fn(nm):
        a, r, s, en = nm
        if attr_type == 'renamed select':
            first = [M.TypeDef('zlab', 'simple', base=M.STR()), M.TypeDef(a, 'select', members=['zlab', 'm0'])]
        elif attr_type == 'renamed defined type':
            first = [M.TypeDef(a, 'simple', base=M.STR())]
        else:
            first = [M.TypeDef(a, 'enum', items=ENUM_ITEMS)]
        at = M.AGG('LIST', M.NAMED(r), 1, None) if attr_type == 'LIST OF renamed enumeration' else M.NAMED(r)
        types = first + [M.TypeDef(r, 'simple', base=M.NAMED(a)), M.TypeDef(s, 'select', members=[en, 'm0'])]
        ents = [_ent(en, attrs=[(en + '_a', at), (en + '_n', M.INT())]), _ent('h0', [en], attrs=[('h0_s', M.NAMED(s), True)])]
        return types, ents
    return fn


SELECTS = [
    ('member renamed enumeration', 3, _sel_renamed_enum),
    ('only member renamed enumeration, select declared first', 3, _sel_renamed_enum_only),
    ('member rename of a renamed enumeration', 4, _sel_renamed_enum2),
    ('member renamed select', 3, _sel_renamed_select),
    ('member renamed aggregate', 3, _sel_renamed_aggregate),
    ('member aggregate of renamed enumeration', 4, _sel_aggregate_of_renamed_enum),
    ('member select with renamed enumeration member', 4, _sel_nested),
    ('member renamed defined type', 3, _sel_renamed_defined),
    ('entity member with renamed enumeration attribute', 4, _via_entity('renamed enumeration')),
    ('entity member with LIST OF renamed enumeration attribute', 4, _via_entity('LIST OF renamed enumeration')),
    ('entity member with renamed select attribute', 4, _via_entity('renamed select')),
    ('entity member with renamed defined type attribute', 4, _via_entity('renamed defined type')),
]


def select_schema(idx, detail, fn, pool, names, perm):
    types, ents = fn(names)
    sel = [t for t in types if t.kind == 'select'][-1].name
    ents = [_ent('m0', attrs=[('m0_a', M.INT())])] + ents
    if not any(e.name == 'h0' for e in ents):
        ents.append(_ent('h0', attrs=[('h0_s', M.NAMED(sel)), ('h0_l', M.AGG('LIST', M.NAMED(sel), 0, None), True)]))
    s = M.Schema('ns%d' % idx, types, ents)
    return _finish(s, 'select', detail, pool, perm)


def selects(tier='quick'):
    out = []
    for j, (detail, k, fn) in enumerate(SELECTS):
        for pool in _pools(j, 4 if k == 3 else 2, tier):
            for names, perm in _perms(pool, k):
                out.append((detail, fn, pool, names, perm))
            if k == 3:
                for names, perm in _perms(pool, k, tail=True):
                    out.append((detail, fn, pool, names, tuple(x + 2 for x in perm)))
    return [select_schema(i, *a) for i, a in enumerate(out)]


# ------------------------------------------------------------------------------------------------ entities declared subtype first
ENT_SHAPES = [
    ('chain of 3', [(0, []), (1, [0]), (2, [1])]),
    ('diamond', [(0, []), (1, [0]), (2, [0]), (3, [1, 2])]),
    ('two roots and a join below a subtype', [(0, []), (1, []), (2, [0]), (3, [2, 1])]),
    ('fan of 3 below one root', [(0, []), (1, [0]), (2, [0]), (3, [0])]),
]
ATTR_T = [M.INT, M.STR, M.REAL, lambda: M.T('BOOLEAN')]


def entity_schema(idx, detail, shape, pool, names, perm, order):
    ents = [_ent(names[i], [names[x] for x in sup], [('%s_a' % names[i], ATTR_T[i % 4]())]) for i, sup in shape]
    if order == 'subtype first':
        ents = ents[::-1]
    s = M.Schema('ne%d' % idx, [], ents)
    return _finish(s, 'entities', detail, pool, perm, order)


def entities(tier='quick'):
    out = []
    for j, (detail, shape) in enumerate(ENT_SHAPES):
        k = len(shape)
        for pool in _pools(j, 4 if k == 3 else 2, tier):
            for i, (names, perm) in enumerate(_perms(pool, k)):
                out.append((detail, shape, pool, names, perm, 'subtype first'))
                if i % 6 == 2:
                    out.append((detail, shape, pool, names, perm, 'supertype first'))
    return [entity_schema(i, *a) for i, a in enumerate(out)]


# ------------------------------------------------------------------------------------------------ types declared after their use
def late_schema(idx, detail, pool, names, perm):
    if detail == 'rename chain of 3':
        a, b, c = names
        types = [M.TypeDef(a, 'simple', base=M.STR()), M.TypeDef(b, 'simple', base=M.NAMED(a)), M.TypeDef(c, 'simple', base=M.NAMED(b))]
        attrs = [('h0_a', M.NAMED(c)), ('h0_b', M.AGG('LIST', M.NAMED(b), 1, None))]
    elif detail == 'renamed enumeration and a select of it':
        a, b, c = names
        types = [M.TypeDef(a, 'enum', items=ENUM_ITEMS), M.TypeDef(b, 'simple', base=M.NAMED(a)), M.TypeDef(c, 'select', members=[b, 'm0'])]
        attrs = [('h0_a', M.NAMED(b)), ('h0_b', M.NAMED(c), True)]
    else:   # 'defined aggregate of a renamed type and a select of both'
        a, b, c = names
        types = [M.TypeDef(a, 'simple', base=M.REAL()), M.TypeDef(b, 'simple', base=M.NAMED(a)),
                 M.TypeDef(c, 'simple', base=M.AGG('SET', M.NAMED(b), 1, None)), M.TypeDef('zsel', 'select', members=[c, b])]
        attrs = [('h0_a', M.NAMED(c)), ('h0_b', M.NAMED('zsel'), True)]
    ents = [_ent('h0', attrs=attrs), _ent('m0', attrs=[('m0_a', M.INT())])]
    s = SchemaEntitiesFirst('nl%d' % idx, types[::-1], ents)
    return _finish(s, 'late', detail, pool, perm, 'entities before types, most dependent type first')


LATES = ['rename chain of 3', 'renamed enumeration and a select of it', 'defined aggregate of a renamed type and a select of both']


def lates(tier='quick'):
    out = []
    for j, detail in enumerate(LATES):
        for pool in _pools(j, 4, tier):
            for names, perm in _perms(pool, 3):
                out.append((detail, pool, names, perm))
    return [late_schema(i, *a) for i, a in enumerate(out)]


def schemas(tier='quick'):
    return chains(tier) + selects(tier) + entities(tier) + lates(tier)
