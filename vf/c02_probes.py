"""Deterministic probes of C02's open findings (registered with vf.probes so that masks and probes stay paired).

Each probe is one fixed schema that exercises exactly one masked shape; it goes through the same pipeline and oracle as
the randomized schemas (vf/props/c02.py judge_schema), so the finding shows up as a KNOWN-FINDING line on every run and
disappears when the defect is repaired.
"""
from . import model as M
from . import probes
from .probes import Probe


def _p_selmember_renamed_enum():
    # SELECT with an ENTITY member whose entity has an attribute typed by a RENAMED enumeration
    s = M.Schema('pr_c02rn', [M.TypeDef('label', 'simple', base=M.STR()),
                              M.TypeDef('colour', 'enum', items=['red', 'green']),
                              M.TypeDef('colour2', 'simple', base=M.NAMED('colour')),
                              M.TypeDef('sel1', 'select', members=['label', 'b'])],
                 [M.Entity('a', attrs=[M.Attr('w', M.NAMED('colour2'), True)]),
                  M.Entity('b', supers=['a'], attrs=[M.Attr('n', M.INT())])])
    return s, []


probes.register('C02', Probe('select over an entity with a renamed-enumeration attribute', _p_selmember_renamed_enum,
                             masks=dict(schema=['selmember_renamed_enum'])))


def _p_defined_nested_aggregate():
    s = M.Schema('pr_c02na', [M.TypeDef('label', 'simple', base=M.STR()),
                              M.TypeDef('ll', 'simple', base=M.AGG('LIST', M.AGG('LIST', M.NAMED('label'), 1, 2), 0, 3))],
                 [M.Entity('e', attrs=[M.Attr('a0', M.INT()), M.Attr('a1', M.NAMED('ll'))])])
    return s, []


probes.register('C02', Probe('defined type that is an aggregate of aggregates', _p_defined_nested_aggregate,
                             masks=dict(schema=['defined_nested_aggregate'])))


def _p_defined_aggregate_of_select():
    s = M.Schema('pr_c02as', [M.TypeDef('label', 'simple', base=M.STR()), M.TypeDef('len', 'simple', base=M.REAL()),
                              M.TypeDef('sel1', 'select', members=['label', 'len']),
                              M.TypeDef('bs', 'simple', base=M.AGG('BAG', M.NAMED('sel1'), 1, 4))],
                 [M.Entity('e', attrs=[M.Attr('a0', M.NAMED('bs'), True)])])
    return s, []


probes.register('C02', Probe('defined type that is an aggregate of a select', _p_defined_aggregate_of_select,
                             masks=dict(schema=['defined_aggregate_of_select'])))


def _p_renamed_select():
    s = M.Schema('pr_c02rs', [M.TypeDef('label', 'simple', base=M.STR()), M.TypeDef('len', 'simple', base=M.REAL()),
                              M.TypeDef('sel1', 'select', members=['label', 'len']),
                              M.TypeDef('sel3', 'simple', base=M.NAMED('sel1'))],
                 [M.Entity('e', attrs=[M.Attr('a0', M.NAMED('sel3'), True), M.Attr('a1', M.NAMED('sel1'), True)])])
    return s, []


probes.register('C02', Probe('renamed select type', _p_renamed_select, masks=dict(schema=['renamed_select'])))


def _p_diamond_redeclared():
    E = lambda n, sup=(), k=1: M.Entity(n, supers=list(sup), attrs=[M.Attr('%s_a%d' % (n, j), M.INT()) for j in range(k)])
    s = M.Schema('pr_c02dd', [], [E('a', k=2), E('b', ['a']), E('c', ['a']), E('d', ['b', 'c'])])
    s.entity('b').derived.append(M.Derived('a_a0', M.INT(), '9', redeclares=('a', 'a_a0')))
    return s, []


probes.register('C02', Probe('attribute of a diamond root re-declared as derived in one branch', _p_diamond_redeclared,
                             masks=dict(schema=['redeclared_derived_in_diamond'])))


def _p_select_value_ctor():
    s = M.Schema('pr_c02sv', [M.TypeDef('label', 'simple', base=M.STR()), M.TypeDef('len', 'simple', base=M.REAL()),
                              M.TypeDef('sel1', 'select', members=['label', 'len'])],
                 [M.Entity('e', attrs=[M.Attr('a0', M.NAMED('sel1'))])])
    return s, []


_sv = Probe('select attribute stored from a select built by its value constructor', _p_select_value_ctor,
            masks=dict(variants=['select_value_ctor']))
_sv.acc_opts = dict(select_value_ctor=True)
probes.register('C02', _sv)


def _p_defined_aggregate_of_enum():
    # the names decide the order in which exp2cxx walks its type dictionary: with these two the aggregate comes first
    s = M.Schema('pr_c02ae', [M.TypeDef('k9', 'enum', items=['x', 'y']),
                              M.TypeDef('bb', 'simple', base=M.AGG('LIST', M.NAMED('k9'), 1, 3))],
                 [M.Entity('e', attrs=[M.Attr('a0', M.NAMED('bb'), True)])])
    return s, []


probes.register('C02', Probe('defined type that is an aggregate of an enumeration printed later', _p_defined_aggregate_of_enum,
                             masks=dict(schema=['defined_aggregate_of_enum'])))


def _p_explicit_redeclaration():
    # SELF\a.x : INTEGER (explicit re-declaration with a narrower type): not a new attribute, Part 21 writes it once,
    # at the position of the supertype's attribute
    s = M.Schema('pr_c02xr', [M.TypeDef('label', 'simple', base=M.STR())],
                 [M.Entity('a', attrs=[M.Attr('x', M.T('NUMBER')), M.Attr('y', M.NAMED('label'), True), M.Attr('r', M.ENT('a'), True)]),
                  M.Entity('b', supers=['a'], attrs=[M.Attr('SELF\\a.x', M.INT()), M.Attr('SELF\\a.r', M.ENT('b'), True), M.Attr('z', M.REAL())])])
    return s, []


probes.register('C02', Probe('explicit attribute re-declared (SELF\\sup.attr) with a specialised type', _p_explicit_redeclaration,
                             masks=dict(schema=['explicit_redeclaration'])))


def _p_select_two_lists():
    # two members of one SELECT whose underlying types are aggregates of the same kind: the generated STEPread/STEPwrite
    # switch on the underlying base type carries the same case label twice
    s = M.Schema('pr_c02tl', [M.TypeDef('li', 'simple', base=M.AGG('LIST', M.INT(), 0, 3)),
                              M.TypeDef('lr', 'simple', base=M.AGG('LIST', M.REAL(), 0, 3)),
                              M.TypeDef('sel1', 'select', members=['li', 'lr'])],
                 [M.Entity('e', attrs=[M.Attr('a0', M.NAMED('sel1'), True)])])
    return s, []


probes.register('C02', Probe('select with two members that are aggregates of the same kind', _p_select_two_lists,
                             masks=dict(schema=['select_two_same_kind_aggregates'])))
