"""C04: reference faults placed in every syntactic context and reached through every kind of qualifier path.

vf/c04_faults.py breaks ONE reference of a generated schema, at the few places the generated declarations happen to offer.
This module enumerates the product the other way round: a fixed small schema (entities a, b, c < a, the host entity h
with one attribute per SELECT member mix, a function, a procedure, a constant) plus ONE host declaration, and

  * a CONTEXT - an expression slot {E} or statement slot {S}: every statement kind of a FUNCTION / PROCEDURE / RULE /
    inner FUNCTION body (assignment either side, IF test/THEN/ELSE, CASE selector/label/action/OTHERWISE action, REPEAT
    init/TO/BY/WHILE/UNTIL/body, ALIAS target/body, call arguments, RETURN, LOCAL initialiser, compound), every operator
    operand (unary, binary, interval, index, both subcomponent bounds, aggregate initialiser, QUERY source/condition),
    entity WHERE / DERIVE / UNIQUE / aggregate bounds / string width, defined-type WHERE and bounds, CONSTANT
    initialisers, RULE WHERE;
  * a reference KIND - (valid expression, the same expression with ONE name replaced by an identifier that is declared
    nowhere): function, variable, procedure, attribute reached directly / via an entity-typed attribute / two levels /
    inherited / via an aggregate element / via a group qualifier / via a SELECT-typed attribute for each member mix and
    order (entities only, enumerations only, entity+enumeration in every order, defined-type members, nested selects),
    entity in a group qualifier.

Each case gives two files that differ in that one name: the control (valid by construction; must be accepted by all four
tools) and the faulted file (must be rejected by all four).  Family D does the same for declaration-level references
(type / entity names in every declaration position).
"""
import random

FRESH = 'zz_nodef_r'

# ---------------------------------------------------------------------------------------------- select member mixes
# name -> (members, has an entity member offering x, all members are enumerations)
MIXES = [
    ('e', ['a']), ('ee', ['a', 'b']), ('n', ['col']), ('nn', ['col', 'hue']),
    ('en', ['a', 'col']), ('ne', ['col', 'a']), ('een', ['a', 'b', 'col']), ('nee', ['col', 'a', 'b']), ('ene', ['a', 'col', 'b']),
    ('nen', ['col', 'a', 'hue']), ('enn', ['a', 'col', 'hue']), ('nne', ['col', 'hue', 'a']),
    ('et', ['a', 'lbl']), ('te', ['lbl', 'a']), ('tn', ['lbl', 'col']), ('nt', ['col', 'lbl']), ('ten', ['lbl', 'a', 'col']),
    ('xs_n', ['s_ee', 'col']), ('n_xs', ['col', 's_ee']), ('xn_e', ['s_nn', 'a']), ('e_xn', ['a', 's_nn']),
    ('xen', ['s_en']), ('xne_n', ['s_ne', 'hue']), ('n_xen', ['hue', 's_en']), ('xnn', ['s_nn']), ('xn_xn', ['s_n', 's_nn']),
]
_ENUMS = ('col', 'hue')
_MIXD = dict(MIXES)


def _flat(members):
    out = []
    for m in members:
        if m.startswith('s_'):
            out += _flat(_MIXD[m[2:]])
        else:
            out.append(m)
    return out


def mix_has_x(name):
    return 'a' in _flat(_MIXD[name])


def mix_enums_only(name):
    """every DIRECT member is an enumeration type: stepcode downgrades an unknown name to a warning there (open finding)"""
    return all(m in _ENUMS for m in _MIXD[name])


def mix_describe(name):
    return 'SELECT (%s)' % ', '.join(_MIXD[name])


# ---------------------------------------------------------------------------------------------- the fixed schema
def schema(h_attrs=(), h_derive=(), h_unique=(), h_where=(), hs_derive=(), hs_where=(), types=(), consts=(), blocks=(), decls=None):
    d = dict(DECL_DEFAULT)
    if decls:
        d.update(decls)
    o = ['SCHEMA rq;', 'CONSTANT', '  k_lim : INTEGER := 10;']
    o.append('  k_lbl : %s := \'abc\';' % d['const_type'])
    o += ['  ' + c for c in consts]
    o += ['END_CONSTANT;',
          'TYPE col = ENUMERATION OF (red, green); END_TYPE;',
          'TYPE hue = ENUMERATION OF (dark, light); END_TYPE;',
          'TYPE lbl = STRING; END_TYPE;',
          'TYPE lbl2 = %s; END_TYPE;' % d['typedef_base'],
          'TYPE ilist = LIST [1:?] OF %s; END_TYPE;' % d['typedef_agg_elem'],
          # defined types with domain rules (SELF = a value of the type), reached below as element types of anonymous aggregates
          'TYPE posint = INTEGER;', 'WHERE', '  wp1 : SELF > 0;', 'END_TYPE;',
          'TYPE posint2 = posint;', 'WHERE', '  wp2 : SELF > 1;', 'END_TYPE;',
          'TYPE poslist = LIST [1:3] OF posint2;', 'WHERE', '  wp3 : SIZEOF(SELF) > 0;', 'END_TYPE;']
    for n, mem in MIXES:
        mem = list(mem)
        if n in d['select_member']:
            mem[d['select_member'][n]] = d['select_member']['name']
        o.append('TYPE s_%s = SELECT (%s); END_TYPE;' % (n, ', '.join(mem)))
    o += list(types)
    o += ['ENTITY a%s;' % d['a_supertype_of'], '  x : INTEGER;', 'END_ENTITY;',
          'ENTITY b;', '  y : INTEGER;', 'END_ENTITY;',
          'ENTITY c', '  SUBTYPE OF (%s);' % d['c_subtype_of'], '  z : INTEGER;', '  r : a;', 'END_ENTITY;',
          'ENTITY h;', '  n : INTEGER;', '  s : STRING;', '  l : LIST [1:?] OF INTEGER;',
          '  q : %s;' % d['attr_type'], '  oq : OPTIONAL %s;' % d['attr_opt_type'], '  cq : c;',
          '  la : LIST [1:?] OF %s;' % d['attr_agg_elem'],
          '  lla : LIST [1:?] OF SET [0:?] OF %s;' % d['attr_agg2_elem'],
          '  pn : posint2;', '  pl : LIST [0:?] OF posint2;', '  pll : SET [0:?] OF poslist;']
    for n, _ in MIXES:
        o.append('  p_%s : s_%s;' % (n, n))
    o += ['  ' + x for x in h_attrs]
    o += ['DERIVE', '  dn : %s := 1;' % d['derived_type']] + ['  ' + x for x in h_derive]
    o += ['INVERSE', '  iv : SET [0:?] OF %s FOR hr;' % d['inverse_entity']]
    o += ['UNIQUE', '  u0 : n;'] + ['  ' + x for x in h_unique]
    o += ['WHERE', '  w0 : n >= 0;'] + ['  ' + x for x in h_where]
    o += ['END_ENTITY;',
          'ENTITY hs', '  SUBTYPE OF (h);', '  m : INTEGER;']
    o += ['DERIVE', '  SELF\\h.dn : %s := 2;' % d['redeclared_type']] + ['  ' + x for x in hs_derive]
    o += ['WHERE', '  ws0 : m >= 0;'] + ['  ' + x for x in hs_where]
    o += ['END_ENTITY;',
          'ENTITY hu;', '  hr : h;', 'END_ENTITY;',
          'FUNCTION f_one(i : %s) : %s;' % (d['param_type'], d['return_type']),
          'LOCAL', '  w : %s;' % d['local_type'], '  wl : LIST [0:?] OF %s;' % d['local_agg_elem'], '  wp : LIST [0:?] OF posint2;', 'END_LOCAL;',
          '  RETURN (i);', 'END_FUNCTION;',
          'FUNCTION f_gen(g : AGGREGATE OF %s) : INTEGER;' % d['aggregate_of'], '  RETURN (SIZEOF(g));', 'END_FUNCTION;',
          'FUNCTION f_pos(g : LIST [1:?] OF posint2; k : poslist) : LIST [1:?] OF posint;', '  RETURN (g);', 'END_FUNCTION;',
          'PROCEDURE p_set(i : %s; VAR o : %s);' % (d['proc_param_type'], d['proc_var_param_type']),
          'LOCAL', '  w : %s;' % d['proc_local_type'], 'END_LOCAL;',
          '  o := i;', 'END_PROCEDURE;',
          'RULE r_one FOR (%s);' % d['rule_for'],
          'LOCAL', '  w : %s;' % d['rule_local_type'], 'END_LOCAL;',
          'WHERE', '  wr1 : SIZEOF(QUERY(z <* %s | z.x < 0)) = 0;' % d['rule_population'], 'END_RULE;']
    o += list(blocks)
    o.append('END_SCHEMA;')
    return '\n'.join(o) + '\n'


DECL_DEFAULT = dict(const_type='lbl', typedef_base='lbl', typedef_agg_elem='INTEGER', select_member={}, a_supertype_of='', c_subtype_of='a',
                    attr_type='a', attr_opt_type='a', attr_agg_elem='a', attr_agg2_elem='a', derived_type='INTEGER', redeclared_type='INTEGER',
                    inverse_entity='hu', param_type='INTEGER', return_type='INTEGER', local_type='a', local_agg_elem='a', aggregate_of='a',
                    proc_param_type='INTEGER', proc_var_param_type='INTEGER', proc_local_type='a', rule_for='a', rule_local_type='a',
                    rule_population='a')


# open findings of the unchanged tree: a fault placed in / reached through these constructs is accepted (known_findings.d/C04.json)
F_OTHERWISE = 'in a CASE OTHERWISE action'
F_SUBLOW = 'in the low bound of a subcomponent [lo:hi]'
F_REPEAT = 'in the repetition count of an aggregate initialiser'
F_WIDTH = 'in the width or precision of a simple type'
F_RETBOUND = 'in an aggregate bound of a FUNCTION return type'
F_ENUMSEL = 'via SELECT of enumerations only'


# ---------------------------------------------------------------------------------------------- hosts of statements
def host_function(lines):
    return dict(blocks=['FUNCTION fh(v : h) : INTEGER;', 'LOCAL', '  t : INTEGER := 0;', '  u : h;', 'END_LOCAL;'] + ['  ' + x for x in lines] +
                ['  RETURN (t);', 'END_FUNCTION;'])


def host_procedure(lines):
    return dict(blocks=['PROCEDURE ph(v : h; VAR t : INTEGER);', 'LOCAL', '  u : h;', 'END_LOCAL;'] + ['  ' + x for x in lines] + ['END_PROCEDURE;'])


def host_rule(lines):
    return dict(blocks=['RULE rh FOR (h);', 'LOCAL', '  t : INTEGER := 0;', '  u : h;', '  v : h;', 'END_LOCAL;', '  v := h[1];'] + ['  ' + x for x in lines] +
                ['WHERE', '  wr1 : t >= 0;', 'END_RULE;'])


def host_inner(lines):
    return dict(blocks=['FUNCTION fo(vo : h) : INTEGER;', '  FUNCTION fh(v : h) : INTEGER;', '  LOCAL', '    t : INTEGER := 0;', '    u : h;', '  END_LOCAL;'] +
                ['    ' + x for x in lines] + ['    RETURN (t);', '  END_FUNCTION;', '  RETURN (fh(vo));', 'END_FUNCTION;'])


STMT_HOSTS = [('FUNCTION body', host_function), ('PROCEDURE body', host_procedure), ('RULE body', host_rule), ('inner FUNCTION body', host_inner)]

# statement slots: name -> lines with one {S}; finding = label of an open finding that swallows every fault placed there
STMT_SLOTS = [
    ('statement', ['{S}'], None),
    ('IF THEN action', ['IF t >= 0 THEN', '  {S}', 'END_IF;'], None),
    ('IF ELSE action', ['IF t >= 0 THEN', '  t := 1;', 'ELSE', '  {S}', 'END_IF;'], None),
    ('CASE action', ['CASE t OF', '  1 : {S}', '  2 : t := 2;', '  OTHERWISE : t := 3;', 'END_CASE;'], None),
    ('CASE action, last of several', ['CASE t OF', '  1 : t := 1;', '  2 : {S}', 'END_CASE;'], None),
    ('CASE action with two labels', ['CASE t OF', '  1, 2 : {S}', '  OTHERWISE : t := 3;', 'END_CASE;'], None),
    ('CASE action, compound', ['CASE t OF', '  1 : BEGIN', '    t := 1;', '    {S}', '  END;', '  OTHERWISE : t := 3;', 'END_CASE;'], None),
    ('CASE OTHERWISE action', ['CASE t OF', '  1 : t := 1;', '  OTHERWISE : {S}', 'END_CASE;'], F_OTHERWISE),
    ('CASE OTHERWISE action, compound', ['CASE t OF', '  1 : t := 1;', '  OTHERWISE : BEGIN', '    t := 2;', '    {S}', '  END;', 'END_CASE;'], F_OTHERWISE),
    ('CASE OTHERWISE action, no other item', ['CASE t OF', '  OTHERWISE : {S}', 'END_CASE;'], F_OTHERWISE),
    ('REPEAT body (increment)', ['REPEAT i := 1 TO 3;', '  {S}', 'END_REPEAT;'], None),
    ('REPEAT body (WHILE)', ['REPEAT WHILE t < 3;', '  t := t + 1;', '  {S}', 'END_REPEAT;'], None),
    ('REPEAT body (UNTIL)', ['REPEAT UNTIL t > 3;', '  t := t + 1;', '  {S}', 'END_REPEAT;'], None),
    ('REPEAT body (plain)', ['REPEAT;', '  {S}', '  ESCAPE;', 'END_REPEAT;'], None),
    ('ALIAS body', ['ALIAS aw FOR v.q;', '  {S}', 'END_ALIAS;'], None),
    ('compound statement', ['BEGIN', '  {S}', 'END;'], None),
    ('IF inside REPEAT inside CASE action', ['CASE t OF', '  1 : REPEAT i := 1 TO 2;', '    IF i > 1 THEN', '      {S}', '    END_IF;', '  END_REPEAT;', 'END_CASE;'], None),
    ('statement after RETURN-bearing IF', ['IF t > 5 THEN', '  RETURN%s;', 'END_IF;', '{S}'], None),
]

# expression-bearing statements: name, lines with {E}, restriction ('any' | 'lvalue' | 'lvalue-u'), finding
STMT_FORMS = [
    ('assignment right side', ['t := {E};'], 'any', None),
    ('assignment left side', ['{E} := 1;'], 'lvalue-u', None),
    ('IF test', ['IF {E} > 0 THEN', '  t := 1;', 'END_IF;'], 'any', None),
    ('CASE selector', ['CASE {E} OF', '  1 : t := 1;', '  OTHERWISE : t := 2;', 'END_CASE;'], 'any', None),
    ('CASE label', ['CASE t OF', '  {E} : t := 1;', '  OTHERWISE : t := 2;', 'END_CASE;'], 'any', None),
    ('CASE label, second of two', ['CASE t OF', '  1, {E} : t := 1;', 'END_CASE;'], 'any', None),
    ('REPEAT initial value', ['REPEAT i := {E} TO 3;', '  t := t + i;', 'END_REPEAT;'], 'any', None),
    ('REPEAT bound', ['REPEAT i := 1 TO {E};', '  t := t + i;', 'END_REPEAT;'], 'any', None),
    ('REPEAT increment', ['REPEAT i := 1 TO 9 BY {E};', '  t := t + i;', 'END_REPEAT;'], 'any', None),
    ('REPEAT WHILE', ['REPEAT WHILE {E} > t;', '  t := t + 1;', 'END_REPEAT;'], 'any', None),
    ('REPEAT UNTIL', ['REPEAT UNTIL {E} < t;', '  t := t + 1;', 'END_REPEAT;'], 'any', None),
    ('REPEAT increment with WHILE and UNTIL', ['REPEAT i := 1 TO 9 WHILE t < 5 UNTIL {E} < t;', '  t := t + 1;', 'END_REPEAT;'], 'any', None),
    ('ALIAS target', ['ALIAS aw FOR {E};', '  t := 1;', 'END_ALIAS;'], 'lvalue', None),
    ('procedure call argument', ['p_set({E}, t);'], 'any', None),
    ('procedure call VAR argument', ['p_set(1, {E});'], 'lvalue-u', None),
    ('function call argument', ['t := f_one({E});'], 'any', None),
    ('built-in function argument', ['t := ABS({E});'], 'any', None),
    ('RETURN', ['IF t > 5 THEN', '  RETURN%s;', 'END_IF;'], 'return', None),
    ('unary minus operand', ['t := -{E};'], 'any', None),
    ('left operand of +', ['t := {E} + 1;'], 'any', None),
    ('right operand of +', ['t := 1 + {E};'], 'any', None),
    ('operand of *', ['t := 2 * {E};'], 'any', None),
    ('operand of **', ['t := {E} ** 2;'], 'any', None),
    ('operand of DIV', ['t := {E} DIV 2;'], 'any', None),
    ('operand of MOD', ['t := 7 MOD {E};'], 'any', None),
    ('parenthesised operand', ['t := 2 * (1 + ({E}));'], 'any', None),
    ('operand of = under AND', ['IF ({E} = 1) AND (t = 0) THEN', '  t := 1;', 'END_IF;'], 'any', None),
    ('operand of <> under OR', ['IF (t = 0) OR (1 <> {E}) THEN', '  t := 1;', 'END_IF;'], 'any', None),
    ('operand under NOT', ['IF NOT ({E} >= 1) THEN', '  t := 1;', 'END_IF;'], 'any', None),
    ('operand under XOR', ['IF (t = 0) XOR ({E} <= 1) THEN', '  t := 1;', 'END_IF;'], 'any', None),
    ('left operand of IN', ['IF {E} IN [1, 2] THEN', '  t := 1;', 'END_IF;'], 'any', None),
    ('aggregate initialiser element', ['t := SIZEOF([1, {E}, 3]);'], 'any', None),
    ('aggregate initialiser repetition', ['t := SIZEOF([1 : {E}]);'], 'any', F_REPEAT),
    ('aggregate initialiser repetition, second element', ['t := SIZEOF([3, 1 : {E}]);'], 'any', F_REPEAT),
    ('aggregate initialiser repeated element', ['t := SIZEOF([{E} : 2]);'], 'any', None),
    ('right operand of IN', ['IF 1 IN [{E}] THEN', '  t := 1;', 'END_IF;'], 'any', None),
    ('interval low', ['IF {{E} <= t <= 9} THEN', '  t := 1;', 'END_IF;'], 'any', None),
    ('interval item', ['IF {0 <= {E} <= 9} THEN', '  t := 1;', 'END_IF;'], 'any', None),
    ('interval high', ['IF {0 <= t < {E}} THEN', '  t := 1;', 'END_IF;'], 'any', None),
    ('index', ['t := v.l[{E}];'], 'any', None),
    ('subcomponent low bound', ['t := LENGTH(v.s[{E}:2]);'], 'any', F_SUBLOW),
    ('subcomponent high bound', ['t := LENGTH(v.s[1:{E}]);'], 'any', None),
    ('aggregate subcomponent low bound', ['t := SIZEOF(v.l[{E}:2]);'], 'any', F_SUBLOW),
    ('indexed operand', ['t := [3, {E}][1];'], 'any', None),
    ('QUERY source', ['t := SIZEOF(QUERY(z <* [{E}] | z > 0));'], 'any', None),
    ('QUERY condition', ['t := SIZEOF(QUERY(z <* v.l | z > {E}));'], 'any', None),
    ('QUERY inside QUERY condition', ['t := SIZEOF(QUERY(z <* v.l | SIZEOF(QUERY(y <* v.l | y > {E})) > z));'], 'any', None),
    ('operand of || (entity constructors)', ['IF EXISTS(a({E}) || b(2)) THEN', '  t := 1;', 'END_IF;'], 'any', None),
    ('entity constructor argument', ['u.q := a({E});'], 'any', None),
    ('string operand of LIKE', ['IF v.s LIKE FORMAT({E}, \'I3\') THEN', '  t := 1;', 'END_IF;'], 'any', None),
]

# LOCAL initialiser is a declaration of the host, handled apart
# entity / type / constant level contexts: name, schema() keyword, lines with {E}, root, restriction, finding
DECL_CONTEXTS = [
    ('entity WHERE', 'h_where', ['wz : n + {E} > 0;'], 'SELF', 'any', None),
    ('entity WHERE, second rule under AND', 'h_where', ['wy : n > 0;', 'wz : (n > 1) AND ({E} > 0);'], 'SELF', 'any', None),
    ('entity WHERE, QUERY condition', 'h_where', ['wz : SIZEOF(QUERY(z <* SELF.l | z > {E})) = 0;'], 'SELF', 'any', None),
    ('entity DERIVE', 'h_derive', ['dz : INTEGER := {E};'], 'SELF', 'any', None),
    ('entity DERIVE, aggregate initialiser', 'h_derive', ['dz : LIST [0:?] OF INTEGER := [1, {E}];'], 'SELF', 'any', None),
    ('subtype WHERE', 'hs_where', ['wz : m + {E} > 0;'], 'SELF', 'any', None),
    ('subtype DERIVE', 'hs_derive', ['dz : INTEGER := {E};'], 'SELF', 'any', None),
    ('explicit attribute: aggregate upper bound', 'h_attrs', ['az : LIST [1:{E}] OF INTEGER;'], None, 'any', None),
    ('explicit attribute: aggregate lower bound', 'h_attrs', ['az : ARRAY [{E}:9] OF INTEGER;'], None, 'any', None),
    ('explicit attribute: inner aggregate bound', 'h_attrs', ['az : LIST [1:?] OF SET [0:{E}] OF INTEGER;'], None, 'any', None),
    ('explicit attribute: STRING width', 'h_attrs', ['az : STRING({E});'], None, 'any', F_WIDTH),
    ('explicit attribute: BINARY width', 'h_attrs', ['az : BINARY({E});'], None, 'any', F_WIDTH),
    ('explicit attribute: REAL precision', 'h_attrs', ['az : REAL({E});'], None, 'any', F_WIDTH),
    ('explicit attribute: STRING width of an aggregate element', 'h_attrs', ['az : LIST [1:?] OF STRING({E});'], None, 'any', F_WIDTH),
    ('derived attribute: aggregate bound', 'h_derive', ['dz : LIST [0:{E}] OF INTEGER := [1];'], None, 'any', None),
    ('defined type WHERE', 'types', ['TYPE tz = INTEGER;', 'WHERE', '  wz : SELF > {E};', 'END_TYPE;'], None, 'any', None),
    ('defined type: aggregate bound', 'types', ['TYPE tz = LIST [1:{E}] OF INTEGER;', 'END_TYPE;'], None, 'any', None),
    ('defined type: STRING width', 'types', ['TYPE tz = STRING({E});', 'END_TYPE;'], None, 'any', F_WIDTH),
    ('CONSTANT initialiser', 'consts', ['kz : INTEGER := {E};'], None, 'any', None),
    ('CONSTANT initialiser, aggregate', 'consts', ['kz : LIST [1:?] OF INTEGER := [1, {E}];'], None, 'any', None),
    ('CONSTANT: aggregate bound', 'consts', ['kz : LIST [1:{E}] OF INTEGER := [1];'], None, 'any', None),
]
BLOCK_CONTEXTS = [
    ('RULE WHERE', ['RULE rh FOR (h);', 'WHERE', '  wr1 : SIZEOF(QUERY(v <* h | {E} < 0)) = 0;', 'END_RULE;'], 'v', 'any', None),
    ('RULE WHERE, second rule', ['RULE rh FOR (h);', 'LOCAL', '  v : h;', 'END_LOCAL;', '  v := h[1];', 'WHERE', '  wr1 : TRUE;', '  wr2 : {E} >= 0;', 'END_RULE;'], 'v', 'any', None),
    ('FUNCTION LOCAL initialiser', ['FUNCTION fh(v : h) : INTEGER;', 'LOCAL', '  t : INTEGER := {E};', 'END_LOCAL;', '  RETURN (t);', 'END_FUNCTION;'], 'v', 'any', None),
    ('PROCEDURE LOCAL initialiser', ['PROCEDURE ph(v : h);', 'LOCAL', '  t : INTEGER := {E};', 'END_LOCAL;', '  t := 1;', 'END_PROCEDURE;'], 'v', 'any', None),
    ('RULE LOCAL initialiser', ['RULE rh FOR (h);', 'LOCAL', '  t : INTEGER := {E};', 'END_LOCAL;', 'WHERE', '  wr1 : t >= 0;', 'END_RULE;'], None, 'any', None),
    ('FUNCTION LOCAL: aggregate bound', ['FUNCTION fh(v : h) : INTEGER;', 'LOCAL', '  t : LIST [0:{E}] OF INTEGER;', 'END_LOCAL;', '  RETURN (SIZEOF(t));', 'END_FUNCTION;'], 'v', 'any', None),
    ('FUNCTION return type: aggregate bound', ['FUNCTION fh(v : h) : LIST [0:{E}] OF INTEGER;', '  RETURN ([1]);', 'END_FUNCTION;'], None, 'any', F_RETBOUND),
    ('FUNCTION formal parameter: aggregate bound', ['FUNCTION fh(v : h; g : LIST [0:{E}] OF INTEGER) : INTEGER;', '  RETURN (SIZEOF(g));', 'END_FUNCTION;'], None, 'any', None),
    ('PROCEDURE formal parameter: aggregate bound', ['PROCEDURE ph(v : h; g : LIST [0:{E}] OF INTEGER);', 'END_PROCEDURE;'], None, 'any', None),
    ('FUNCTION LOCAL: STRING width', ['FUNCTION fh(v : h) : INTEGER;', 'LOCAL', '  t : STRING({E});', 'END_LOCAL;', '  RETURN (LENGTH(t));', 'END_FUNCTION;'], None, 'any', F_WIDTH),
]


# ---------------------------------------------------------------------------------------------- reference kinds
class Kind(object):
    def __init__(self, name, cls, valid, bad, root=False, lvalue=False, finding=None, basic=False, entity_only=False):
        self.name, self.cls, self.valid, self.bad = name, cls, valid, bad
        self.root = root          # the expression starts at an entity-typed variable V (SELF / parameter / local)
        self.lvalue = lvalue      # a plain qualified variable reference (may stand left of := and after ALIAS ... FOR)
        self.finding = finding
        self.basic = basic
        self.entity_only = entity_only   # an unqualified attribute name: only inside the entity that has the attribute


def kinds():
    F = FRESH
    K = [
        Kind('function', 'undefined function', 'f_one(2)', F + '(2)', basic=True),
        Kind('function inside an argument', 'undefined function', 'f_one(f_one(2))', 'f_one(%s(2))' % F),
        Kind('variable', 'undefined variable', 'k_lim', F, basic=True),
        Kind('unqualified attribute name', 'undefined variable', 'n', F, basic=True, entity_only=True),
        Kind('variable under an operator', 'undefined variable', '(k_lim + 1)', '(%s + 1)' % F),
        Kind('attribute of V', 'undefined attribute reference', '{V}.n', '{V}.' + F, root=True, lvalue=True, basic=True),
        Kind('attribute via entity-typed attribute', 'undefined attribute reference', '{V}.q.x', '{V}.q.' + F, root=True, lvalue=True, basic=True),
        Kind('attribute via OPTIONAL entity-typed attribute', 'undefined attribute reference', '{V}.oq.x', '{V}.oq.' + F, root=True, lvalue=True),
        Kind('attribute via two entity-typed attributes', 'undefined attribute reference', '{V}.cq.r.x', '{V}.cq.r.' + F, root=True, lvalue=True),
        Kind('inherited attribute via entity-typed attribute', 'undefined attribute reference', '{V}.cq.x', '{V}.cq.' + F, root=True, lvalue=True),
        Kind('first attribute of a chain', 'undefined attribute reference', '{V}.q.x', '{V}.%s.x' % F, root=True, lvalue=True),
        Kind('middle attribute of a chain', 'undefined attribute reference', '{V}.cq.r.x', '{V}.cq.%s.x' % F, root=True, lvalue=True),
        Kind('attribute of an aggregate element', 'undefined attribute reference', '{V}.la[1].x', '{V}.la[1].' + F, root=True, lvalue=True),
        Kind('attribute of a nested aggregate element', 'undefined attribute reference', '{V}.lla[1][1].x', '{V}.lla[1][1].' + F, root=True, lvalue=True),
        Kind('attribute after group qualifier', 'undefined attribute reference', '{V}\\h.n', '{V}\\h.' + F, root=True, lvalue=True, basic=True),
        Kind('attribute after group qualifier on attribute', 'undefined attribute reference', '{V}.cq\\a.x', '{V}.cq\\a.' + F, root=True, lvalue=True),
        Kind('attribute of a QUERY variable', 'undefined attribute reference', 'SIZEOF(QUERY(zq <* {V}.la | zq.x > 0))',
             'SIZEOF(QUERY(zq <* {V}.la | zq.%s > 0))' % F, root=True),
        Kind('attribute inside a built-in call', 'undefined attribute reference', 'SIZEOF({V}.la)', 'SIZEOF({V}.%s)' % F, root=True),
        Kind('attribute of an entity constructor value', 'undefined attribute reference', 'a(1).x', 'a(1).' + F),
        Kind('entity in group qualifier', 'undefined entity in group qualifier', '{V}\\h.n', '{V}\\%s.n' % F, root=True, lvalue=True),
        Kind('entity in group qualifier on attribute', 'undefined entity in group qualifier', '{V}.cq\\a.x', '{V}.cq\\%s.x' % F, root=True, lvalue=True),
    ]
    for n, _mem in MIXES:
        fnd = F_ENUMSEL if mix_enums_only(n) else None
        ok = '{V}.p_%s.x' % n if mix_has_x(n) else '{V}.n'
        K.append(Kind('attribute via %s' % mix_describe(n), 'undefined attribute reference', ok, '{V}.p_%s.%s' % (n, F), root=True, lvalue=True,
                      finding=fnd, basic=(n == 'een')))
        if mix_has_x(n):
            K.append(Kind('attribute after group qualifier on %s' % mix_describe(n), 'undefined attribute reference',
                          '{V}.p_%s\\a.x' % n, '{V}.p_%s\\a.%s' % (n, F), root=True, lvalue=True))
            K.append(Kind('entity in group qualifier on %s' % mix_describe(n), 'undefined entity in group qualifier',
                          '{V}.p_%s\\a.x' % n, '{V}.p_%s\\%s.x' % (n, F), root=True, lvalue=True))
    return K


PROC_KIND = ('procedure', 'undefined procedure', 'p_set(1, t);', FRESH + '(1, t);')


# ---------------------------------------------------------------------------------------------- cases
class Case(object):
    def __init__(self, family, cls, context, kind, valid, bad, finding=None):
        self.family, self.cls, self.context, self.kind, self.valid, self.bad = family, cls, context, kind, valid, bad
        self.findings = tuple(sorted(set(x for x in (finding if isinstance(finding, (tuple, list)) else (finding,)) if x)))
        self.finding = self.findings[0] if self.findings else None
        assert valid != bad and FRESH not in valid and bad.count(FRESH) == 1, (context, kind)

    @property
    def key_class(self):
        """fault class as used in violation keys: an open finding names the construct that swallows the fault"""
        if self.finding:
            return 'undefined reference %s' % self.finding
        return self.cls

    def describe(self):
        return dict(family=self.family, cls=self.cls, context=self.context, kind=self.kind, finding=self.finding)


def _fill(lines, what, text):
    return [l.replace(what, text) for l in lines]


def _stmt_case(host_name, host, slot_name, slot, slot_finding, stmt_lines_valid, stmt_lines_bad, family, cls, ctxname, kindname, finding):
    finding = tuple(finding) + (slot_finding,)
    slot_finding = None
    def build(stmt):
        out = []
        for l in slot:
            if '{S}' in l:
                ind = l[:len(l) - len(l.lstrip())]
                first = l.replace('{S}', stmt[0])
                out.append(first)
                out += [ind + '  ' + x for x in stmt[1:]]
            else:
                out.append(l)
        ret = ' (t)' if host_name in ('FUNCTION body', 'inner FUNCTION body') else ''
        return [x.replace('RETURN%s', 'RETURN' + ret) for x in out]
    ctx = '%s: %s%s' % (host_name, slot_name, (' / ' + ctxname) if ctxname else '')
    return Case(family, cls, ctx, kindname, schema(**host(build(stmt_lines_valid))), schema(**host(build(stmt_lines_bad))), finding)


def _allowed(restr, k, host_name=None):
    if restr == 'any':
        return True
    if restr in ('lvalue', 'lvalue-u'):
        return k.lvalue
    if restr == 'return':
        return host_name in ('FUNCTION body', 'inner FUNCTION body')
    return False


def _form_lines(form_lines, restr, expr):
    if restr == 'return':
        return [l.replace('RETURN%s', 'RETURN (%s)' % expr) for l in form_lines]
    return _fill(form_lines, '{E}', expr)


def stmt_cases(hosts, slots, forms, ks, family):
    out = []
    for hn, host in hosts:
        for sn, slot, sf in slots:
            for fn, fl, restr, ff in forms:
                for k in ks:
                    if k.entity_only or not _allowed(restr, k, hn):
                        continue
                    V = 'u' if restr == 'lvalue-u' else 'v'
                    va, ba = k.valid.replace('{V}', V), k.bad.replace('{V}', V)
                    out.append(_stmt_case(hn, host, sn, slot, sf, _form_lines(fl, restr, va), _form_lines(fl, restr, ba), family, k.cls, fn, k.name,
                                          (k.finding, ff)))
    return out


def proc_cases(hosts, slots, family):
    out = []
    name, cls, va, ba = PROC_KIND
    for hn, host in hosts:
        for sn, slot, sf in slots:
            out.append(_stmt_case(hn, host, sn, slot, sf, [va], [ba], family, cls, 'procedure call', name, ()))
    return out


def decl_cases(ctxs, ks, family):
    out = []
    for cn, kw, lines, root, restr, cf in ctxs:
        for k in ks:
            if (k.root and root is None) or (k.entity_only and not kw.startswith('h')):
                continue
            va, ba = k.valid.replace('{V}', root or ''), k.bad.replace('{V}', root or '')
            out.append(Case(family, k.cls, cn, k.name, schema(**{kw: _fill(lines, '{E}', va)}), schema(**{kw: _fill(lines, '{E}', ba)}), (k.finding, cf)))
    return out


def block_cases(ctxs, ks, family):
    out = []
    for cn, lines, root, restr, cf in ctxs:
        for k in ks:
            if (k.root and root is None) or k.entity_only:
                continue
            va, ba = k.valid.replace('{V}', root or ''), k.bad.replace('{V}', root or '')
            out.append(Case(family, k.cls, cn, k.name, schema(blocks=_fill(lines, '{E}', va)), schema(blocks=_fill(lines, '{E}', ba)), (k.finding, cf)))
    return out


# family D: declaration-level references - DECL_DEFAULT key -> (class, position)
DECL_REFS = [
    ('const_type', 'undefined type', 'CONSTANT type'),
    ('typedef_base', 'undefined type', 'defined type: underlying type'),
    ('typedef_agg_elem', 'undefined type', 'defined type: aggregate element type'),
    ('attr_type', 'undefined type', 'explicit attribute type'),
    ('attr_opt_type', 'undefined type', 'OPTIONAL explicit attribute type'),
    ('attr_agg_elem', 'undefined type', 'explicit attribute: aggregate element type'),
    ('attr_agg2_elem', 'undefined type', 'explicit attribute: inner aggregate element type'),
    ('derived_type', 'undefined type', 'derived attribute type'),
    ('redeclared_type', 'undefined type', 'redeclared derived attribute type'),
    ('inverse_entity', 'INVERSE names an undefined entity', 'INVERSE attribute: inverted entity'),
    ('param_type', 'undefined type', 'FUNCTION formal parameter type'),
    ('return_type', 'undefined type', 'FUNCTION return type'),
    ('local_type', 'undefined type', 'FUNCTION local variable type'),
    ('local_agg_elem', 'undefined type', 'FUNCTION local variable: aggregate element type'),
    ('aggregate_of', 'undefined type', 'FUNCTION formal parameter: AGGREGATE OF element type'),
    ('proc_param_type', 'undefined type', 'PROCEDURE formal parameter type'),
    ('proc_var_param_type', 'undefined type', 'PROCEDURE VAR formal parameter type'),
    ('proc_local_type', 'undefined type', 'PROCEDURE local variable type'),
    ('rule_for', 'undefined entity in RULE header', 'RULE ... FOR (entity)'),
    ('rule_local_type', 'undefined type', 'RULE local variable type'),
    ('rule_population', 'undefined variable', 'RULE body: entity population name'),
    ('c_subtype_of', 'undefined supertype', 'SUBTYPE OF'),
]


def declref_cases(family='D'):
    out = []
    base = schema()
    for key, cls, pos in DECL_REFS:
        out.append(Case(family, cls, pos, 'type or entity name', base, schema(decls={key: FRESH})))
    out.append(Case(family, 'undefined subtype', 'SUPERTYPE OF (ONEOF (...))', 'type or entity name',
                    schema(decls=dict(a_supertype_of='\n  SUPERTYPE OF (ONEOF (c))')), schema(decls=dict(a_supertype_of='\n  SUPERTYPE OF (ONEOF (c, %s))' % FRESH))))
    for n, mem in MIXES:
        for i in sorted(set([0, len(mem) - 1])):
            out.append(Case(family, 'undefined type', 'SELECT member %d of %d in %s' % (i + 1, len(mem), mix_describe(n)), 'type or entity name', base,
                            schema(decls=dict(select_member={n: i, 'name': FRESH}))))
    return out


def basic_kinds(K):
    return [k for k in K if k.basic]


def fixed_cases(tier='thorough'):
    """The deterministic matrices (same under every seed; the quick tier takes family C over fewer contexts)."""
    q = tier == 'quick'
    K = kinds()
    B = basic_kinds(K)
    fn = STMT_HOSTS[:1]
    plain = STMT_SLOTS[:1]
    rhs = STMT_FORMS[:1]
    out = []
    # A: every statement slot x every host x (procedure call, assignment from each basic kind)
    out += proc_cases(STMT_HOSTS, STMT_SLOTS, 'A')
    out += stmt_cases(fn, STMT_SLOTS, rhs, B, 'A')
    out += stmt_cases(STMT_HOSTS[1:], STMT_SLOTS, rhs, [k for k in B if k.name in ('function', 'attribute of V')] if q else B, 'A')
    # B: every expression-bearing statement / declaration context x basic kinds
    out += stmt_cases(fn, plain, STMT_FORMS[1:], B, 'B')
    out += decl_cases(DECL_CONTEXTS, B, 'B')
    out += block_cases(BLOCK_CONTEXTS, B, 'B')
    # C: every reference kind (all qualifier paths, all SELECT member mixes) x a few contexts of each sort
    rest = [k for k in K if not k.basic]
    c_forms = ('assignment right side', 'RETURN', 'assignment left side', 'ALIAS target') + (() if q else ('IF test', 'procedure call argument'))
    c_slots = ('CASE action', 'CASE OTHERWISE action') + (() if q else ('ALIAS body', 'REPEAT body (increment)', 'IF ELSE action'))
    c_decl = ('entity WHERE', 'entity DERIVE', 'CONSTANT initialiser') + (() if q else ('subtype WHERE', 'subtype DERIVE', 'defined type WHERE'))
    c_block = ('RULE WHERE',) + (() if q else ('FUNCTION LOCAL initialiser', 'RULE WHERE, second rule'))
    out += stmt_cases(fn, plain, [f for f in STMT_FORMS if f[0] in c_forms], rest, 'C')
    out += stmt_cases(STMT_HOSTS[1:2] if q else STMT_HOSTS[1:], plain, rhs, rest, 'C')
    out += stmt_cases(fn, [s for s in STMT_SLOTS if s[0] in c_slots], rhs, rest, 'C')
    out += decl_cases([c for c in DECL_CONTEXTS if c[0] in c_decl], rest, 'C')
    out += block_cases([c for c in BLOCK_CONTEXTS if c[0] in c_block], rest, 'C')
    out += declref_cases('D')
    return out


def random_cases(seed, n):
    """n seeded picks from the full product host x slot x statement form x kind (and declaration contexts x kind)."""
    rng = random.Random('c04refs/%d' % seed)
    K = kinds()
    out = []
    tries = 0
    while len(out) < n and tries < 20 * n:
        tries += 1
        k = rng.choice(K)
        r = rng.random()
        if r < .7:
            c = stmt_cases([rng.choice(STMT_HOSTS)], [rng.choice(STMT_SLOTS)], [rng.choice(STMT_FORMS)], [k], 'R')
        elif r < .9:
            c = decl_cases([rng.choice(DECL_CONTEXTS)], [k], 'R')
        else:
            c = block_cases([rng.choice(BLOCK_CONTEXTS)], [k], 'R')
        out += c
    return out


def cases(seed, tier):
    out = fixed_cases(tier) + random_cases(seed, 150 if tier == 'quick' else 3000)
    seen, uniq = set(), []
    for c in out:
        # a fault that sits in two constructs with an open finding each would be attributed to one of them arbitrarily: not generated;
        # the randomized part stays out of every construct with an open finding (the fixed matrices are their deterministic probes)
        if c.bad in seen or len(c.findings) > 1 or (c.family == 'R' and c.findings):
            continue
        seen.add(c.bad)
        uniq.append(c)
    return uniq
