"""C18: deterministic matrix of schema shapes judged next to the seeded generator (same oracle, vf/props/c18.py judge()).

Three families, independent of the seed (so every quick run sees every shape):

  A. defined-type CHAINS   TYPE ch1 = <root>; TYPE ch2 = ch1; ... TYPE chL = ch(L-1);   L = 1..4
     root in: every simple type, aggregates (LIST/SET/BAG/ARRAY, with and without bounds, of simple / defined / entity elements,
     nested), a select, an enumeration;
     x use of the chain (unused | last link typed into an attribute, an aggregate element, a select member)
     x declaration order (root first | last link first)
     plus WHERE rules on the first / middle / last / every link of a chain over REAL, INTEGER, STRING.
     Oracle: every link has ONE definition whose underlying type is the DECLARED one (class chK(ch(K-1)); a rename of an
     enumeration / select / aggregate may instead be an equal enumeration / select / aggregate descriptor).

  B. entity ATTRIBUTE POPULATIONS   which kinds of attributes the entity declares itself:
     none | explicit | DERIVE | INVERSE and every combination, several inverse forms only, several derived only, OPTIONAL only,
     a WHERE rule only, an inherited attribute redeclared as DERIVEd only
     x position in the hierarchy: root (alone / with a subtype / abstract), subtype of a supertype with attributes / without
     attributes / with only inverse / with only derived attributes, of two supertypes, in the middle of a chain, two levels deep.
     Oracle: module compiles and imports, the class exists, direct bases and constructor parameters as declared.

  C. inheritance LATTICES   ENTITY t SUBTYPE OF (<2, 3 or 4 direct supertypes>) in EVERY declaration order (all permutations),
     where the direct supertypes are
       unrelated roots | unrelated with different inheritance depths | a supertype together with its own subtype / grandchild /
       great-grandchild (related pairwise, through a chain of 2 or 3 levels) | a whole chain a <- b <- c (<- d) named at once |
       two related pairs | related ones next to unrelated ones (so every permutation puts the related ones adjacent AND separated,
       ancestor first AND descendant first) | the legs of a diamond (equal and unequal legs), the legs plus the apex, the legs plus
       unrelated ones, a full diamond a,b,c,d
     x variant: 'bare' (no attribute anywhere, t declared first) | 'attrs' (every entity one explicit attribute of a type that differs
       from its neighbours', t declared last, plus u SUBTYPE OF (t)).
     Oracle: module compiles AND IMPORTS (Python must find a method resolution order), every entity class exists, direct bases as
     declared (when Python cannot take the declared order - a supertype named before its own subtype - any order of the declared
     supertypes), the entity classes in each __mro__ are exactly the declared ancestors, constructor parameters in Part 21 order,
     and an instance of every entity is constructed from its inherited-then-own values and read back.

One schema per shape, so a module that does not compile or import is attributed to one shape.
"""
import itertools

from . import model as M

SIMPLE_ROOTS = ['STRING', 'REAL', 'INTEGER', 'BOOLEAN', 'NUMBER', 'LOGICAL', 'BINARY']


def _ent(name, supers=(), attrs=(), **kw):
    return M.Entity(name, supers=list(supers), attrs=[M.Attr(*a) for a in attrs], **kw)


# ------------------------------------------------------------------------------------------------ A. type chains
def _roots():
    """-> [(root tag, fn() -> (root TypeDef named ch1, [helper types], [helper entities]))]"""
    out = []
    for k in SIMPLE_ROOTS:
        out.append((k, (lambda k=k: (M.TypeDef('ch1', 'simple', base=M.T(k)), [], []))))
    lab = lambda: M.TypeDef('lab', 'simple', base=M.STR())
    aggs = [
        ('LIST [1:?] OF INTEGER', lambda: (M.AGG('LIST', M.INT(), 1, None), [], [])),
        ('SET [0:5] OF STRING', lambda: (M.AGG('SET', M.STR(), 0, 5), [], [])),
        ('BAG OF REAL', lambda: (M.AGG('BAG', M.REAL()), [], [])),
        ('ARRAY [1:3] OF BOOLEAN', lambda: (M.AGG('ARRAY', M.T('BOOLEAN'), 1, 3), [], [])),
        ('LIST [0:?] OF NUMBER', lambda: (M.AGG('LIST', M.T('NUMBER'), 0, None), [], [])),
        ('SET [1:4] OF BINARY', lambda: (M.AGG('SET', M.T('BINARY'), 1, 4), [], [])),
        ('BAG [2:?] OF LOGICAL', lambda: (M.AGG('BAG', M.T('LOGICAL'), 2, None), [], [])),
        ('LIST [1:?] OF entity', lambda: (M.AGG('LIST', M.ENT('m0'), 1, None), [], [])),
        ('SET [1:?] OF defined type', lambda: (M.AGG('SET', M.NAMED('lab'), 1, None), [lab()], [])),
        ('LIST [1:3] OF LIST [1:?] OF REAL', lambda: (M.AGG('LIST', M.AGG('LIST', M.REAL(), 1, None), 1, 3), [], [])),
    ]
    for tag, fn in aggs:
        def mk(fn=fn):
            b, ht, he = fn()
            return M.TypeDef('ch1', 'simple', base=b), ht, he
        out.append((tag, mk))
    out.append(('SELECT', lambda: (M.TypeDef('ch1', 'select', members=['lab', 'm0', 'cnt']),
                                   [lab(), M.TypeDef('cnt', 'simple', base=M.INT())], [])))
    out.append(('ENUMERATION', lambda: (M.TypeDef('ch1', 'enum', items=['north', 'east', 'south', 'west']), [], [])))
    return out


WHERE_RULE = {'REAL': 'SELF > %d.5', 'INTEGER': 'SELF > %d', 'STRING': 'LENGTH(SELF) > %d'}


def chain_schema(idx, rtag, mk, length, use, order, where=None):
    root, htypes, hents = mk()
    chain = [root] + [M.TypeDef('ch%d' % k, 'simple', base=M.NAMED('ch%d' % (k - 1))) for k in range(2, length + 1)]
    if where:
        on = {'first': [0], 'last': [length - 1], 'middle': list(range(1, length - 1)), 'all': list(range(length))}[where]
        for k in on:
            chain[k].where = ['wr1 : ' + WHERE_RULE[rtag] % k]
    last = chain[-1].name
    types = list(htypes) + (chain if order == 'fwd' else chain[::-1])
    ents = [_ent('m0', attrs=[('m0_a', M.INT())])] + list(hents)
    if use == 'used':
        types.append(M.TypeDef('gl', 'simple', base=M.AGG('LIST', M.NAMED(last), 1, None)))
        types.append(M.TypeDef('pk', 'select', members=[last, 'm0']))
        ents.append(_ent('h', attrs=[('h_a', M.NAMED(last)), ('h_b', M.NAMED('gl')), ('h_c', M.NAMED('pk'), True)]))
    s = M.Schema('mc%d' % idx, types, ents)
    s.tags |= {'matrix:chain', 'matrix:chain root:' + rtag, 'matrix:chain length:%d' % length, 'matrix:chain use:' + use,
               'matrix:chain declared:' + ('root first' if order == 'fwd' else 'last link first')}
    if where:
        s.tags.add('matrix:chain WHERE rule on:' + where)
    s.matrix = ('chain', rtag, length, use, order, where)
    return s


def chains():
    out = []
    for rtag, mk in _roots():
        for length in (1, 2, 3, 4):
            for use in ('unused', 'used'):
                out.append((rtag, mk, length, use, 'fwd', None))
            if length >= 2:
                out.append((rtag, mk, length, 'used', 'rev', None))
    for rtag, mk in _roots():
        if rtag in WHERE_RULE:
            for length in (3, 4):
                for where in ('first', 'middle', 'last', 'all'):
                    out.append((rtag, mk, length, 'used', 'fwd', where))
    return [chain_schema(i, *a) for i, a in enumerate(out)]


# ------------------------------------------------------------------------------------------------ B. entity populations
POPS = ['none', 'E', 'D', 'I', 'ED', 'EI', 'DI', 'EDI', 'I3', 'D2', 'Eopt', 'W', 'IW', 'R', 'RI']
CTXS = ['root', 'root with subtype', 'root with attribute-free subtype', 'abstract root', 'subtype of supertype with attributes',
        'subtype of attribute-free supertype', 'subtype of two supertypes', 'subtype of two attribute-free supertypes',
        'middle of a chain', 'subtype of inverse-only supertype', 'subtype of derive-only supertype', 'two levels deep']
# contexts in which the entity has a direct supertype with an explicit INTEGER attribute p_a (needed by R: redeclared as DERIVEd)
HAS_P = {'subtype of supertype with attributes', 'subtype of two supertypes', 'middle of a chain', 'two levels deep'}


def entity_schema(idx, pop, ctx):
    before, after, refs = [], [], []
    supers, abstract = [], False
    if ctx == 'root with subtype':
        after.append(_ent('below', ['t'], [('below_a', M.REAL())]))
    elif ctx == 'root with attribute-free subtype':
        after.append(_ent('below', ['t']))
    elif ctx == 'abstract root':
        abstract = True
        after.append(_ent('below', ['t'], [('below_a', M.STR())]))
    elif ctx == 'subtype of supertype with attributes':
        before.append(_ent('p', attrs=[('p_a', M.INT()), ('p_b', M.STR())]))
        supers = ['p']
    elif ctx == 'subtype of attribute-free supertype':
        before.append(_ent('n'))
        supers = ['n']
    elif ctx == 'subtype of two supertypes':
        before += [_ent('p', attrs=[('p_a', M.INT())]), _ent('q', attrs=[('q_a', M.REAL()), ('q_b', M.T('BOOLEAN'))])]
        supers = ['p', 'q']
    elif ctx == 'subtype of two attribute-free supertypes':
        before += [_ent('n1'), _ent('n2')]
        supers = ['n1', 'n2']
    elif ctx == 'middle of a chain':
        before.append(_ent('p', attrs=[('p_a', M.INT())]))
        supers = ['p']
        after.append(_ent('below', ['t'], [('below_a', M.REAL())]))
    elif ctx == 'subtype of inverse-only supertype':
        before.append(_ent('p', inverse=[M.Inverse('p_i', 'rp', 'rp_ref', 'SET', 0, None)]))
        refs.append(_ent('rp', attrs=[('rp_ref', M.ENT('p'))]))
        supers = ['p']
    elif ctx == 'subtype of derive-only supertype':
        before.append(_ent('p', derived=[M.Derived('p_d', M.STR(), "'x'")]))
        supers = ['p']
    elif ctx == 'two levels deep':
        before += [_ent('g', attrs=[('g_a', M.STR())]), _ent('p', ['g'], [('p_a', M.INT())])]
        supers = ['p']
    t = _ent('t', supers, abstract=abstract)
    if pop in ('E', 'ED', 'EI', 'EDI'):
        t.attrs = [M.Attr('t_a', M.INT()), M.Attr('t_b', M.STR(), True)] if pop != 'EI' else [M.Attr('t_a', M.REAL())]
    if pop == 'Eopt':
        t.attrs = [M.Attr('t_a', M.INT(), True), M.Attr('t_b', M.AGG('LIST', M.REAL(), 0, None), True)]
    if pop in ('D', 'ED', 'DI', 'EDI', 'D2'):
        t.derived.append(M.Derived('t_d', M.INT(), '7'))
    if pop == 'D2':
        t.derived.append(M.Derived('t_e', M.STR(), "'seven'"))
    if pop in ('R', 'RI'):
        t.derived.append(M.Derived('p_a', M.INT(), '5', redeclares=('p', 'p_a')))
    if pop in ('I', 'EI', 'DI', 'EDI', 'I3', 'IW', 'RI'):
        t.inverse.append(M.Inverse('t_i', 'rf', 'rf_ref', 'SET', 0, None))
        refs.append(_ent('rf', attrs=[('rf_ref', M.ENT('t'))]))
    if pop == 'I3':
        t.inverse.append(M.Inverse('t_j', 'rf2', 'rf2_ref', 'BAG', 1, 3))
        t.inverse.append(M.Inverse('t_k', 'rf3', 'rf3_ref'))
        refs.append(_ent('rf2', attrs=[('rf2_x', M.INT()), ('rf2_ref', M.ENT('t'))]))
        refs.append(_ent('rf3', attrs=[('rf3_ref', M.ENT('t'))]))
    if pop == 'W':
        t.where = ['wr1 : EXISTS(SELF)']
    if pop == 'IW':
        t.where = ['wr1 : SIZEOF(t_i) >= 0']
    s = M.Schema('me%d' % idx, [], before + [t] + after + refs)
    s.tags |= {'matrix:entity', 'matrix:entity own attributes:' + pop, 'matrix:entity position:' + ctx}
    s.matrix = ('entity', pop, ctx)
    return s


def entities():
    out = []
    for ctx in CTXS:
        for pop in POPS:
            if pop in ('R', 'RI') and ctx not in HAS_P:
                continue
            out.append((pop, ctx))
    return [entity_schema(i, *a) for i, a in enumerate(out)]


# ------------------------------------------------------------------------------------------------ C. inheritance lattices
# (pattern name, background [(entity, [supertypes])] in declaration order, direct supertypes of t in their canonical order)
LATTICES = [
    # ---- two direct supertypes
    ('2 unrelated roots', [('a', []), ('b', [])], ['a', 'b']),
    ('2 unrelated, depths 1 and 0', [('p0', []), ('p1', ['p0']), ('q', [])], ['p1', 'q']),
    ('2 unrelated, depths 2 and 1', [('p0', []), ('p1', ['p0']), ('p2', ['p1']), ('q0', []), ('q1', ['q0'])], ['p2', 'q1']),
    ('2 unrelated of equal depth 1', [('p0', []), ('p1', ['p0']), ('q0', []), ('q1', ['q0'])], ['p1', 'q1']),
    ('supertype and its subtype', [('a', []), ('b', ['a'])], ['a', 'b']),
    ('supertype and its grandchild', [('a', []), ('m', ['a']), ('b', ['m'])], ['a', 'b']),
    ('supertype and its great-grandchild', [('a', []), ('m', ['a']), ('n', ['m']), ('b', ['n'])], ['a', 'b']),
    ('diamond legs', [('a', []), ('b', ['a']), ('c', ['a'])], ['b', 'c']),
    ('diamond legs of unequal length', [('a', []), ('b', ['a']), ('m', ['a']), ('c', ['m'])], ['b', 'c']),
    # ---- three
    ('3 unrelated roots', [('a', []), ('b', []), ('c', [])], ['a', 'b', 'c']),
    ('3 unrelated, one deeper', [('p0', []), ('p1', ['p0']), ('q', []), ('r', [])], ['p1', 'q', 'r']),
    ('supertype, its subtype, an unrelated root', [('a', []), ('b', ['a']), ('x', [])], ['a', 'b', 'x']),
    ('supertype, its subtype, an unrelated subtype', [('a', []), ('b', ['a']), ('x0', []), ('x', ['x0'])], ['a', 'b', 'x']),
    ('supertype, its grandchild, an unrelated root', [('a', []), ('m', ['a']), ('b', ['m']), ('x', [])], ['a', 'b', 'x']),
    ('supertype, its great-grandchild, an unrelated root', [('a', []), ('m', ['a']), ('n', ['m']), ('b', ['n']), ('x', [])], ['a', 'b', 'x']),
    ('chain of 3 named at once', [('a', []), ('b', ['a']), ('c', ['b'])], ['a', 'b', 'c']),
    ('diamond legs, an unrelated root', [('a', []), ('b', ['a']), ('c', ['a']), ('x', [])], ['b', 'c', 'x']),
    ('diamond apex and legs', [('a', []), ('b', ['a']), ('c', ['a'])], ['a', 'b', 'c']),
    # ---- four
    ('4 unrelated roots', [('a', []), ('b', []), ('c', []), ('d', [])], ['a', 'b', 'c', 'd']),
    ('supertype, its subtype, 2 unrelated roots', [('a', []), ('b', ['a']), ('x', []), ('y', [])], ['a', 'b', 'x', 'y']),
    ('2 pairs supertype and subtype', [('a', []), ('b', ['a']), ('x', []), ('y', ['x'])], ['a', 'b', 'x', 'y']),
    ('supertype, its grandchild, 2 unrelated roots', [('a', []), ('m', ['a']), ('b', ['m']), ('x', []), ('y', [])], ['a', 'b', 'x', 'y']),
    ('chain of 3 named at once, an unrelated root', [('a', []), ('b', ['a']), ('c', ['b']), ('x', [])], ['a', 'b', 'c', 'x']),
    ('chain of 4 named at once', [('a', []), ('b', ['a']), ('c', ['b']), ('d', ['c'])], ['a', 'b', 'c', 'd']),
    ('diamond legs, 2 unrelated roots', [('a', []), ('b', ['a']), ('c', ['a']), ('x', []), ('y', [])], ['b', 'c', 'x', 'y']),
    ('full diamond named at once', [('a', []), ('b', ['a']), ('c', ['a']), ('d', ['b', 'c'])], ['a', 'b', 'c', 'd']),
]
ATTR_TYPES = [M.INT, M.STR, M.REAL, lambda: M.T('BOOLEAN')]


def _related_tags(bg, order):
    """How the related direct supertypes sit in this declaration order."""
    sup = dict(bg)

    def anc(n):
        out = set()
        for x in sup[n]:
            out |= {x} | anc(x)
        return out
    tags = set()
    for i, p in enumerate(order):
        for j in range(i + 1, len(order)):
            q = order[j]
            if q in anc(p):
                rel = 'descendant first'
            elif p in anc(q):
                rel = 'ancestor first'
            elif anc(p) & anc(q):
                rel = 'common ancestor'
            else:
                continue
            tags.add('%s, %s' % (rel, 'adjacent' if j == i + 1 else 'separated by %d' % (j - i - 1)))
    return tags or {'none related'}


def lattice_schema(idx, pname, bg, order, variant):
    ents = []
    for k, (n, sup) in enumerate(bg):
        ents.append(_ent(n, sup, [('%s_a' % n, ATTR_TYPES[k % 4]())] if variant == 'attrs' else []))
    if variant == 'attrs':
        ents.append(_ent('t', order, [('t_a', ATTR_TYPES[len(bg) % 4]()), ('t_b', ATTR_TYPES[(len(bg) + 1) % 4](), True)]))
        ents.append(_ent('u', ['t'], [('u_a', ATTR_TYPES[(len(bg) + 2) % 4]())]))
    else:
        ents.insert(0, _ent('t', order))
    s = M.Schema('ml%d' % idx, [], ents)
    s.tags |= {'matrix:lattice', 'matrix:lattice supertypes:' + pname, 'matrix:lattice direct supertypes:%d' % len(order), 'matrix:lattice variant:' + variant}
    s.tags |= {'matrix:lattice related pair:' + x for x in _related_tags(bg, order)}
    s.matrix = ('lattice', pname, ','.join(order), variant)
    return s


def lattices():
    out = []
    for pname, bg, directs in LATTICES:
        for order in itertools.permutations(directs):
            for variant in ('bare', 'attrs'):
                out.append((pname, bg, list(order), variant))
    return [lattice_schema(i, *a) for i, a in enumerate(out)]


def sizes():
    """D. sizes: enumerations whose items add up to 100 / 240 / 241 / 1000 / 5000 characters, selects with 2-60 members,
    entities with 1-80 attributes (fixed name buffers in the generator)"""
    out = []
    k = 0
    for n_items, width in ((4, 6), (12, 19), (12, 20), (13, 20), (40, 25), (150, 33), (3, 100)):
        items = ['c%0*d' % (width - 1, i) for i in range(n_items)]
        s = M.Schema('mz%d' % k, [M.TypeDef('big_enum', 'enum', items=items), M.TypeDef('tail_enum', 'enum', items=['aa', 'bb'])],
                     [_ent('h', attrs=[('h_a', M.NAMED('big_enum')), ('h_b', M.NAMED('tail_enum'))])])
        s.tags |= {'matrix:size', 'matrix:size enumeration items %d chars' % (n_items * (width + 1) - 1)}
        s.matrix = ('size', 'enumeration', n_items, width)
        out.append(s)
        k += 1
    for n_mem in (2, 12, 30, 60):
        ents = [_ent('member_entity_number_%02d' % i, attrs=[('a%d' % i, M.INT())]) for i in range(n_mem)]
        s = M.Schema('mz%d' % k, [M.TypeDef('big_select', 'select', members=[e.name for e in ents])],
                     ents + [_ent('h', attrs=[('h_a', M.NAMED('big_select'))])])
        s.tags |= {'matrix:size', 'matrix:size select members %d' % n_mem}
        s.matrix = ('size', 'select', n_mem, 0)
        out.append(s)
        k += 1
    for n_attr in (1, 20, 80):
        s = M.Schema('mz%d' % k, [], [_ent('wide', attrs=[('attribute_with_a_long_name_%02d' % i, M.INT() if i % 2 else M.STR(), i % 3 == 0) for i in range(n_attr)])])
        s.tags |= {'matrix:size', 'matrix:size entity attributes %d' % n_attr}
        s.matrix = ('size', 'attributes', n_attr, 0)
        out.append(s)
        k += 1
    return out


def schemas():
    return chains() + entities() + lattices() + sizes()
