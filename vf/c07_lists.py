"""C07 fixed matrices of declaration LISTS: every place where EXPRESS lets several names share one clause
(`a, b : T`) or where the pretty printer walks a list of named things and may merge, split, reorder or drop entries.

The random generator of vf/c07_gen.py draws such lists by chance; the property is a claim about EVERY item of every
list, so the shapes below are enumerated instead (same under every seed):

  formal parameters   PROCEDURE: 1-4 parameters x every VAR / by-value pattern x same / different type per neighbour
                      pair x type kind; FUNCTION: the same without VAR; RULE ... FOR ( entities ) in every order
  LOCAL variables     1-3 variables x with / without initialiser x same / different type x equal / different values
                      (hosts: function, procedure, rule)
  CONSTANT blocks     1-4 constants x same / different type x equal / different values, schema level and algorithm level
  explicit attributes 1-4 attributes x every OPTIONAL pattern x same / different type x type kind
  DERIVE / INVERSE / UNIQUE / WHERE lists with neighbours that share type, expression or referenced attribute
  enumeration items, select members, SUBTYPE OF and ONEOF lists in non-alphabetical orders with names that are
                      prefixes of each other
  USE / REFERENCE     1-3 listed items x every `AS` rename pattern (the renamed names are not referred to, which
                      keeps the workload outside the open finding use:as / reference:as)

Every schema exists twice: each entry written as its own clause, and neighbours that agree in everything but the name
written as one clause `a, b : T` (GroupEmitter) - both are the same declarations, so both have the same model.
Type kinds: simple, width (STRING(n), BINARY(n) FIXED, REAL(p)), defined type, entity, defined type next to entity,
select next to enumeration, aggregation of simple / of named types / same base with other bounds, GENERIC and
AGGREGATE OF with and without labels.

The oracle is the ordinary one of vf/props/c07.py (each list is a tuple with one entry per NAME: (VAR, name, type),
(name, type, initialiser), (attribute, OPTIONAL, type) ...); explain() only words a difference by name.
"""
import itertools
import random

from vf import c07_gen as G
from vf.c07_gen import INT, REAL, STR, BOOL, I, RL, S, V, OP, CALL, NAMED, AGG, INDET, SELF, Item

# ------------------------------------------------------------------------------------------ emitting
class GroupEmitter(G.Emitter):
    """neighbours that differ in nothing but the name always share a clause (also locals with equal initialisers)"""

    def grouped(self, entries, same):
        def eq(a, b):
            if isinstance(a[0], bool):              # formal parameter (VAR, name, type)
                return a[0] == b[0] and a[2] == b[2]
            return a[1:] == b[1:]                   # attribute (ref, OPTIONAL, type) / local (name, type, initialiser)
        i = 0
        while i < len(entries):
            j = i + 1
            while j < len(entries) and eq(entries[i], entries[j]):
                j += 1
            yield entries[i:j]
            i = j


class ListSchema(G.Schema):
    """a generated file whose text is laid out plainly; grouped=True merges equal neighbours into one clause"""

    def __init__(self, name, items, grouped=False):
        G.Schema.__init__(self, name, items, G.Style(random.Random(0), plain=True))
        self.grouped = grouped

    def subset(self, idx):
        return ListSchema(self.name, [self.items[i] for i in idx], self.grouped)

    def text(self, seed=0):
        st = self.style
        out = []
        for sch, body in ((self.lib, 'lib'), (self.name, 'main')):
            if body == 'lib' and not self.has_lib():
                continue
            em = (GroupEmitter if self.grouped else G.Emitter)(st)
            em.k('schema')
            em.name(sch)
            em.o(';')
            em.nl()
            decls = []
            for it in self.items:
                if body == 'lib':
                    decls += [(d, None) for d in it.lib]
                else:
                    for what, _, items in it.interfaces:
                        em.interface((what, self.lib, items))
                    decls += [(d, it.nested) for d in it.decls]
            consts = [d for d, _ in decls if d[0] == 'constant']
            if consts:
                em.constants(consts)
            for d, n in decls:
                if d[0] != 'constant':
                    em.decl(d, n)
            em.k('end_schema')
            em.o(';')
            em.tail(sch)
            out.append(em.text())
        return '\n'.join(out) + '\n'


# ------------------------------------------------------------------------------------------ types
def support():
    """declarations the type kinds refer to (names deliberately not in alphabetical order of declaration)"""
    return Item('list:support', [
        ('type', 'lt1', STR, ()), ('type', 'lt2', REAL, ()), ('type', 'lt0', INT, ()),
        G.mk_entity('le2', attrs=[(V('y'), False, REAL)]), G.mk_entity('le1', attrs=[(V('x'), False, INT)]),
        ('type', 'ls1', ('select', ('le2', 'le1', 'lt1')), ()),
        ('type', 'ln1', ('enum', ('ln1_zz', 'ln1_aa', 'ln1_mm')), ())], 'schema')


# kind -> (type A, type B): `same` neighbours both get the current one, `different` switches to the other
TYPE_KINDS = {
    'simple': (INT, REAL),
    'simple2': (BOOL, STR),
    'width': (('stringt', I(10), False), ('binaryt', I(8), True)),
    'width2': (('realt', I(4)), ('stringt', I(10), True)),
    'defined': (NAMED('lt1'), NAMED('lt2')),
    'entity': (NAMED('le1'), NAMED('le2')),
    'defined-entity': (NAMED('lt0'), NAMED('le1')),
    'select-enum': (NAMED('ls1'), NAMED('ln1')),
    'simple-defined': (REAL, NAMED('lt2')),
    'aggr': (AGG('list', INT, I(1), INDET), AGG('set', REAL, I(0), I(3))),
    'aggr-named': (AGG('list', NAMED('le1'), I(1), INDET), AGG('list', NAMED('lt1'), I(1), INDET)),
    'aggr-bounds': (AGG('bag', NAMED('le1'), I(1), INDET), AGG('bag', NAMED('le1'), I(2), INDET)),
    'aggr-flags': (AGG('list', NAMED('le1'), I(1), INDET, uniq=True), AGG('array', NAMED('le1'), I(1), I(3), opt=True)),
    'aggr-nested': (AGG('list', AGG('set', NAMED('lt1'), I(1), INDET)), AGG('list', AGG('set', NAMED('lt2'), I(1), INDET))),
}
# only formal parameters may be GENERIC / AGGREGATE OF
PARAM_KINDS = dict(TYPE_KINDS)
PARAM_KINDS.update({
    'generic': (('generic', None), ('generic', 'g1')),
    'generic-labels': (('generic', 'g1'), ('generic', 'g2')),
    'aggregate': (('aggregate', None, ('generic', None)), ('aggregate', 'a1', ('generic', 'g1'))),
    'aggregate-labels': (('aggregate', 'a1', ('generic', 'g1')), ('aggregate', 'a2', ('generic', 'g1'))),
    'aggregate-of': (('aggregate', None, INT), ('aggregate', None, NAMED('lt1'))),
    'aggregate-generic': (('aggregate', None, NAMED('le1')), ('generic', None)),
    'named-generic': (NAMED('le1'), ('generic', 'g1')),
})
NAMES = ('q', 'b', 'z', 'a')          # source order is not alphabetical: a printer that sorts is seen


def bits(n):
    return list(itertools.product((False, True), repeat=n))


def type_run(pair, diff):
    """types of n neighbours; diff[i]: neighbour i+1 has another type than neighbour i (a, b, a can come back)"""
    idx, out = 0, [pair[0]]
    for d in diff:
        if d:
            idx ^= 1
        out.append(pair[idx])
    return out


def code(bs):
    return ''.join('1' if b else '0' for b in bs) or 'x'


def shapes(nmax, flags=True):
    """(n, flag pattern, different-type pattern) for n = 1..nmax"""
    for n in range(1, nmax + 1):
        for fl in (bits(n) if flags else [(False,) * n]):
            for df in bits(n - 1):
                yield n, fl, df


# ------------------------------------------------------------------------------------------ matrices
def proc_params(tk, nmax=4):
    kind = 'list:proc-params:' + tk
    out = []
    for n, var, df in shapes(nmax):
        tys = type_run(PARAM_KINDS[tk], df)
        ps = tuple((var[i], NAMES[i], tys[i]) for i in range(n))
        out.append(Item(kind, [('procedure', 'pp_%d_%s_%s' % (n, code(var), code(df)), ps, None, (), ())], 'procedure'))
    return out


def func_params(tk, nmax=4):
    kind = 'list:func-params:' + tk
    out = []
    for n, _, df in shapes(nmax, flags=False):
        tys = type_run(PARAM_KINDS[tk], df)
        ps = tuple((False, NAMES[i], tys[i]) for i in range(n))
        out.append(Item(kind, [('function', 'fp_%d_%s' % (n, code(df)), ps, INT, (), (('return', I(7)),))], 'function'))
    return out


def rule_for():
    kind = 'list:rule-for'
    ens = ('rq', 'rb', 'rz', 'ra')
    out = [Item(kind, [G.mk_entity(e, attrs=[(V('x'), False, INT)]) for e in ens], 'rule')]
    i = 0
    for n in range(1, 5):
        perms = list(itertools.permutations(ens[:n])) if n < 4 else [ens, ens[::-1], ('ra', 'rb', 'rq', 'rz'), ('rz', 'ra', 'rq', 'rb')]
        for p in perms:
            i += 1
            wh = (('w1', OP('>=', CALL('sizeof', V(p[-1])), I(2))),)
            out.append(Item(kind, [('rule', 'rf_%d' % i, tuple(p), (), (), wh)], 'rule'))
    return out


INITS = {
    repr(INT): (I(5), I(6)), repr(REAL): (RL(2.5), RL(3.5)), repr(BOOL): (G.TRUE, G.FALSE), repr(STR): (S('a'), S('b c')),
    repr(('stringt', I(10), False)): (S('ab'), S('cd')), repr(('stringt', I(10), True)): (S('abcdefghij'), S('0123456789')),
    repr(('binaryt', I(8), True)): (('binlit', '10101010'), ('binlit', '11110000')), repr(('realt', I(4))): (RL(2.5), RL(4.25)),
    repr(NAMED('lt1')): (S('ab'), S('cd')), repr(NAMED('lt2')): (RL(1.5), RL(7.25)), repr(NAMED('lt0')): (I(8), I(9)),
    repr(NAMED('le1')): (CALL('le1', I(5)), CALL('le1', I(6))), repr(NAMED('le2')): (CALL('le2', RL(2.5)), CALL('le2', RL(3.5))),
    repr(NAMED('ls1')): (CALL('le1', I(5)), CALL('le2', RL(3.5))), repr(NAMED('ln1')): (V('ln1_aa'), V('ln1_zz')),
}


def init_of(ty, j):
    """initialiser j (0/1) for a variable / constant of type ty"""
    if ty[0] == 'aggr':
        if ty[6][0] == 'aggr':
            inner = ('agg', ((init_of(ty[6][6], j), None),))
            return ('agg', ((inner, None),) if j == 0 else ((inner, None), (inner, None)))
        e = init_of(ty[6], j)
        return ('agg', ((e, None),) if j == 0 else ((e, None), (init_of(ty[6], 0), None)))
    return INITS[repr(ty)][j]


LOCAL_TKS = ('simple', 'simple2', 'width', 'width2', 'defined', 'entity', 'defined-entity', 'select-enum', 'simple-defined', 'aggr',
             'aggr-named', 'aggr-bounds', 'aggr-nested')


def locals_(tk, nmax=3):
    """(name, type, initialiser) x with / without initialiser x equal / different values"""
    kind = 'list:locals:' + tk
    out = []
    c = 0
    for n, has, df in shapes(nmax):
        tys = type_run(TYPE_KINDS[tk], df)
        for vary in ((False, True) if sum(has) > 1 else (False,)):
            loc = tuple((NAMES[i], tys[i], (init_of(tys[i], i % 2 if vary else 0) if has[i] else None)) for i in range(n))
            nm = 'lv_%d_%s_%s_%d' % (n, code(has), code(df), int(vary))
            host = c % 3 if n == 2 else 0
            c += 1
            if host == 1:
                out.append(Item(kind, [('procedure', nm, ((False, 'arg', INT),), None, loc, ())], 'procedure'))
            elif host == 2:
                out.append(Item(kind, [('rule', nm, ('le1',), loc, (), (('w1', OP('>=', CALL('sizeof', V('le1')), I(2))),))], 'rule'))
            else:
                out.append(Item(kind, [('function', nm, ((False, 'arg', INT),), INT, loc, (('return', V('arg')),))], 'function'))
    return out


def constants(tk, nmax=4):
    """CONSTANT blocks: the printer never merges `a : T := v; b : T := v;` - each constant keeps its own type and value"""
    kind = 'list:constants:' + tk
    out = []
    for n, _, df in shapes(nmax, flags=False):
        tys = type_run(TYPE_KINDS[tk], df)
        for vary in ((False, True) if n > 1 else (False,)):
            tag = '%d_%s_%d' % (n, code(df), int(vary))
            cs = [('constant', 'k%s_%s' % (NAMES[i], tag), tys[i], init_of(tys[i], i % 2 if vary else 0)) for i in range(n)]
            out.append(Item(kind, cs, 'const'))
            # the same block local to a function
            fn = 'kf_' + tag
            inner = [('constant', NAMES[i], tys[i], init_of(tys[i], i % 2 if vary else 0)) for i in range(n)]
            f = ('function', fn, ((False, 'arg', INT),), INT, (), (('return', V('arg')),))
            out.append(Item(kind, [f], 'function', nested={fn: inner}))
    return out


ATTR_TKS = tuple(TYPE_KINDS)


def attributes(tk, nmax=4):
    kind = 'list:attributes:' + tk
    out = []
    for n, opt, df in shapes(nmax):
        tys = type_run(TYPE_KINDS[tk], df)
        attrs = [(V(NAMES[i]), opt[i], tys[i]) for i in range(n)]
        out.append(Item(kind, [G.mk_entity('ea_%d_%s_%s' % (n, code(opt), code(df)), attrs=attrs)], 'entity'))
    return out


def entity_clauses():
    """DERIVE, INVERSE, UNIQUE and WHERE lists whose neighbours agree in type / expression / referenced attribute"""
    out = []
    for tk in ('simple', 'defined', 'aggr'):
        for n, _, df in shapes(3, flags=False):
            tys = type_run(TYPE_KINDS[tk], df)
            for vary in ((False, True) if n > 1 else (False,)):
                der = [(V(NAMES[i]), tys[i], init_of(tys[i], i % 2 if vary else 0)) for i in range(n)]
                out.append(Item('list:derive:' + tk, [G.mk_entity('ed_%s_%d_%s_%d' % (tk.replace('-', '_'), n, code(df), int(vary)),
                                                                  attrs=[(V('x'), False, INT)], derive=der)], 'entity'))
    # INVERSE: target entities it1 / it2 each refer to the host twice (ref1, ref2)
    c = 0
    for n in range(1, 4):
        for df in bits(n - 1):            # another inverse type (SET OF it1 <-> BAG OF it2)
            for fa in bits(n):            # FOR ref1 / ref2
                c += 1
                host = 'ei_%d' % c
                t1 = G.mk_entity('it1_%d' % c, attrs=[(V('ref1'), False, NAMED(host)), (V('ref2'), False, NAMED(host))])
                t2 = G.mk_entity('it2_%d' % c, attrs=[(V('ref1'), False, NAMED(host)), (V('ref2'), False, NAMED(host))])
                tys = type_run((AGG('set', NAMED('it1_%d' % c), I(0), INDET), AGG('bag', NAMED('it2_%d' % c), I(1), I(3))), df)
                inv = [(V(NAMES[i]), tys[i], 'ref2' if fa[i] else 'ref1') for i in range(n)]
                out.append(Item('list:inverse', [G.mk_entity(host, attrs=[(V('x'), False, INT)], inverse=inv), t1, t2], 'entity'))
    # UNIQUE: 1-3 labelled rules over 1-3 attributes each, attributes named in non-alphabetical order
    attrs = [(V(nm), False, INT) for nm in NAMES]
    c = 0
    for n in range(1, 4):
        for sizes in itertools.product((1, 2, 3), repeat=n):
            c += 1
            un = []
            for j, k in enumerate(sizes):
                refs = tuple(V(NAMES[(j + m) % 4]) for m in range(k))
                un.append((('uz', 'ua', 'um')[j], refs))
            out.append(Item('list:unique', [G.mk_entity('eu_%d' % c, attrs=attrs, unique=un)], 'entity'))
    # WHERE: 1-4 labelled rules, labels not in alphabetical order, neighbours with the same expression
    for n in range(1, 5):
        for same in (False, True):
            wh = [(('wz', 'wa', 'wm', 'wb')[i], OP('>', V('q'), I(2 if same else 2 + i))) for i in range(n)]
            out.append(Item('list:where', [G.mk_entity('ew_%d_%d' % (n, int(same)), attrs=attrs, wh=wh)], 'entity'))
            twh = tuple((('wz', 'wa', 'wm', 'wb')[i], OP('>', SELF, I(2 if same else 2 + i))) for i in range(n))
            out.append(Item('list:where', [('type', 'tw_%d_%d' % (n, int(same)), INT, twh)], 'type'))
    return out


ID_POOL = ('it', 'it_a', 'it_ab', 'zz', 'a', 'it_', 'm' * 40, 'b2')


def id_lists():
    """enumeration items, select members, SUBTYPE OF and ONEOF lists: orders that no sort reproduces"""
    out = []
    c = 0
    orders = []
    for n in range(1, 7):
        base = [x for x in ID_POOL[:n] if x != 'it_']
        orders.append(tuple(base))
        if n > 1:
            orders.append(tuple(reversed(base)))
            orders.append(tuple(base[1:] + base[:1]))
    orders.append(tuple(x for x in ID_POOL if x != 'it_'))
    for o in orders:
        c += 1
        out.append(Item('list:enum-items', [('type', 'te_%d' % c, ('enum', tuple('e%d_%s' % (c, x) for x in o)), ())], 'type'))
    # select members / supertypes: entities and defined types under the same kind of names
    pool = tuple('m_' + x for x in ID_POOL if x != 'it_' and len(x) < 30) + ('mt_z', 'mt_a')
    decls = [G.mk_entity(x, attrs=[(V('x_' + x), False, INT)]) for x in pool if not x.startswith('mt_')]
    decls += [('type', x, STR, ()) for x in pool if x.startswith('mt_')]
    out.append(Item('list:support', decls, 'schema'))
    ents = tuple(x for x in pool if not x.startswith('mt_'))
    mixed = (pool[-1],) + ents[:3] + (pool[-2],) + ents[3:]
    c = 0
    for n in range(1, len(mixed) + 1):
        for o in ((mixed[:n], tuple(reversed(mixed[:n])), mixed[1:n] + mixed[:1]) if n > 1 else (mixed[:1],)):
            c += 1
            out.append(Item('list:select-members', [('type', 'tsel_%d' % c, ('select', tuple(o)), ())], 'type'))
    c = 0
    for n in range(1, 5):
        for o in ((ents[:n], tuple(reversed(ents[:n])), ents[1:n] + ents[:1]) if n > 1 else (ents[:1],)):
            c += 1
            out.append(Item('list:subtype-of', [G.mk_entity('esub_%d' % c, attrs=[(V('w'), False, INT)], subs=o)], 'entity'))
    # ONEOF lists (own family of subtypes per supertype)
    c = 0
    for n in range(1, 5):
        for rot in range(min(n, 3)):
            c += 1
            sup = 'eone_%d' % c
            names = [('s%d_' % c) + x for x in ('it', 'it_a', 'zz', 'a')[:n]]
            names = names[rot:] + names[:rot]
            subs = [G.mk_entity(s, attrs=[(V('v'), False, INT)], subs=[sup]) for s in sorted(names)]
            out.append(Item('list:oneof', [G.mk_entity(sup, attrs=[(V('u'), False, INT)], sup=('oneof', tuple(V(s) for s in names)))] + subs,
                            'entity'))
    return out


def interface_schemas():
    """USE / REFERENCE item lists: 1-3 items x every AS pattern; one file (library + main schema) per pattern.
    Renamed items are not referred to by the main schema (that is the open finding use:as / reference:as)."""
    out = []
    lib = [G.mk_entity(e, attrs=[(V('x'), False, INT)]) for e in ('uq', 'ub', 'uz')]
    lib += [('type', 'rq', STR, ()), ('function', 'rb', ((False, 'a', INT),), INT, (), (('return', OP('+', V('a'), I(2))),)),
            ('constant', 'rz', INT, I(99))]
    use_pool, ref_pool = ('uq', 'ub', 'uz'), ('rq', 'rb', 'rz')
    c = 0
    for n in range(1, 4):
        for al in bits(n):
            c += 1
            for grouped in (False,):
                u = tuple(sorted(((use_pool[i], 'ua%d' % i if al[i] else None) for i in range(n)), key=repr))
                r = tuple(sorted(((ref_pool[i], 'ra%d' % i if al[i] else None) for i in range(n)), key=repr))
                attrs = [(V('r%d' % i), False, NAMED(use_pool[i])) for i in range(n) if not al[i]]
                if n >= 1 and not al[0]:
                    attrs.append((V('s'), False, NAMED('rq')))
                attrs.append((V('k'), False, INT))
                user = G.mk_entity('user', attrs=attrs)
                it1 = Item('list:use-items', [user], 'schema', interfaces=[('use', None, u)], lib=lib)
                it2 = Item('list:reference-items', [], 'schema', interfaces=[('reference', None, r)])
                out.append(ListSchema('lm_iface_%d_%s' % (n, code(al)), [it1, it2], grouped))
    return out


def _nm(tk):
    return tk.replace('-', '_')


def matrix_schemas():
    """[ListSchema]: the whole matrix; each list kind x type kind is its own file, written ungrouped and grouped"""
    out = []

    def both(name, items, sup=True):
        for g in (False, True):
            out.append(ListSchema('lm_%s_%s' % (name, 'g' if g else 's'), ([support()] if sup else []) + list(items), g))

    for tk in PARAM_KINDS:
        both('pp_' + _nm(tk), proc_params(tk))
    fp = []
    for tk in PARAM_KINDS:
        its = func_params(tk)
        for it in its:              # function names must be unique in the file
            d = it.decls[0]
            it.decls[0] = (d[0], d[1] + '_' + _nm(tk)) + d[2:]
        fp += its
    both('fp', fp)
    both('rule_for', rule_for(), sup=False)
    for tk in LOCAL_TKS:
        both('lv_' + _nm(tk), locals_(tk))
    for tk in LOCAL_TKS:
        both('k_' + _nm(tk), constants(tk))
    for tk in ATTR_TKS:
        both('ea_' + _nm(tk), attributes(tk))
    both('clauses', entity_clauses())
    both('ids', id_lists(), sup=False)
    out += interface_schemas()
    return out


# ------------------------------------------------------------------------------------------ wording a difference
def _by_name(entries, name_at):
    return dict((repr(e[name_at]) if isinstance(e[name_at], tuple) else e[name_at], e) for e in entries)


def _list_diff(what, a, b, name_at, fields):
    """a, b: tuples of entries; fields: {index: wording}; -> [text] naming every entry that differs"""
    out = []
    A, B = _by_name(a, name_at), _by_name(b, name_at)
    for n in A:
        if n not in B:
            out.append('%s %s is lost' % (what, n))
    for n in B:
        if n not in A:
            out.append('%s %s is invented' % (what, n))
    for n in A:
        if n in B and A[n] != B[n]:
            for i, w in fields.items():
                if A[n][i] != B[n][i]:
                    out.append('%s %s: %s %s in the source, %s in the output' % (what, n, w, _short(A[n][i]), _short(B[n][i])))
    if not out and [e[name_at] for e in a] != [e[name_at] for e in b]:
        out.append('%ss reordered: %s -> %s' % (what, [e[name_at] for e in a], [e[name_at] for e in b]))
    return out


def _short(x):
    if x is True:
        return 'yes'
    if x is False:
        return 'no'
    return str(x)[:80]


def explain(a, b):
    """per-name wording of how the lists of two trees of the same declaration differ ('' when they do not)"""
    if not (isinstance(a, tuple) and isinstance(b, tuple) and a and b and a[0] == b[0] and len(a) == len(b)):
        return ''
    k = a[0]
    out = []
    try:
        if k in ('function', 'procedure'):
            out += _list_diff('formal parameter', a[2], b[2], 1, {0: 'VAR', 2: 'type'})
            out += _list_diff('local variable', a[4], b[4], 0, {1: 'type', 2: 'initialiser'})
        elif k == 'rule':
            if a[2] != b[2]:
                out.append('RULE FOR list %s -> %s' % (a[2], b[2]))
            out += _list_diff('local variable', a[3], b[3], 0, {1: 'type', 2: 'initialiser'})
            out += _list_diff('domain rule', a[5], b[5], 0, {1: 'expression'})
        elif k == 'entity':
            if a[4] != b[4]:
                out.append('SUBTYPE OF list %s -> %s' % (a[4], b[4]))
            out += _list_diff('attribute', a[5], b[5], 0, {1: 'OPTIONAL', 2: 'type'})
            out += _list_diff('derived attribute', a[6], b[6], 0, {1: 'type', 2: 'expression'})
            out += _list_diff('inverse attribute', a[7], b[7], 0, {1: 'type', 2: 'FOR'})
            out += _list_diff('unique rule', a[8], b[8], 0, {1: 'attributes'})
            out += _list_diff('domain rule', a[9], b[9], 0, {1: 'expression'})
        elif k == 'type':
            if a[2][0] in ('enum', 'select') and a[2][0] == b[2][0] and a[2] != b[2]:
                out.append('%s list %s -> %s' % ('enumeration item' if a[2][0] == 'enum' else 'select member', a[2][1], b[2][1]))
            out += _list_diff('domain rule', a[3], b[3], 0, {1: 'expression'})
        elif k in ('use', 'reference'):
            out += _list_diff('%s item' % k, a[2], b[2], 0, {1: 'AS'})
    except (IndexError, TypeError):
        return ''
    return '; '.join(out[:6])
