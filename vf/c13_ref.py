"""C13 reference model of InstMgr: an ordered list + a dict, nothing else.

The model is driven by the *concrete* operations of a harness/instmon.cc script and by what the harness printed.
It answers two questions per operation:
  * what must be observed (exact where the property statement fixes it: count, instances by index, GetIndex,
    FindFileId over the whole id window, return values of look-ups, kept explicit ids, a second Append of a live
    instance adds nothing), and
  * for ids chosen by the manager (automatic / duplicate-id Append, NextFileId) and for MaxFileId only the property's
    clauses: fresh (no live instance carries it), above every id seen since the manager was last emptied, max id never
    below a live id.  The observed id is then adopted by the model.  The repository's own numbering policy
    (max+1, max reset to -1 by ClearInstances/DeleteInstances only) is predicted as well, but a deviation from it that
    satisfies the clauses is only counted (`soft`), never reported - the model is not stricter than the statement.
    The same goes for the node state (CurrState), on which the statement has no clause.

"Emptied" is read in the way most favourable to the code: any moment the manager holds no instance.
"""

NAMES = ['File_Name', 'File_Description', 'File_Schema', 'FILE_NAME', 'file_schema', 'No_Such_Entity', 'File_Population',
         'File', 'File_Nam', 'File_Name_Extra', 'File_S']   # the last four: proper prefixes / extensions of entity names, match nothing
CLASS_NAME = ['file_name', 'file_description', 'file_schema']
NAME_CLASS = [0, 1, 2, 0, 2, None, None, None, None, None, None]     # class matched by NAMES[i] (entity names are case-insensitive)
MUTATOR_EVENT = {'A': 'Append', 'DN': 'Delete', 'DI': 'Delete', 'CL': 'ClearInstances', 'DA': 'DeleteInstances'}

IN_MGR, FREED, DETACHED = 0, 1, 2


def parse_op(tok):
    """'A0,5,1' -> ('A', [0, 5, 1]); 'CL' -> ('CL', [])."""
    if tok[0] in 'AR':
        return tok[0], [int(x) for x in tok[1:].split(',')]
    code, rest = tok[:2], tok[2:]
    return code, ([int(x) for x in rest.split(',')] if rest else [])


class Obj(object):
    __slots__ = ('uid', 'cls', 'id', 'state', 'where')

    def __init__(self, uid, cls, id_, state):
        self.uid, self.cls, self.id, self.state, self.where = uid, cls, id_, state, DETACHED


class RefMgr(object):
    def __init__(self):
        self.objs = []          # every object the script created, by uid
        self.live = []          # Obj in insertion order among the survivors
        self.byid = {}          # id -> Obj (live only)
        self.seen_max = None    # highest id seen (live, handed out) since the manager was last empty; None = none
        self.max_pred = -1      # MaxFileId under the repository's policy
        self.hi = 0             # highest id ever given to an instance / handed out in this script (harness window)
        self.stale = set()      # array slots left dangling by DeleteInstances (implementation detail, masks only)
        self.soft = {}          # name -> count of clause-satisfying deviations from the repository's policy
        self.flags = set()      # feature tags of what happened (for coverage and masks)

    # ------------------------------------------------------------------ helpers
    def _soft(self, name):
        self.soft[name] = self.soft.get(name, 0) + 1

    def _see(self, i):
        if self.seen_max is None or i > self.seen_max:
            self.seen_max = i
        if i > self.hi:
            self.hi = i

    def _emptied_if_empty(self):
        if not self.live:
            self.seen_max = None

    def count(self):
        return len(self.live)

    def name_lookup(self, name, start):
        c = NAME_CLASS[name]
        for o in self.live[start:] if start >= 0 else []:
            if o.cls == c:
                return o
        return None

    def keyword_count(self, name):
        c = NAME_CLASS[name]
        return sum(1 for o in self.live if o.cls == c)

    # ------------------------------------------------------------------ prediction (used to resolve abstract ops)
    def predict_auto(self):
        return self.max_pred + 1

    # ------------------------------------------------------------------ one operation
    def step(self, code, a, ret):
        """Apply one concrete op given the harness's return field `ret` (None = predict).  -> list of (kind, detail)."""
        d = []
        if code == 'A':
            cls, want, st = a
            uid = len(self.objs)
            o = Obj(uid, cls, want, st)
            self.objs.append(o)
            auto = (want == 0) or (want in self.byid)
            self.flags.add('append:auto' if want == 0 else 'append:duplicate id' if auto else
                           'append:explicit id reused' if want <= self.hi else 'append:explicit id')
            if want:
                self.hi = max(self.hi, want)
            pred = self.predict_auto() if auto else want
            if ret is None:
                got, ok, idx = pred, 1, len(self.live)
            else:
                try:
                    u, ok, got, idx = ret[1:].split(':')
                    u, ok, got = int(u), int(ok), int(got)
                except ValueError:
                    return [('harness', 'unparsable Append result %r' % ret)]
                if u != uid:
                    return [('harness', 'uid out of step %r' % ret)]
                if not ok:
                    d.append(('Append of a new instance returned no node', 'id wanted %d' % want))
                    o.id = got
                    return d
                if auto:
                    if got in self.byid:
                        d.append(('automatic id is carried by a live instance', 'got %d' % got))
                    elif self.seen_max is not None and got <= self.seen_max:
                        d.append(('automatic id not above every id seen since last emptied', 'got %d, seen %d' % (got, self.seen_max)))
                    elif got != pred:
                        self._soft('auto id differs from max+1')
                elif got != want:
                    d.append(('explicit unused id not kept', 'wanted %d got %d' % (want, got)))
                if idx != str(len(self.live)):
                    d.append(('Append returned a node that is not the last', 'index %s, count was %d' % (idx, len(self.live))))
            o.id = got
            o.where = IN_MGR
            if got in self.byid and self.byid[got] is not o:
                pass  # already reported; the view comparison will show the rest
            self.stale.discard(len(self.live))
            self.live.append(o)
            self.byid[got] = o
            self._see(got)
            self.max_pred = max(self.max_pred, got)
        elif code == 'R':
            o = self.objs[a[0]]
            self.flags.add('append:same instance again' + (' (id 0)' if o.id == 0 else ''))
            if ret is not None:
                ok, got = ret.split(':')
                if ok != '0':
                    d.append(('second Append of a live instance returned a node', 'id %d -> %s' % (o.id, got)))
                elif int(got) != o.id:
                    d.append(('second Append of a live instance changed its id', 'id %d -> %s' % (o.id, got)))
        elif code in ('DN', 'DI'):
            o = self.live[a[0]] if code == 'DN' else self.objs[a[0]]
            i = self.live.index(o)
            self.flags.add('delete:%s %s' % ('node' if code == 'DN' else 'instance',
                                              'only' if len(self.live) == 1 else 'first' if i == 0 else
                                              'last' if i == len(self.live) - 1 else 'middle'))
            del self.live[i]
            del self.byid[o.id]
            o.where = FREED
            self.stale.discard(len(self.live))     # Remove() clears the vacated last slot
            self._emptied_if_empty()
        elif code == 'CS':
            if a[1] != 0:
                self.live[a[0]].state = a[1]
            self.flags.add('change state')
        elif code in ('CL', 'DA'):
            self.flags.add(('clear' if code == 'CL' else 'delete all') + (' (non-empty)' if self.live else ' (empty)'))
            if code == 'DA':
                self.stale |= set(range(len(self.live)))
            for o in self.live:
                o.where = DETACHED if code == 'CL' else FREED
            self.live, self.byid = [], {}
            self.seen_max = None
            self.max_pred = -1
        elif code == 'FF':
            o = self.byid.get(a[0])
            self.flags.add('find:' + ('live id' if o else 'dead id' if 0 <= a[0] <= self.hi else 'id never used'))
            self._expect(d, ret, str(o.uid) if o else '-', 'FindFileId(k)')
        elif code == 'GI':
            o = self.live[a[0]] if a[0] < len(self.live) else None
            self.flags.add('instance by index:' + ('in range' if o else 'past the end'))
            self._expect(d, ret, str(o.uid) if o else '-', 'GetApplication_instance(i)')
        elif code == 'GN':
            o = self.name_lookup(a[0], a[1])
            self.flags.add('name look-up:' + ('hit' if o else 'miss') + (' from start>0' if a[1] else ''))
            if ret is not None:
                if o is None and ret not in ('nil', '0'):
                    d.append(('name look-up returned an instance where none matches', 'got %s' % ret))
                elif o is not None and ret != str(o.uid):
                    d.append(('name look-up did not return the first match at or after start', 'want %d got %s' % (o.uid, ret)))
        elif code == 'IX':
            self._expect(d, ret, str(a[0]), 'GetIndex')
        elif code == 'KC':
            self._expect(d, ret, str(self.keyword_count(a[0])), 'EntityKeywordCount')
        elif code == 'MX':
            if ret is not None:
                m = int(ret)
                if self.live and m < max(o.id for o in self.live):
                    d.append(('MaxFileId below a live id', 'max %d' % m))
                elif m != self.max_pred:
                    self._soft('MaxFileId differs from policy')
        elif code == 'NX':
            got = self.predict_auto() if ret is None else int(ret)
            if got in self.byid:
                d.append(('NextFileId returned an id carried by a live instance', 'got %d' % got))
            elif self.seen_max is not None and got <= self.seen_max:
                d.append(('NextFileId not above every id seen since last emptied', 'got %d, seen %d' % (got, self.seen_max)))
            elif got != self.predict_auto():
                self._soft('NextFileId differs from max+1')
            self._see(got)
            self.max_pred = max(self.max_pred, got)
            self.flags.add('next id')
        else:
            d.append(('harness', 'unknown op %s' % code))
        return d

    @staticmethod
    def _expect(d, ret, want, what):
        if ret is not None and ret != want:
            d.append(('%s wrong' % what, 'want %s got %s' % (want, ret)))

    # ------------------------------------------------------------------ the view
    def expect_view(self):
        """The three view segments exactly as instmon prints them when the code follows the repository's policy."""
        head = 'n=%d m=%d' % (len(self.live), self.max_pred)
        nodes = ' '.join('%d:%d:%d:%d' % (o.uid, o.id, i, o.state) for i, o in enumerate(self.live))
        finds = ' '.join('%d:%d' % (k, self.byid[k].uid) for k in sorted(self.byid))
        return head, nodes, finds

    def diff_view(self, head, nodes, finds):
        """Clause-by-clause comparison of an observed view that is not textually the predicted one."""
        d = []
        try:
            n, m = [int(x.split('=')[1]) for x in head.split()]
        except (ValueError, IndexError):
            return [('harness', 'unparsable view head %r' % head)]
        if n != len(self.live):
            d.append(('InstanceCount differs from the number of live instances', 'count %d, live %d' % (n, len(self.live))))
        got = nodes.split()
        for i, t in enumerate(got):
            f = t.split(':')
            if len(f) != 4:
                d.append(('node %s' % t, 'at index %d' % i))
                continue
            if i >= len(self.live):
                break
            o = self.live[i]
            if f[0] != str(o.uid):
                d.append(('i-th instance is not the i-th survivor in insertion order', 'index %d: want obj %d got %s' % (i, o.uid, f[0])))
                break
            if f[1] != str(o.id):
                d.append(('instance carries a different id', 'index %d: want %d got %s' % (i, o.id, f[1])))
            if f[2] != str(i):
                d.append(('GetIndex of the i-th node is not i', 'index %d reports %s' % (i, f[2])))
            if f[3] != str(o.state):
                self._soft('node state differs')
        want = dict((k, str(o.uid)) for k, o in self.byid.items())
        seen = {}
        for t in finds.split():
            k, u = t.split(':')
            seen[int(k)] = u
        for k in sorted(set(want) | set(seen)):
            if k not in seen:
                d.append(('FindFileId finds nothing for the id of a live instance', 'id %d' % k))
            elif k not in want:
                d.append(('FindFileId finds something for an id no live instance carries', 'id %d -> obj %s' % (k, seen[k])))
            elif want[k] != seen[k]:
                d.append(('FindFileId returns another instance', 'id %d: want obj %s got %s' % (k, want[k], seen[k])))
        if self.live and m < max(o.id for o in self.live):
            d.append(('MaxFileId below a live id', 'max %d' % m))
        elif m != self.max_pred:
            self._soft('MaxFileId differs from policy')
            if not d:
                self.max_pred = m      # adopt, so that the next comparison is textual again
        return d


def judge(tokens, lines):
    """tokens: ['O1', 'A0,0,1', ...]; lines: harness output lines of this script between 'S n' and 'X n ...'.

    -> dict(divs=[(step, kind, detail)], steps=judged ops, flags, soft, events, complete).
    step is 0 for the initial view and k for the k-th operation.  Judging stops at the first diverging step.
    """
    m = RefMgr()
    res = dict(divs=[], steps=0, flags=m.flags, soft=m.soft, events=0, complete=False, model=m)
    ops = [parse_op(t) for t in tokens[1:]]
    li = 0
    for k in range(len(ops) + 1):
        if li >= len(lines) or lines[li] == 'END' or lines[li].startswith('BADSCRIPT'):
            break
        seg = lines[li].split('|')
        li += 1
        if len(seg) != 5:
            res['divs'].append((k, 'harness', 'unparsable line %r' % lines[li - 1][:200]))
            return res
        ret, head, nodes, finds, ev = [s.strip() for s in seg]
        d = []
        if k > 0:
            code, a = ops[k - 1]
            d = m.step(code, a, ret)
            want_ev = MUTATOR_EVENT.get(code)
        else:
            want_ev = None
        if (head, nodes, finds) != m.expect_view():
            d += m.diff_view(head, nodes, finds)
        if ev:
            for e in ev.split(','):
                f = e.split(':')
                res['events'] += 1
                if len(f) != 3 or f[2] != 'ok':
                    d.append(('invariant hook: ' + (f[2] if len(f) == 3 else e), 'after %s' % f[0]))
                elif want_ev and (f[0] != want_ev or int(f[1]) != len(m.live)):
                    d.append(('invariant hook saw another operation/count', '%s, model count %d' % (e, len(m.live))))
        res['steps'] = k
        if d:
            res['divs'] = [(k, kind, det) for kind, det in d]
            return res
    res['complete'] = li < len(lines) and lines[li] == 'END' and res['steps'] == len(ops)
    return res
