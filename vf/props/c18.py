"""C18 - the Python generator emits an importable module that mirrors the schema.

One case = one generated EXPRESS schema:
  exp2python <schema>.exp in an empty scratch directory (build flavour 'plain'; memory safety of the tool is C06's business)
  -> python3 -m py_compile <schema>.py
  -> subprocess: import <schema> with PYTHONPATH=<repo>/src/exp2python/python (+ the scratch dir), vf/c18_dump.py prints JSON.
Oracle (property statement): exit 0; exactly one module, named <schema>.py (not <schema>_1.py, <schema>_2.py ...); compiles; imports against the bundled runtime package;
entity classes == entities; direct bases == supertypes in declaration order (any order of the declared supertypes where Python
cannot take the declared one: a supertype named before its own subtype); the entity classes of each __mro__ == the declared
ancestors; constructor parameters == inherited-then-own
explicit attributes in Part 21 order; an instance built from one value per such attribute reads every value back under its attribute (names modulo the generator's documented escaping: `inherited<N>__` prefix on inherited
parameters, `_` suffix on identifiers that are Python keywords); one definition per defined type exposing the declared
underlying type, enumeration items in declared order, select members as a set.
"""
import json
import keyword
import os
import re
import sys

from .. import build, run, p21fam, model
from .. import c18_gen, c18_probes, c18_matrix, c18_names

DUMPER = os.path.join(os.path.dirname(os.path.dirname(os.path.abspath(__file__))), 'c18_dump.py')

# identifiers the documented escaping scheme maps to <id>_ : the generator's own list (class, pass, property) and, by the
# same scheme, every other Python hard keyword (an unescaped hard keyword cannot compile, so no other rendering exists).
ESCAPED = set(keyword.kwlist) | {'property'}
SIMPLE_PY = {'BOOLEAN': ('BOOLEAN', 'bool')}


def E(n):
    n = n.lower()
    return n + '_' if n in ESCAPED else n


# ----------------------------------------------------------------------------------------------------- expected
def order_shape(s, n):
    e = s.entity(n)
    if not e.supers:
        return 'no supertype'
    if len(e.supers) == 1:
        return 'one supertype'
    d = [depth(s, x) for x in e.supers]
    return 'several supertypes%s' % (' of equal depth' if len(set(d)) == 1 else (', shallower declared first' if d != sorted(d, reverse=True) else ', deeper declared first'))


def two_paths(s, n):
    """Some ancestor is inherited along two different paths (diamond somewhere above n)."""
    cnt = {}

    def rec(x):
        for y in s.entity(x).supers:
            cnt[y] = cnt.get(y, 0) + 1
            rec(y)
    rec(n)
    return any(v > 1 for v in cnt.values())


def entity_shape(s, n):
    return order_shape(s, n) + ('; an ancestor inherited along two paths' if two_paths(s, n) else '')


def depth(s, n):
    sup = s.entity(n).supers
    return 0 if not sup else 1 + max(depth(s, x) for x in sup)


def _c3_merge(seqs):
    res = []
    seqs = [list(x) for x in seqs if x]
    while seqs:
        for q in seqs:
            h = q[0]
            if not any(h in t[1:] for t in seqs):
                break
        else:
            return None
        res.append(h)
        seqs = [[x for x in t if x != h] for t in seqs]
        seqs = [t for t in seqs if t]
    return res


def subtype_first(s, supers):
    """The declared list with every entity moved (as little as possible) in front of its own ancestors."""
    out = []
    for x in supers:
        at = len(out)
        for i, y in enumerate(out):
            if y in s.ancestors(x):
                at = i
                break
        out.insert(at, x)
    return out


def linearisations(s):
    """-> {entity: (how, mro | None)}: how Python can linearise the class of each entity.
    'declared'       with its supertypes listed in declaration order (what the property asks for);
    'subtype first'  not as declared (a supertype is named before its own subtype), but after moving subtypes in front of their ancestors;
    'contradiction'  in neither order: the declared order of two supertypes contradicts the supertype list of one of the others."""
    memo = {}

    def lin(n):
        if n in memo:
            return memo[n]
        sup = s.entity(n).supers
        ms = [lin(x)[1] for x in sup]
        if any(m is None for m in ms):
            memo[n] = ('contradiction', None)
            return memo[n]
        r = _c3_merge(ms + [list(sup)])
        if r is not None:
            memo[n] = ('declared', [n] + r)
            return memo[n]
        r = _c3_merge(ms + [subtype_first(s, sup)])
        memo[n] = ('subtype first', [n] + r) if r is not None else ('contradiction', None)
        return memo[n]
    return {e.name: lin(e.name) for e in s.entities}


LIN_SHAPE = {'subtype first': 'several supertypes, one declared before its own subtype',
             'contradiction': 'several supertypes, two declared in the opposite order of the supertype list of another'}


def sorted_supers_above(s, n):
    """Nearest entity at or above n whose supertype list names a shallower supertype first -> its order shape | None."""
    for x in [n] + s.ancestors(n)[::-1]:
        if order_shape(s, x).endswith('shallower declared first'):
            return order_shape(s, x)
    return None


VALUE = {'INTEGER': lambda i: 100 + i, 'REAL': lambda i: i + 0.5, 'NUMBER': lambda i: i + 0.25, 'STRING': lambda i: 'v%d' % i,
         'BOOLEAN': lambda i: i % 2 == 0}


def construct_spec(s):
    """{class name: [one value per inherited-then-own explicit attribute, Part 21 order]} for every non-abstract entity whose explicit
    attributes all have a simple type (and none is redeclared as DERIVEd: the constructor may or may not list those)."""
    spec = {}
    for e in s.entities:
        if e.abstract:
            continue
        full, short = expected_params(s, e.name)
        if full != short:
            continue
        al = s.all_attrs(e.name)
        if all(a.type.kind in VALUE for _o, a, _d in al):
            spec[E(e.name)] = [VALUE[a.type.kind](i) for i, (_o, a, _d) in enumerate(al)]
    return spec


def expected_params(s, n):
    """-> (with redeclared-as-derived inherited attributes, without them): lists of (escaped name, inherited?)."""
    full, short = [], []
    for owner, a, der in s.all_attrs(n):
        it = (E(a.name), owner != n)
        full.append(it)
        if not der:
            short.append(it)
    return full, short


def norm_param(p):
    return re.sub(r'^inherited\d+__', '', p)


def id_note(name):
    c = c18_gen.id_class(name.lower())
    return {None: '', 'kw_doc': ' named by a keyword of the generator\'s escape list', 'kw_hard': ' named by another Python keyword',
            'soft': ' named by a soft keyword', 'builtin': ' named like a Python builtin'}[c]


def aggr_diff(s, t, d):
    """Declared aggregate type t against the dumped description d -> None | (shape suffix, symptom)."""
    if not isinstance(d, dict) or d.get('kind') != 'aggr':
        return ('', 'nesting differs')
    if d['akind'] != t.akind:
        return ('', 'aggregate kind differs')
    if (d['lo'], d['hi']) != ((t.lo if t.lo is not None else 0), t.hi):
        return ('', 'bounds differ')
    el = t.elem
    if el.kind == 'aggr':
        return aggr_diff(s, el, d['elem'])
    if isinstance(d['elem'], dict):
        if el.kind == 'named':
            u = s.underlying(el)
            if not isinstance(u, model.TypeDef) and u.kind == 'aggr':
                return aggr_diff(s, u, d['elem'])    # LIST OF a1 (a1 a defined aggregate) exposed as the nested aggregate: same underlying type
        return ('', 'nesting differs')
    if el.kind in model.SIMPLE:
        ok, shape = {el.kind}, ' of %s' % el.kind
    else:
        ok = {E(el.name)}
        if el.kind == 'named':
            u = s.underlying(el)
            if not isinstance(u, model.TypeDef) and u.kind in model.SIMPLE:
                ok.add(u.kind)       # LIST OF label may be exposed as LIST OF STRING: the same underlying type
        shape = ' of %s%s' % ('entity' if el.kind == 'entity' else 'defined type', id_note(el.name))
    return None if d['elem'] in ok else (shape, 'element type differs')


def aggr_got(d):
    if not isinstance(d, dict) or d.get('kind') != 'aggr':
        return d
    return dict(akind=d['akind'], lo=d['lo'], hi=d['hi'], elem=aggr_got(d['elem']))


def aggr_shape(t):
    el = t.elem
    return '%s OF %s' % (t.akind, aggr_shape(el) if el.kind == 'aggr' else (el.kind if el.kind in model.SIMPLE else el.kind + ' type'))


# ----------------------------------------------------------------------------------------------------- compare
def compare(s, dump):
    """-> [(key, what)] ; every key is <class>|<schema feature shape>|<symptom kind>."""
    out = []
    defs = dump['defs']
    for n in dump.get('dups', []):
        out.append(('definitions|name bound twice at module level|more than one definition', 'name %s' % n))
    ent_names = {E(e.name): e for e in s.entities}
    type_names = {E(t.name): t for t in s.types}
    got_ents = set(k for k, d in defs.items() if d['kind'] == 'entity')
    for k in sorted(set(ent_names) - got_ents):
        d = defs.get(k)
        out.append(('classes|entity%s|no entity class' % id_note(ent_names[k].name), 'entity %s: %s' % (k, 'no definition' if d is None else 'bound to %s' % d)))
    for k in sorted(got_ents - set(ent_names)):
        out.append(('classes|extra|entity class without entity', 'class %s' % k))
    for k in sorted(set(defs) - set(ent_names) - set(type_names)):
        if defs[k]['kind'] != 'entity':
            out.append(('definitions|extra|definition for nothing in the schema', '%s = %s' % (k, defs[k])))
    # ---- entities
    lin = linearisations(s)
    bad_bases = {}
    built = dump.get('construct') or {}
    for k, e in sorted(ent_names.items(), key=lambda ke: (depth(s, ke[1].name), ke[0])):
        d = defs.get(k)
        if d is None or d['kind'] != 'entity':
            continue
        shape = entity_shape(s, e.name)
        want_b = [E(x) for x in e.supers] or ['BaseEntityClass']
        bases_ok = True
        if sorted(d['bases']) != sorted(want_b):
            bases_ok = False
            out.append(('bases|%s|direct bases are not the declared supertypes' % order_shape(s, e.name),
                        'entity %s: class %s(%s), declared SUBTYPE OF (%s)' % (e.name, k, ', '.join(d['bases']), ', '.join(e.supers))))
        elif d['bases'] != want_b and lin[e.name][0] == 'declared':
            # (when Python cannot take the declared order - a supertype named before its own subtype - any order that imports is accepted)
            bases_ok = False
            out.append(('bases|%s|direct bases differ from the declared supertype list' % order_shape(s, e.name),
                        'entity %s: class %s(%s), declared SUBTYPE OF (%s)' % (e.name, k, ', '.join(d['bases']), ', '.join(e.supers))))
        bad_bases[e.name] = not bases_ok
        anc = set(E(x) for x in s.ancestors(e.name))
        got_anc = set(d.get('mro_own', [])[1:])
        if got_anc != anc and not any(bad_bases.get(x) for x in [e.name] + s.ancestors(e.name)):
            out.append(('mro|%s|entity classes of the method resolution order are not the declared ancestors' % shape,
                        'entity %s: __mro__ %s, ancestors %s' % (e.name, d.get('mro'), sorted(anc))))
        full, short = expected_params(s, e.name)
        got = d.get('params')
        if got is None:
            out.append(('signature|%s|constructor has no inspectable signature' % shape, '%s: %s' % (k, d.get('sig_error'))))
            continue
        gn = [norm_param(p) for p in got]
        wf, ws = [x[0] for x in full], [x[0] for x in short]
        if gn != wf and gn != ws:
            kind = diff_kind(gn, wf)
            if kind == 'inherited parameter repeated':
                shp = 'an ancestor inherited along two paths' if two_paths(s, e.name) else shape
            elif kind == 'parameter order differs':
                # the in-place sort of a supertype list shows in the constructor of the entity and of every entity below it
                shp = sorted_supers_above(s, e.name) or order_shape(s, e.name)
            else:
                shp = shape
            kwn = ''
            if kind == 'names differ':
                cl = sorted(set(filter(None, (c18_gen.id_class(b.rstrip('_')) for b in set(wf) ^ set(gn)))))
                kwn = ' (%s)' % ','.join(cl) if cl else ''
            out.append(('signature|%s|%s%s' % (shp, kind, kwn),
                        'entity %s: __init__(self, %s) but Part 21 order is (%s)' % (e.name, ', '.join(got), ', '.join(wf))))
        elif d.get('param_kinds') and d['param_kinds'] != ['POSITIONAL_OR_KEYWORD']:
            out.append(('signature|%s|parameters are not plain positional' % shape, '%s: %s' % (k, d['param_kinds'])))
        elif k in built and gn == wf:
            # the constructor was called with one value per inherited-then-own explicit attribute in Part 21 order
            b = built[k]
            if 'error' in b:
                out.append(('construct|%s|constructor call with one value per parameter raises %s' % (shape, b['error'][0]),
                            'entity %s: %s(%s) -> %s: %s' % (e.name, k, ', '.join(got), b['error'][0], b['error'][1])))
            else:
                wrong = [r for r in b['read'] if not r[1]]
                if wrong or len(b['read']) != len(wf):
                    out.append(('construct|%s|attribute does not read back the value given at its Part 21 position' % shape,
                                'entity %s: %s(%s) -> read back %s' % (e.name, k, ', '.join(got), wrong or b['read'])))
    # ---- defined types
    for k, t in sorted(type_names.items()):
        d = defs.get(k)
        note = id_note(t.name)
        if d is None:
            out.append(('typedef|%s%s|no definition' % (t.kind if t.kind != 'simple' else 'defined type', note), 'type %s' % t.name))
            continue
        if dump['order'].count(k) != 1:
            continue    # already reported
        if t.kind == 'enum':
            items = [E(i) for i in t.items]
            if d['kind'] != 'enum':
                out.append(('typedef|enumeration%s|not an enumeration' % note, '%s = %s' % (k, d)))
            elif d['items'] != items:
                if sorted(d['items']) == sorted(items):
                    out.append(('typedef|enumeration|items in another order than declared', '%s: %s, declared %s' % (k, d['items'], items)))
                else:
                    cl = sorted(set(filter(None, (c18_gen.id_class(b.rstrip('_')) for b in set(items) ^ set(d['items'])))))
                    out.append(('typedef|enumeration%s|item names differ%s' % (note, ' (%s item)' % ','.join(cl) if cl else ''),
                                '%s: %s, declared %s' % (k, d['items'], items)))
        elif t.kind == 'select':
            mem = set(E(m) for m in t.members)
            if d['kind'] != 'select':
                out.append(('typedef|select%s|not a select' % note, '%s = %s' % (k, d)))
            elif set(d['members']) != mem or len(d['members']) != len(mem):
                cl = sorted(set(filter(None, (c18_gen.id_class(b.rstrip('_')) for b in mem ^ set(d['members'])))))
                out.append(('typedef|select%s|member names differ%s' % (note, ' (%s member)' % ','.join(cl) if cl else ''),
                            '%s: %s, declared %s' % (k, d['members'], sorted(mem))))
        else:
            b = t.base
            if b.kind == 'aggr':
                if d['kind'] != 'aggr':
                    out.append(('typedef|defined aggregate%s|not an aggregate' % note, '%s = %s, declared %s' % (k, d, b.text())))
                else:
                    bad = aggr_diff(s, b, d)
                    if bad:
                        out.append(('typedef|defined aggregate%s|%s' % (bad[0], bad[1]), '%s: %s, declared %s' % (k, aggr_got(d), b.text())))
                continue
            if b.kind in model.SIMPLE:
                okb = SIMPLE_PY.get(b.kind, (b.kind,))
                shape = 'defined type of %s' % b.kind
            else:
                okb = (E(b.name),)
                u = s.underlying(b)
                shape = 'rename of %s' % ('enumeration' if getattr(u, 'kind', None) == 'enum' else 'select' if getattr(u, 'kind', None) == 'select'
                                         else 'defined type')
                if isinstance(u, model.TypeDef) and u.kind == 'enum' and d['kind'] == 'enum' and d['items'] == [E(i) for i in u.items]:
                    continue
                if isinstance(u, model.TypeDef) and u.kind == 'select' and d['kind'] == 'select' and set(d['members']) == set(E(m) for m in u.members):
                    continue
                if not isinstance(u, model.TypeDef) and u.kind == 'aggr':
                    # TYPE a2 = a1 (a1 a defined aggregate): like a renamed enumeration / select, an equal aggregate descriptor is a
                    # definition with the declared underlying type
                    shape = 'rename of defined aggregate'
                    if d['kind'] == 'aggr':
                        bad = aggr_diff(s, u, d)
                        if bad:
                            out.append(('typedef|%s%s|%s' % (shape, bad[0], bad[1]), '%s: %s, declared %s = %s' % (k, aggr_got(d), b.text(), u.text())))
                        continue
            if b.kind == 'named':
                bd = defs.get(E(b.name))
                if bd and bd['kind'] == 'alias':
                    okb = okb + (bd['target'],)      # t0 = bool; tr = t0  is the same object as  tr = bool
                shape += id_note(b.name).replace(' named', ' that is named')
            if d['kind'] == 'class':
                gb = d['bases']
            elif d['kind'] == 'alias':
                gb = [d['target']]
            else:
                gb = None
            if gb is None or len(gb) != 1 or gb[0] not in okb:
                out.append(('typedef|%s%s|underlying type differs' % (shape, note), '%s = %s, declared %s' % (k, d, b.text())))
    return out


def diff_kind(got, want):
    if sorted(got) == sorted(want):
        return 'parameter order differs'
    if len(set(got)) < len(got) and set(got) == set(want):
        return 'inherited parameter repeated'
    if set(got) < set(want) and len(set(got)) == len(got):
        return 'parameters missing'
    if set(got) > set(want):
        return 'extra parameters'
    return 'names differ'


# ----------------------------------------------------------------------------------------------------- one case
def special_on_line(s, line):
    """Which special identifier of the schema shows on an offending source line, and in which role -> shape text."""
    words = set(re.findall(r'[A-Za-z_][A-Za-z_0-9]*', line or ''))
    hits = []
    for e in s.entities:
        if c18_gen.id_class(e.name) and (e.name in words or e.name + '_' in words):
            hits.append((c18_gen.id_class(e.name), 'entity'))
        for a in e.attrs:
            if c18_gen.id_class(a.name) and (a.name in words or any(w.endswith('__' + a.name) for w in words)):
                hits.append((c18_gen.id_class(a.name), 'attribute'))
    for t in s.types:
        if c18_gen.id_class(t.name) and t.name in words:
            hits.append((c18_gen.id_class(t.name), {'simple': 'defined type', 'enum': 'enumeration type', 'select': 'select type'}[t.kind]))
        for i in t.items:
            if c18_gen.id_class(i) and i in words:
                hits.append((c18_gen.id_class(i), 'enumeration item'))
    if not hits:
        return 'no special identifier on the line'
    names = {'kw_doc': "keyword of the generator's escape list", 'kw_hard': 'other Python keyword', 'soft': 'soft keyword', 'builtin': 'builtin name'}
    return '; '.join(sorted(set('%s as %s' % (names[c], r) for c, r in hits)))


def line_role(line):
    line = (line or '').strip()
    if line.startswith('class '):
        return 'class statement'
    if line.startswith('def __init__'):
        return 'constructor parameter list'
    if re.match(r'def \w+\(self', line):
        return 'property definition'
    if '.__init__(' in line:
        return 'supertype constructor call'
    if 'ENUMERATION(' in line:
        return 'enumeration definition'
    if 'SELECT(' in line:
        return 'select definition'
    if line.startswith('self._') or line.startswith('return self._'):
        return 'attribute storage'
    if line.startswith('@'):
        return 'decorator'
    if 'check_type' in line:
        return 'type check'
    return 'other statement'


def py_env(outdir):
    e = dict(os.environ)
    e['PYTHONPATH'] = os.path.join(build.REPO, 'src', 'exp2python', 'python') + ':' + outdir
    e['PYTHONDONTWRITEBYTECODE'] = '1'       # never write __pycache__ into the repository's runtime package
    e['PYTHONHASHSEED'] = '0'
    return e


def strip_attrs(s):
    t = model.Schema(s.name, list(s.types), [model.Entity(e.name, list(e.supers), e.abstract, e.sexpr) for e in s.entities])
    return t


def run_generator(bdir, sc, s):
    sc.write(s.name + '.exp', s.text())
    return run.run([os.path.join(bdir, 'bin', 'exp2python'), s.name + '.exp'], cwd=sc.d, env=build.env(bdir), timeout=120)


def judge(chk, bdir, s):
    """-> dict(found=[(key, what, files)], inconc=str|None, dump=dict|None, stage=str)"""
    res = dict(found=[], inconc=None, dump=None, stage='generate')
    text = s.text()
    files = {s.name + '.exp': text}
    with p21fam.Scratch('c18') as sc:
        r = run_generator(bdir, sc, s)
        chk.ev()
        if r.timed_out:
            res['inconc'] = 'exp2python watchdog timeout on %s' % s.name
            return res
        if r.crashed():
            # which part of the schema does it? (deterministic reduction: the same schema without attributes)
            with p21fam.Scratch('c18r') as sc2:
                r2 = run_generator(bdir, sc2, strip_attrs(s))
            shape = 'entity attribute' if not r2.crashed() and any(e.attrs or e.derived or e.inverse for e in s.entities) else 'schema without attributes'
            res['found'].append(('crash|%s|generator killed by a signal' % shape, 'exp2python: %s; without the attributes: %s' % (r.symptom(), r2.symptom()),
                                 dict(files, stderr=r.err[-4000:], stdout=r.out[-2000:])))
            return res
        if r.rc != 0:
            rc2 = run.run([os.path.join(bdir, 'bin', 'check-express'), s.name + '.exp'], cwd=sc.d, env=build.env(bdir), timeout=120)
            if rc2.rc != 0:
                res['inconc'] = 'generated schema %s is not accepted by the front end: %s' % (s.name, (rc2.err + rc2.out)[-300:])
            else:
                res['found'].append(('exit|accepted schema|generator exit status %d' % r.rc, (r.err + r.out)[-600:], dict(files, stderr=r.err[-4000:])))
            return res
        produced = sorted(f for f in os.listdir(sc.d) if not f.endswith('.exp'))
        if produced != [s.name + '.py']:
            # exactly ONE module, under the name of the schema: a single schema split over numbered modules (<schema>_1.py, <schema>_2.py:
            # the multi-pass machinery for inter-dependent schemas) is not a module that mirrors the schema
            mods = [f for f in produced if f.endswith('.py')]
            if mods and all(re.match(re.escape(s.name) + r'_\d+\.py$', f) for f in mods):
                sym = 'schema written as numbered part modules instead of <schema>.py'
            elif len(mods) != 1:
                sym = '%s modules written instead of one' % ('no' if not mods else 'several')
            else:
                sym = 'output files are not exactly <schema>.py'
            for f in mods[:3]:
                if f != s.name + '.py':
                    files[f] = (sc.read(f) or '')[:20000]
            res['found'].append(('files|one schema|%s' % sym, 'produced %s' % produced, files))
            if s.name + '.py' not in produced:
                return res
        py = sc.read(s.name + '.py')
        files[s.name + '.py'] = py
        # ---- compile
        res['stage'] = 'compile'
        env = py_env(sc.d)
        rc = run.run([sys.executable, '-m', 'py_compile', s.name + '.py'], cwd=sc.d, env=dict(env, PYTHONDONTWRITEBYTECODE='0'), timeout=120)
        chk.ev()
        if rc.rc != 0:
            m = re.search(r'line (\d+)', rc.err)
            line = py.splitlines()[int(m.group(1)) - 1] if m and int(m.group(1)) <= len(py.splitlines()) else ''
            exc = (re.findall(r'^(\w+Error)', rc.err, re.M) or re.findall(r'\b(\w+Error):', rc.err) or ['error'])[-1]
            res['found'].append(('compile|%s in %s|%s' % (special_on_line(s, line), line_role(line), exc),
                                 'line %s: %s || %s' % (m.group(1) if m else '?', line.strip()[:200], rc.err.strip().splitlines()[-1][:200]), files))
            return res
        # ---- import + dump
        res['stage'] = 'import'
        sc.write('construct.json', json.dumps(construct_spec(s)))
        rd = run.run([sys.executable, DUMPER, s.name, 'construct.json'], cwd=sc.d, env=env, timeout=120)
        chk.ev()
        try:
            dump = json.loads(rd.out.strip().splitlines()[-1]) if rd.out.strip() else None
        except ValueError:
            dump = None
        if dump is None:
            if rd.timed_out:
                res['inconc'] = 'import watchdog timeout on %s' % s.name
            else:
                res['found'].append(('import|dumper|no report from the import subprocess (%s)' % rd.symptom(), rd.err[-800:], dict(files, stderr=rd.err[-4000:])))
            return res
        if 'import_error' in dump:
            exc, msg, where = dump['import_error']
            if exc == 'ModuleNotFoundError':
                shape = 'import of the runtime package'
                sym = 'ModuleNotFoundError (%s)' % re.sub(r"No module named '([^'.]*).*", r'package \1', msg)
            else:
                m = re.search(r'line (\d+)', where)
                line = py.splitlines()[int(m.group(1)) - 1] if m and int(m.group(1)) <= len(py.splitlines()) else ''
                shape = '%s in %s' % (special_on_line(s, line), line_role(line))
                if exc == 'NotImplementedError' and "raise_(NotImplementedError('op_'))" in line and re.match(r'\w+ = (ARRAY|LIST|SET|BAG)\(', line.strip()):
                    shape = 'defined aggregate with a negative bound'
                    sym = 'NotImplementedError'
                elif exc == 'TypeError' and 'MRO' in msg:
                    shape = 'class statement of an entity with several supertypes'
                    cm = re.match(r'class (\w+)\(', line.strip())
                    who = [e.name for e in s.entities if cm and E(e.name) == cm.group(1)]
                    if who:
                        how = linearisations(s)[who[0]][0]
                        # 'declared': Python can take the supertypes exactly as declared, the generator wrote another order
                        shape = LIN_SHAPE.get(how, 'several supertypes in an order Python can take as declared')
                    sym = 'TypeError (no consistent method resolution order)'
                else:
                    sym = exc
            res['found'].append(('import|%s|%s' % (shape, sym), '%s: %s (%s)' % (exc, msg, where), files))
            return res
        res['stage'] = 'compare'
        res['dump'] = dump
        for key, what in compare(s, dump):
            res['found'].append((key, what, files))
    return res


# ----------------------------------------------------------------------------------------------------- driver
def cover(chk, s, res):
    for t in s.tags:
        chk.tag(t)
    chk.tag('stage reached:' + res['stage'])
    # one judged generator run per schema; schemas differ in inheritance shapes / identifier features / data features
    chk.seen('schema', res['stage'], tuple(sorted(t for t in s.tags if t.startswith(('shape:', 'id:', 'data:')))) or s.name)
    mx = getattr(s, 'matrix', None)
    if mx:
        chk.count('matrix_%s_shapes' % mx[0])
    if res['dump'] is None:
        return
    if mx:
        chk.seen('matrix', *mx)       # one fixed shape of vf/c18_matrix.py whose module was imported and compared
        chk.count('matrix_%s_shapes_compared' % mx[0])
    built = res['dump'].get('construct') or {}
    for e in s.entities:
        full, _short = expected_params(s, e.name)
        chk.seen('entity', entity_shape(s, e.name), min(len(full), 6), c18_gen.id_class(e.name))
        b = built.get(E(e.name))
        if b and 'read' in b and all(r[1] for r in b['read']) and len(b['read']) == len(full):
            chk.ev()
            chk.count('instances_constructed_and_read_back')
            chk.seen('instance', entity_shape(s, e.name), min(len(full), 8))
        for a in e.attrs:
            if c18_gen.id_class(a.name):
                chk.seen('attr', c18_gen.id_class(a.name), bool(s.subs(e.name)))
    for t in s.types:
        if t.kind == 'enum':
            chk.seen('enum', min(len(t.items), 8), c18_gen.id_class(t.name))
        elif t.kind == 'select':
            chk.seen('select', len(t.members), c18_gen.id_class(t.name))
        else:
            chk.seen('defined', t.base.shape(s) if t.base.kind != 'aggr' else aggr_shape(t.base), c18_gen.id_class(t.name))


def main(chk):
    quick = chk.tier == 'quick'
    n = 30 if quick else 2500
    bdir = build.core('plain')
    avoid, avoid_shared = c18_probes.masks(chk.open_keys)
    schemas = c18_gen.corpus(chk.seed, n, avoid, avoid_shared)
    cases = [('random', s, None) for s in schemas] + [('probe', p.schema(), p) for p in c18_probes.active(chk.open_keys)]
    cases += [('matrix', s, None) for s in c18_matrix.schemas()]
    cases += [('names', s, None) for s in c18_names.schemas(chk.tier)]

    def work(c):
        return c, judge(chk, bdir, c[1])
    for (origin, s, probe), res in run.pmap(work, cases):
        cover(chk, s, res)
        chk.count('schemas_' + origin)
        if res['inconc']:
            chk.inconc(res['inconc'])
            continue
        for key, what, files in res['found']:
            chk.violation(key, what, files, dict(schema=s.name, origin=origin, probe=probe.name if probe else None))
        if not res['found'] and res['dump'] is not None:
            chk.count('schemas_fully_mirrored')
            if len(chk.samples) < 3:
                d = res['dump']['defs']
                ent = [k for k in d if d[k]['kind'] == 'entity']
                chk.sample(dict(schema=s.name, express_head=s.text()[:600],
                                observed={k: d[k] for k in (ent[-2:] + [k for k in d if d[k]['kind'] != 'entity'][:3])},
                                verdict='exit 0, one module, compiles, imports; classes, bases, constructor parameters and type definitions as declared'))
    if not chk.samples:
        chk.sample(dict(schema=cases[0][1].name, express_head=cases[0][1].text()[:600], verdict='see known findings: no schema reached the comparison stage'))
    return chk.finish(
        rule='schemas from vf/c18_gen.py (seeded: shared data-schema generator + inheritance shapes x Python-keyword/builtin identifiers in every role) '
             'plus the fixed probes of vf/c18_probes.py plus the seed-independent matrix of vf/c18_matrix.py (defined-type chains of length 1..4 over '
             'every simple type / aggregate / select / enumeration x use x declaration order x WHERE rules; entity own-attribute populations '
             'none/explicit/DERIVE/INVERSE and combinations x position in the hierarchy; inheritance lattices: 2, 3, 4 direct supertypes in every '
             'declaration order, unrelated / related pairwise / through chains of 2-3 levels / diamonds, bare and with attributes; one schema per shape) plus the '
             'seed-independent name-assignment matrix of vf/c18_names.py (the generator visits declarations in dictionary = hash order of their names: '
             'rename chains of 2-5 types over simple / aggregate / enumeration / select roots, selects whose member - or the attribute of an entity '
             'member - is a renamed enumeration / select / aggregate / defined type, entities declared subtype first, types declared after the '
             'entities using them; each shape under every permutation of a pool of names over its type positions, for pools differing in first '
             'letter / length / character set); '
             'each case = exp2python, py_compile, import+introspection+construction of one instance per entity in a subprocess; '
             'distinct_nontrivial = distinct (stage reached, inheritance-shape/identifier/data feature set) schemas whose generator run was judged, plus distinct '
             '(entity inheritance shape, number of constructor parameters, identifier class) / (type kind, size or base shape, identifier class) tuples '
             'whose generated definition was compared with the schema (none of the latter while the generator dies on every entity attribute), plus distinct '
             '(entity inheritance shape, number of values) instances constructed and read back',
        assumptions=['the schema model vf/model.py gives the Part 21 attribute order (ancestors depth-first in SUBTYPE OF order, each once)',
                     'python3 of the harness (%d.%d) is the interpreter the module must work with' % sys.version_info[:2],
                     'identifier escaping accepted: <id>_ for Python hard keywords and `property`; inherited<N>__ prefix on inherited parameters',
                     'a constructor may or may not list inherited attributes that the entity redeclares as DERIVEd (both accepted)',
                     'UNIQUE / OPTIONAL flags of aggregate types are not compared (the statement asks for the underlying type)',
                     'a defined type renaming a defined aggregate may be an equal aggregate descriptor (as a renamed enumeration / select may be an '
                     'equal enumeration / select); an aggregate OF a defined aggregate may be exposed as the nested aggregate',
                     'where Python cannot take the declared supertype order at all (a supertype named before its own subtype) the direct bases may be '
                     'the declared supertypes in any order that imports; in every other case the declared order is required',
                     'instances are constructed only of non-abstract entities whose inherited and own explicit attributes all have a simple type '
                     '(INTEGER, REAL, NUMBER, STRING, BOOLEAN) and whose constructor parameters already matched; read back = the attribute named by the '
                     'parameter equals the value passed at that position',
                     'DERIVEd / INVERSE attributes are not judged beyond the module compiling and importing (the statement names the constructor '
                     'parameters = explicit attributes only)',
                     'randomized workload masks features %s (each exercised by a deterministic probe of an open finding)' % sorted(avoid | set('shared:' + x for x in avoid_shared))])
