"""C20 - diagnostics name the construct that is actually wrong.

Workload: classified single-fault mutants of generated valid EXPRESS files (vf/c04_faults.py; each records the offending
lexeme, its line and - for duplicates - the line of the first declaration), restricted to the fault classes whose
diagnostic carries an argument, run through check-express
  (a) with default switches, the input path given in three forms (absolute, relative, bare name);
  (b) with -w <class> / -i <class> for every warning class name the tool advertises in its usage text, plus
      -w all, -i all, -w none, -i none and the combination -w all -i <class>.

  (c) a deterministic lexical matrix (vf/c20_lex.py): encoded string literals "...." of every length class x every index
      class of a non-hex digit (none, first, inner, 7, 8, 9, 15, 16, last), two bad digits, two literals per file / line,
      illegal characters and _identifiers at fixed places; each with default switches, -w all and -w limits (the fault
      sits between two constructs that draw a `limits` warning);
  (d) every single-fault mutant again with warning-only declarations (all named warning classes) placed before / after /
      on both sides of it, run with default switches, -w all and -w <class>;
  (e) two single-fault mutants of two schemas in one file (both scanner faults, or both resolver faults);
  (f) inputs made of SEVERAL files (vf/c20_multi.py): a main schema that USEs / REFERENCEs two or three schemas which live
      in their own files <schema>.exp, found through the working directory / one or two EXPRESS_PATH directories in every
      spelling (absolute, relative, trailing slash, `.`), in fixed layouts; the single fault is placed in each file in
      turn (main, first / middle / last library) for every fault class of the lexical, syntax and resolution phase, plus
      "library file declares the main schema again" (PE002, quotes a second file), "library file declares another schema
      than its name" (PE020, quotes the file), warning-only declarations in each file under -w all, and two faults in
      two different files;
  (g) a deterministic matrix of duplicate names of every kind (vf/c20_dups.py): two declarations of each pair of kinds in
      one schema, formal parameters / locals, attributes (explicit / derived / inverse, SELF\\super.attr redeclared
      twice), enumeration items, WHERE / UNIQUE labels, USE / REFERENCE ... AS clashes (exporting schemas in the same
      file and in their own files).

Oracle:
  lexical       every PE030..PE033 diagnostic of every run is compared with the input itself: the quoted non-hex digit /
                digit count / identifier / character belongs to a literal (identifier, character) on the reported line, a
                literal of wrong length gets exactly one count diagnostic quoting its length, a literal of right length none;
  two faults    both injected faults are reported with their own lexeme on their own line;
  attribution   every ERROR/WARNING line is prefixed by the input path exactly as given and a line number inside the file;
  argument      the message text fits the format of its code (message table of src/express/error.c, transcribed below as
                the specification) and every quoted identifier is a non-empty identifier of the input; the diagnostic that
                belongs to the fault class quotes exactly the injected lexeme (and entity / schema / counts / previous line
                recorded by the injector);
  line          that diagnostic carries the line of the offending lexeme (1-based).  A shift common to (nearly) all
                diagnostics is reported once, as one finding, and the remaining checks are made relative to it;
  several files every diagnostic names a file of the input (the printed name is resolved against the working directory, any
                spelling of the path is accepted for library files); the diagnostic of the fault names the file that holds
                the fault and a line of THAT file; a name quoted by an undefined / duplicate / unknown-x diagnostic is written
                in the file the diagnostic names; a file named inside the message (previous declaration "in file", "own
                schema file") is the right one; no redeclaration diagnostic for a name that is declared once;
  duplicates    the identifier quoted by PE001 / PE002 is the name that is declared twice (never `(null)`, never the
                original name behind an AS), on the line of the second declaration, previous line = first declaration
                (interface clashes: either order); shapes stepcode accepts silently are counted, not judged;
  switches      with any -w/-i combination the exit status and the multiset of ERROR lines equal those of the default run,
                and the WARNING lines differ from it exactly by the toggled class.
Keys: `<fault class> PE<code> x check-express|<symptom>`; switch matrix: `warning switch ... x check-express|<symptom>`.
"""
LEVEL = 'fault_enumeration'
import re
import zlib

from .. import c04_faults as F
from .. import c04_run as R
from .. import c20_dups as D
from .. import c20_lex as L
from .. import c20_multi as MU
from .. import run

TOOL = 'check-express'
ID = r'[A-Za-z_][A-Za-z0-9_]*'

# ---- message formats by code (specification: LibErrors[] of src/express/error.c).  Named groups ending in _id are
# ---- identifiers that must come from the input.
FORMATS = {
    1: r'Redeclaration of (?P<name_id>.*)\.  Previous declaration was on line (?P<prev>-?\d+)\.',
    2: r'Redeclaration of (?P<name_id>.*)\.  Previous declaration was on line (?P<prev>-?\d+) in file (?P<pfile>.*)\.',
    8: r'Attribute (?P<name_id>.*) cannot be referenced from a non-entity',
    20: r'Schema (?P<name_id>.*) was not found in its own schema file \((?P<pfile>.*)\)',
    17: r'Syntax error in (?P<kind>[a-z_ ]+?) (?P<scope_id>\S*)',
    18: r'USE/REF of non-existent object \((?P<name_id>.*) in schema (?P<schema_id>.*)\)',
    29: r'unterminated string literal',
    30: r'non-hex digit \((?P<ch>[\s\S]*)\) in encoded string literal',
    31: r'number of digits \((?P<count>.*)\) in encoded string literal is not divisible by 8',
    32: r'identifier \((?P<name>[\s\S]*)\) cannot start with underscore',
    33: r'character \((?P<ch>[\s\S]*)\) is not a valid lexical element by itself',
    34: r'character \((?P<hex>.*)\) is not in the EXPRESS character set',
    36: r'Reference to undefined object (?P<name_id>.*)\.',
    37: r'Reference to undefined attribute (?P<name_id>.*)\.',
    38: r'Reference to undefined type (?P<name_id>.*)\.',
    39: r'Reference to undefined schema (?P<name_id>.*)\.',
    40: r'Unknown attribute (?P<name_id>.*) in entity (?P<entity_id>.*)\.',
    41: r'Unknown subtype (?P<name_id>.*) for entity (?P<entity_id>.*)\.',
    42: r'Unknown supertype (?P<name_id>.*) for entity (?P<entity_id>.*)\.',
    44: r'Entity (?P<name_id>.*) is a subtype of itself',
    45: r'  \(via supertype entity (?P<name_id>.*)\)',
    46: r'Select type (?P<name_id>.*) selects itself',
    47: r'  \(via select type (?P<name_id>.*)\)',
    52: r'Function (?P<name_id>.*) undefined\.',
    54: r'No such procedure as (?P<name_id>.*)\.',
    55: r'Call to (?P<name_id>.*) uses (?P<uses>-?\d+) arguments, but expected (?P<expected>-?\d+)\.',
    58: r'Attribute (?P<name_id>.*) is referenced from non-entity-inheriting type\.',
    59: r'Unknown attribute (?P<name_id>.*) in entity (?P<entity_id>.*) in inverse\.',
    60: r'Entity (?P<super_id>.*) missing from supertype list for subtype (?P<sub_id>.*)\.',
    64: r'Attribute (?P<name_id>.*) already inherited via supertype (?P<entity_id>.*)\.',
    65: r'Redeclared attribute (?P<name_id>.*) not declared in supertype (?P<entity_id>.*)\.',
    66: r'No such supertype (?P<name_id>.*) for redeclaration of attribute (?P<attr_id>.*)\.',
    67: r'Domain rule (?P<name_id>.*) must refer to SELF or attribute\.',
    14: r'Implicit downcast to (?P<name_id>.*)\.',
    24: r'Unsupported language feature \((?P<what>.*)\) at (?P<src>.*):(?P<srcline>\d+)',
    25: r'REALs with extremely small magnitude .* fabs\((?P<value>.*)\) <= FLT_MIN\.',
}
FORMATS = {k: re.compile('^' + v + '$') for k, v in FORMATS.items()}

# ---- warning classes of the message table: name -> PW codes (a name the tool advertises but that is an ERROR entry of the
# ---- table has no warnings to toggle: the oracle then demands that nothing changes at all)
CLASS_CODES = {'indexing': {10}, 'downcast': {14, 15}, 'unsupported': {24}, 'limits': {25}, 'invariant_condition': {68},
               'invalid_case': {69}, 'unnecessary_qualifiers': {70}}

# ---- per fault class: code of the diagnostic that belongs to it and how its arguments relate to the injected fault
def _eq(field, what):
    return (field, what)


PRIMARY = {
    'undef_type': (38, [_eq('name_id', 'lexeme')]),
    'undef_supertype': (42, [_eq('name_id', 'lexeme'), _eq('entity_id', 'ctx:entity')]),
    'undef_subtype': (41, [_eq('name_id', 'lexeme'), _eq('entity_id', 'ctx:entity')]),
    'undef_schema_use': (39, [_eq('name_id', 'lexeme')]),
    'undef_schema_ref': (39, [_eq('name_id', 'lexeme')]),
    'undef_item_use': (18, [_eq('name_id', 'lexeme'), _eq('schema_id', 'ctx:schema')]),
    'undef_item_ref': (18, [_eq('name_id', 'lexeme'), _eq('schema_id', 'ctx:schema')]),
    'undef_function': (52, [_eq('name_id', 'lexeme')]),
    'undef_procedure': (54, [_eq('name_id', 'lexeme')]),
    'undef_attr_ref': (40, [_eq('name_id', 'lexeme'), _eq('entity_id', 'ctx:entity')]),
    'dup_entity': (1, [_eq('name_id', 'lexeme'), _eq('prev', 'first_line')]),
    'dup_type': (1, [_eq('name_id', 'lexeme'), _eq('prev', 'first_line')]),
    'dup_type_entity': (1, [_eq('name_id', 'lexeme'), _eq('prev', 'first_line')]),
    'dup_attribute': (1, [_eq('name_id', 'lexeme'), _eq('prev', 'first_line')]),
    'dup_function': (1, [_eq('name_id', 'lexeme'), _eq('prev', 'first_line')]),
    'dup_constant': (1, [_eq('name_id', 'lexeme'), _eq('prev', 'first_line')]),
    'subtype_cycle': (44, [_eq('name_id', 'in:cycle')]),
    'select_cycle': (46, [_eq('name_id', 'in:cycle')]),
    'missing_supertype': (60, [_eq('super_id', 'ctx:supertype'), _eq('sub_id', 'ctx:subtype')]),
    'inherited_attr': (64, [_eq('name_id', 'lexeme'), _eq('entity_id', 'in:supertypes')]),
    'inverse_missing_attr': (59, [_eq('name_id', 'lexeme'), _eq('entity_id', 'ctx:entity')]),
    'inverse_non_entity': (58, [_eq('name_id', 'ctx:attr')]),
    'drop_semicolon': (17, []),
    'drop_end_entity': (17, []),
    'stray_keyword': (17, []),
    'illegal_char': (33, [_eq('ch', 'lexeme')]),
    'non_ascii': (34, [_eq('hex', 'hexbyte')]),
    'underscore_ident': (32, [_eq('name', 'lexeme')]),
    'bad_hex_digit': (30, [_eq('ch', 'lexeme')]),
    'bad_hex_count': (31, [_eq('count', 'lexeme')]),
    'unterminated_string': (29, []),
    'wrong_arg_count': (55, [_eq('name_id', 'lexeme'), _eq('uses', 'ctx:uses'), _eq('expected', 'ctx:expected')]),
}
PRIMARY['dup_schema_other_file'] = (2, [_eq('name_id', 'lexeme'), _eq('prev', 'first_line')])
PRIMARY['schema_not_in_own_file'] = (20, [_eq('name_id', 'lexeme')])
NEEDS_WARNINGS_ON = ('wrong_arg_count',)
# codes whose first quoted identifier is written at the reported place itself (so it occurs in the file the diagnostic names)
NAME_AT_SITE = (1, 2, 18, 36, 37, 38, 39, 40, 41, 42, 52, 54, 55, 59, 64, 65)
ARG_CLASSES = [c for c in F.CLASS_IDS if c in PRIMARY]


def idents(data):
    if isinstance(data, bytes):
        data = data.decode('latin-1')
    return set(x.lower() for x in re.findall(ID, data))


def text_class(got, ids):
    """Class of a wrongly quoted text (used in keys, so coarse and independent of the seed)."""
    if got == '':
        return 'empty'
    if re.match('^' + ID + '$', got) and len(got) > 1 and got.lower() in ids:
        return 'another name from the input'
    return 'text not from the input'


def allowed_lines(m, cid):
    if m.lines_ok:
        return set(m.lines_ok)
    if cid == 'undef_subtype':
        return {m.line, m.decl_line}      # reported at the entity whose SUPERTYPE OF names it
    return {m.line}


def expected_value(m, what):
    if what == 'lexeme':
        return [str(m.lexeme)]
    if what == 'hexbyte':
        return ['0x%x' % m.lexeme]
    if what == 'first_line':
        return [m.first_line]
    if what.startswith('ctx:'):
        return [str(m.ctx[what[4:]])]
    if what.startswith('in:'):
        return sorted(str(x) for x in m.ctx[what[3:]])
    raise KeyError(what)


class Judge(object):
    """Collects (key, what) for one run of one mutant; line findings are deferred until the common shift is known."""

    def __init__(self, m, tr, data):
        self.m, self.tr = m, tr
        self.cid = m.cid
        self.ids = idents(data)
        self.nlines = (data.decode('latin-1') if isinstance(data, bytes) else data).count('\n') + 1
        self.out = []
        self.line_obs = []      # (code, reported line, allowed set, is single-line class)
        self.prev_obs = []      # (reported previous line, first_line)
        self.primary_seen = False

    def key(self, code, symptom):
        return '%s PE%03d x %s|%s' % (self.m.cls, code, TOOL, symptom) if code is not None else '%s x %s|%s' % (self.m.cls, TOOL, symptom)

    def add(self, code, symptom, what):
        self.out.append((self.key(code, symptom), what))

    def judge(self):
        tr, m = self.tr, self.m
        for raw in tr.odd:
            self.add(None, 'diagnostic line not in the file:line: form', raw[:200])
        pcode, pargs = PRIMARY[self.cid]
        for d in tr.diags:
            self.check_file(d)
            fm = FORMATS.get(d.code)
            if fm is None:
                continue
            mm = fm.match(d.msg)
            if not mm:
                self.add(d.code, 'message text does not fit the format of its code', d.raw[:200])
                continue
            g = mm.groupdict()
            self.check_args_in_file(d, g)
            for k, v in g.items():
                if d.code == 17 and g['kind'].endswith('file') and self.names_input_file(v):
                    continue      # a syntax error outside every schema is reported "in express file <path as given>"
                if k.endswith('_id') and not (re.match('^' + ID + '$', v) and v.lower() in self.ids):
                    if not (d.code == pcode and k in dict(pargs)):      # reported below with the expected value
                        self.add(d.code, 'argument text wrong: got %s' % text_class(v, self.ids), '%s=%r in %r' % (k, v, d.raw[:200]))
            if d.code == pcode and d.sev == ('WARNING' if self.cid in NEEDS_WARNINGS_ON else 'ERROR'):
                # the injected fault is the only offending construct of its kind, so every diagnostic of this code must
                # quote it (entity / schema named next to it may differ between cascaded messages)
                if pargs and pargs[0][1] != 'first_line' and g.get(pargs[0][0]) not in expected_value(m, pargs[0][1]):
                    self.first_arg_bad = True
                    self.add(d.code, 'argument text wrong: got %s' % text_class(g.get(pargs[0][0]) or '', self.ids),
                             '%s=%r, injected %r; line: %r' % (pargs[0][0], g.get(pargs[0][0]), expected_value(m, pargs[0][1]), d.raw[:200]))
                    self.line_obs.append((d.code, d.line, allowed_lines(m, self.cid), len(allowed_lines(m, self.cid)) == 1))
                    continue
                if self.primary_ok_target(g, pargs):
                    self.primary_seen = True
                    self.check_primary_file(d, g)
                    self.line_obs.append((d.code, d.line, allowed_lines(m, self.cid), len(allowed_lines(m, self.cid)) == 1))
                    if 'prev' in g:
                        self.prev_obs.append((int(g['prev']), m.first_line))
        if not self.primary_seen:
            self.primary_missing(pcode, pargs)
        return self

    # ---- attribution (single-file input: every diagnostic carries the input path as given; MultiJudge overrides)
    def check_file(self, d):
        tr = self.tr
        if d.file is None:
            self.add(d.code, 'diagnostic not attributed to any file', d.raw[:200])
        elif d.file != tr.given:
            self.add(d.code, 'diagnostic attributed to %s' % ('another spelling of the input path' if d.file.split('/')[-1] == tr.given.split('/')[-1]
                                                              else 'another file'), 'given %r, printed %r' % (tr.given, d.file))

    def check_args_in_file(self, d, g):
        pass

    def check_primary_file(self, d, g):
        pass

    def names_input_file(self, v):
        return v == self.tr.given

    def nlines_for(self, d):
        return self.nlines

    def primary_ok_target(self, g, pargs):
        """True when this diagnostic of the primary code is the one about the injected fault (all arguments as recorded).
        For a class with one possible target any diagnostic of the code is the one, and wrong arguments are reported."""
        bad = []
        for field, what in pargs:
            if what == 'first_line':
                continue
            exp = expected_value(self.m, what)
            if g.get(field) not in exp:
                bad.append((field, g.get(field), exp))
        if not bad:
            return True
        self._bad = getattr(self, '_bad', []) + [bad]
        return False

    def primary_missing(self, pcode, pargs):
        tr = self.tr
        cands = [d for d in tr.diags if d.code == pcode]
        if not cands:
            got = sorted(set('P%s%03d' % ('E' if d.sev == 'ERROR' else 'W', d.code) for d in tr.diags))
            self.add(pcode, 'diagnostic not produced', 'expected PE%03d quoting %r; got %s, exit %s' % (pcode, self.m.lexeme, got or 'no diagnostic', tr.r.rc))
            return
        if getattr(self, 'first_arg_bad', False):
            return      # already reported
        # the code was printed with the lexeme but never with the recorded entity / schema / counts
        for bad in getattr(self, '_bad', []):
            field, got, exp = bad[0]
            self.add(pcode, 'argument text wrong: got %s' % text_class(got or '', self.ids),
                     '%s=%r, injected %r; line: %r' % (field, got, exp, cands[0].raw[:200]))
            # the line of such a diagnostic is still judged
            for d in cands[:1]:
                self.line_obs.append((d.code, d.line, allowed_lines(self.m, self.cid), len(allowed_lines(self.m, self.cid)) == 1))
            return
        self.add(pcode, 'message text does not fit the format of its code', cands[0].raw[:200])


class MultiJudge(Judge):
    """Judge for an input made of several files (vf/c20_multi.py): the fault lies in ONE of them; every diagnostic must
    name a file of the input, the diagnostic of the fault must name the faulty file (whatever spelling of its path is
    printed: the printed name is resolved against the working directory), line numbers are lines of that file."""

    def __init__(self, mf, mr):
        texts = dict((MU.lname(mf.base, j), t) for j, t in enumerate(mf.texts))
        Judge.__init__(self, mf, mr.tr, '\n'.join(texts[k] for k in sorted(texts)))
        self.mr = mr
        self.file_ids = dict((k, idents(t)) for k, t in texts.items())
        self.file_nlines = dict((k, t.count('\n') + 1) for k, t in texts.items())
        self.flagged = set()

    def check_file(self, d):
        mr = self.mr
        if d.file is None:
            if d.code != 20:      # "Schema x was not found in its own schema file (<file>)" names its file in the text
                self.add(d.code, 'diagnostic not attributed to any file', d.raw[:200])
            return
        if d.code in (1, 2) and not self.m.cid.startswith('dup_'):
            # every name of the input is declared once (only the dup_* classes declare one twice)
            self.add(d.code, 'redeclaration reported for a name that is declared once', '%r; the only fault is %s %r in %s'
                     % (mr.strip(d.raw[:200]), self.m.cid, self.m.lexeme, self.m.fault_file))
        ln = mr.logical(d)
        if ln is None:
            self.flagged.add(id(d))
            self.add(d.code, 'diagnostic attributed to a file that is not part of the input', '%r; files of the input: %s; EXPRESS_PATH=%r'
                     % (mr.strip(d.raw[:200]), sorted(self.file_ids), mr.express_path))
        elif ln not in self.file_ids:
            self.flagged.add(id(d))
            self.add(d.code, 'diagnostic attributed to another file', '%r names the %s, which the tool had no reason to read' % (mr.strip(d.raw[:200]), ln))
        elif ln == 'main.exp' and d.file != self.tr.given and self.m.layout[3] != 'path':
            self.add(d.code, 'diagnostic attributed to another spelling of the input path', 'given %r, printed %r' % (mr.strip(self.tr.given), mr.strip(d.file)))

    def check_args_in_file(self, d, g):
        ln = self.mr.logical(d)
        v = g.get('name_id')
        if d.code in NAME_AT_SITE and ln in self.file_ids and v is not None and id(d) not in self.flagged:
            if re.match('^' + ID + '$', v) and v.lower() in self.ids and v.lower() not in self.file_ids[ln]:
                self.flagged.add(id(d))
                homes = sorted(k for k, ids in self.file_ids.items() if v.lower() in ids)
                self.add(d.code, 'diagnostic attributed to another file', '%r: %r is not written anywhere in %s, only in %s' % (self.mr.strip(d.raw[:200]), v, ln, homes))

    def check_primary_file(self, d, g):
        ln = self.mr.logical(d)
        if d.file is not None and ln is not None and ln != self.m.fault_file and id(d) not in self.flagged:
            self.flagged.add(id(d))
            self.add(d.code, 'diagnostic attributed to another file', '%r: the fault (%r, line %s) is in %s; EXPRESS_PATH=%r'
                     % (self.mr.strip(d.raw[:200]), self.m.lexeme, self.m.line, self.m.fault_file, self.mr.express_path))
        if 'pfile' in g and 'own_file' in self.m.ctx:
            pl = self.mr.logical_path(g['pfile'])
            if pl != self.m.ctx['own_file']:
                self.add(d.code, 'file named in the message wrong', '%r: the file that was read for schema %r is %s; EXPRESS_PATH=%r'
                         % (self.mr.strip(d.raw[:200]), self.m.lexeme, self.m.ctx['own_file'], self.mr.express_path))
        if 'pfile' in g and 'first_file' in self.m.ctx:
            pl = self.mr.logical_path(g['pfile'])
            if pl != self.m.ctx['first_file']:
                self.add(d.code, 'file of the previous declaration wrong', '%r: the first declaration is in %s' % (self.mr.strip(d.raw[:200]), self.m.ctx['first_file']))

    def names_input_file(self, v):
        return self.mr.logical_path(v) in self.file_ids

    def nlines_for(self, d):
        return self.file_nlines.get(self.mr.logical(d), max(self.file_nlines.values()))


def how_for(m, salt=''):
    return ('abs', 'rel', 'cwd')[zlib.crc32(('%s/%s/%s' % (m.base.name, m.cid, salt)).encode()) % 3]


def warn_key(d):
    return (d.code, d.line, d.msg)


def judge_switch(m, base, tr, cfg, w_all):
    """Compare one run under switches `cfg` (tuple of ('-w'|'-i', name)) with the default run `base`.  -> [(key, what)]"""
    out = []
    desc = ' '.join('%s <%s>' % (f, n if n in ('all', 'none') else 'class') for f, n in cfg)
    names = ' '.join('%s %s' % (f, n) for f, n in cfg)
    if tr.r.timed_out:
        return out
    if tr.r.sig:
        return [('warning switch x %s|signal %d' % (TOOL, tr.r.sig), 'check-express %s died (stderr: %s)' % (names, tr.r.err[-200:].strip()))]
    unknown = [n for f, n in cfg if n not in CLASS_CODES and n not in ('all', 'none')]
    tag = 'warning switch %s%s x %s' % (desc, ' (name of an ERROR entry)' if unknown else '', TOOL)
    if tr.r.rc != base.r.rc:
        out.append(('%s|exit status changed' % tag, '%s: exit %s, default exit %s; stderr head: %s' % (names, tr.r.rc, base.r.rc, tr.r.err[:160])))
    # arguments of the lexical diagnostics that are already garbage in the default run (reported there under its own key)
    # differ from process to process; they are not compared
    lex = '(%s)' % (('0x%x' % m.lexeme) if m.cid == 'non_ascii' else m.lexeme)
    unstable = set(d.code for d in base.errors if d.code in (30, 31, 32, 33, 34) and lex not in d.msg)

    def err_key(d, t):
        return (d.code, d.line, '<argument already wrong in the default run>' if d.code in unstable else d.msg.replace(t.given, '<input>'))
    if sorted(err_key(d, tr) for d in tr.errors) != sorted(err_key(d, base) for d in base.errors) or len(tr.odd) != len(base.odd):
        out.append(('%s|ERROR lines changed' % tag, '%s: %s vs default %s' % (names, [d.raw for d in tr.errors][:3], [d.raw for d in base.errors][:3])))
    if tr.r.rc != base.r.rc:
        return out
    # expected WARNING multiset: start from the default run, apply the switches in order
    have = sorted(warn_key(d) for d in tr.warnings)
    if w_all is None:
        return out
    allw = sorted(warn_key(d) for d in w_all.warnings)
    exp = sorted(warn_key(d) for d in base.warnings)
    for f, n in cfg:
        on = (f == '-w')
        if n in ('all', 'none'):
            every = on if n == 'all' else not on
            exp = list(allw) if every else []
        else:
            codes = CLASS_CODES.get(n, set())
            exp = [w for w in exp if w[0] not in codes]
            if on:
                exp += [w for w in allw if w[0] in codes]
    if have != sorted(exp):
        extra = [w for w in have if w not in exp]
        missing = [w for w in exp if w not in have]
        toggled = set()
        for f, n in cfg:
            toggled |= CLASS_CODES.get(n, set())
        other = [w for w in extra + missing if w[0] not in toggled]
        sym = 'warnings of another class changed' if other else 'warnings of the toggled class not switched'
        out.append(('%s|%s' % (tag, sym), '%s: unexpected %s, missing %s' % (names, extra[:3], missing[:3])))
    return out


def verdict_text(tr):
    both = tr.r.out + '\n' + tr.r.err
    return tuple(t for t in ('No errors in input', 'Errors in input') if t in both)


def err_id(tr, d):
    """A diagnostic without the spelling of the (per run) scratch path."""
    return (d.code, d.line, d.msg.replace(tr.given, '<input>'), (d.file or '').replace(tr.given, '<input>'))


def same_verdict(what, base, tr, names):
    """Exit status, printed verdict and ERROR lines of `tr` (run with switches `names`) against the default run. -> [(key, what)]"""
    out = []
    if tr.r.timed_out or base.r.timed_out:
        return out
    tag = 'warning switch %s, %s x %s' % (names if names in ('-w all', '-i all', '-w none', '-i none') else names.split()[0] + ' <class>', what, TOOL)
    if tr.r.sig:
        return [('%s|signal %d' % (tag, tr.r.sig), 'check-express %s died (stderr: %s)' % (names, tr.r.err[-200:].strip()))]
    if tr.r.rc != base.r.rc:
        out.append(('%s|exit status changed' % tag, '%s: exit %s, default exit %s; ERROR lines %r' % (names, tr.r.rc, base.r.rc, [d.raw for d in tr.errors][:3])))
    if verdict_text(tr) != verdict_text(base):
        out.append(('%s|printed verdict changed' % tag, '%s: says %r, default run says %r; ERROR lines %r' % (names, verdict_text(tr), verdict_text(base), [d.raw for d in tr.errors][:3])))
    if sorted(err_id(tr, d) for d in tr.errors) != sorted(err_id(base, d) for d in base.errors) or len(tr.odd) != len(base.odd):
        out.append(('%s|ERROR lines changed' % tag, '%s: %s vs default %s' % (names, [d.raw for d in tr.errors][:4], [d.raw for d in base.errors][:4])))
    return out


def settle_lines(j, shift):
    """Line findings of one Judge once the common shift is known (appends to j.out)."""
    for code, line, allowed, single in j.line_obs:
        if line is None and code == 20:
            continue          # "Schema x was not found in its own schema file (<file>)" is about a whole file
        if line is None or (line - shift) not in allowed:
            j.add(code, 'line number wrong', 'reported %s, lexeme on line %s (allowed %s, common shift %+d)' % (line, j.m.line, sorted(allowed), shift))
    for prev, first in j.prev_obs:
        if prev - shift != first:
            j.add(1, 'previous-declaration line wrong', 'says line %d, first declaration on line %d (common shift %+d)' % (prev, first, shift))
    for d in j.tr.diags:
        if d.line is not None and not (1 <= d.line - shift <= j.nlines_for(d)):
            j.add(d.code, 'line number outside the file', d.raw[:160])


def main(chk):
    quick = chk.tier == 'quick'
    n_files, n_multi = (30, 8) if quick else (340, 85)      # thorough: 400 -> 340 when parts (f), (g) were added (25 min budget)
    R.tools_dir()
    names, ur = R.usage_warning_names()
    classes = [n for n in names if n not in ('all', 'none')]
    chk.extra['advertised_warning_names'] = names
    if not classes:
        chk.inconc('could not read the warning class names from the usage text: %r' % ur.err[:200])
    files = F.valid_corpus(chk.seed, n_files, n_multi)
    muts = F.plan(files, chk.seed, len(ARG_CLASSES), only=ARG_CLASSES)

    # ---------------- (a) default switches: attribution, arguments, lines
    def work(m):
        args = ('-w', 'all') if m.cid in NEEDS_WARNINGS_ON else ()
        return m, R.run_tool(TOOL, m.text, args=args, how=how_for(m))
    judges = []
    for m, tr in run.pmap(work, muts):
        chk.ev()
        chk.tag('fault:' + m.cls)
        chk.tag('path form:' + how_for(m))
        if tr.r.timed_out:
            chk.inconc('watchdog fired on %s of %s' % (m.cid, m.base.name))
            continue
        if tr.r.sig and m.cid in NEEDS_WARNINGS_ON:
            for key, what in judge_switch(m, tr, tr, (('-w', 'all'),), None):
                chk.violation(key, what, {'input.exp': m.text}, dict(mutant=m.describe(), args='-w all'))
            chk.count('argument not observable (needs -w all)')
            continue
        if tr.r.sig:
            chk.count('runs ended by signal (judged by C04/C06)')
        j = Judge(m, tr, m.text).judge()
        judges.append(j)
        for d in tr.diags:
            chk.seen(m.cid, m.variant, d.code)
        if len(chk.samples) < 2 and m.cid in ('undef_attr_ref', 'dup_attribute', 'illegal_char', 'undef_item_use') and not any(s.get('cid') == m.cid for s in chk.samples):
            chk.sample(dict(cid=m.cid, mutant=m.describe(), given_path=tr.given, stderr=tr.r.err[:600], findings=[k for k, _w in j.out]))
    # common line shift: the most frequent (reported - recorded) over single-line classes
    deltas = {}
    for j in judges:
        for code, line, allowed, single in j.line_obs:
            if single and line is not None:
                d = line - next(iter(allowed))
                deltas[d] = deltas.get(d, 0) + 1
        for prev, first in j.prev_obs:
            deltas[prev - first] = deltas.get(prev - first, 0) + 1
    total = sum(deltas.values())
    shift = 0
    if total >= 20:
        best = max(deltas, key=lambda k: deltas[k])
        if best != 0 and deltas[best] >= 0.9 * total:
            shift = best
            first = [j for j in judges if j.line_obs][0]
            chk.violation('every diagnostic x %s|line number is the line of the offending lexeme %+d' % (TOOL, shift),
                          '%d of %d judged line numbers (incl. "previous declaration was on line") are shifted by %+d; e.g. %s for a fault on line %d'
                          % (deltas[best], total, shift, first.tr.diags[0].raw[:160], first.m.line),
                          {'input.exp': first.m.text}, dict(mutant=first.m.describe(), deltas=deltas))
    chk.extra['line_deltas'] = {str(k): v for k, v in sorted(deltas.items())}
    plain_run = {}
    for j in judges:
        settle_lines(j, shift)
        j.out += L.lex_findings(j.m.text, j.tr.diags, shift, TOOL)
        plain_run[id(j.m)] = j.tr
        for key, what in j.out:
            chk.violation(key, what, {'input.exp': j.m.text}, dict(mutant=j.m.describe(), given_path=j.tr.given, stderr=j.tr.r.err[:1500]))

    # ---------------- (b) switch matrix
    def configs_for(i, full):
        cfgs = [(('-w', 'all'),), (('-i', 'all'),), (('-w', 'none'),), (('-i', 'none'),)]
        per = [((f, c),) for c in classes for f in ('-w', '-i')] + [(('-w', 'all'), ('-i', c)) for c in classes]
        if full:
            return cfgs + per
        k = 6
        return cfgs[:3] + [per[(i * k + t) % len(per)] for t in range(k)] if per else cfgs

    sw_inputs = []       # (mutant, full?)
    for i, f in enumerate(files):
        inj = F.Injector(f, __import__('random').Random('c20w/%d/%d' % (chk.seed, i)), fresh_no=1)
        wb = inj.warn_block()
        wb.cid, wb.base = 'warn_block', f
        sw_inputs.append((wb, i < (6 if quick else 40)))
    step = 3 if quick else 2
    sw_inputs += [(m, False) for m in muts[::step] if m.cid not in NEEDS_WARNINGS_ON]
    jobs = []
    for i, (m, full) in enumerate(sw_inputs):
        jobs.append((m, ()))
        jobs.append((m, (('-w', 'all'),)))
        for cfg in configs_for(i, full):
            if cfg != (('-w', 'all'),):
                jobs.append((m, cfg))

    def swork(job):
        m, cfg = job
        return job, R.run_tool(TOOL, m.text, args=[x for fn in cfg for x in fn], how='abs')
    res, by_input = {}, {}
    for (m, cfg), tr in run.pmap(swork, jobs):
        res[(id(m), cfg)] = tr
        by_input.setdefault(id(m), {})[cfg] = tr
        chk.ev()
    n_sw = n_sig = 0
    warn_seen = set()
    for (m, full) in sw_inputs:
        base = res[(id(m), ())]
        w_all = res[(id(m), (('-w', 'all'),))]
        if base.r.timed_out or base.r.sig:
            continue
        if w_all.r.sig or w_all.r.timed_out or w_all.r.rc != base.r.rc:
            ref = None
        else:
            ref = w_all
            for d in w_all.warnings:
                warn_seen.add(d.code)
        for cfg, tr in by_input[id(m)].items():
            if cfg == ():
                continue
            n_sw += 1
            n_sig += 1 if tr.r.sig else 0
            chk.seen('switch', ' '.join('%s %s' % fn for fn in cfg), m.cid == 'warn_block')
            chk.tag('switch:' + ' '.join('%s %s' % fn for fn in cfg))
            for key, what in judge_switch(m, base, tr, cfg, ref):
                chk.violation(key, what, {'input.exp': m.text}, dict(mutant=m.describe(), switches=cfg, stderr=tr.r.err[:800], default_stderr=base.r.err[:800]))
        # the warning block must really exercise several classes once warnings can be switched on
        if m.cid == 'warn_block' and ref is not None:
            got = set(d.code for d in ref.warnings)
            chk.count('warn-block inputs with warnings of >= 3 classes', 1 if len(got) >= 3 else 0)
            for d in ref.warnings:     # and their arguments are judged like any other
                fm = FORMATS.get(d.code)
                mm = fm.match(d.msg) if fm else None
                exp = {14: ('name_id', m.ctx['downcast_to']), 55: ('name_id', m.ctx['callee'])}.get(d.code)
                if fm and not mm:
                    chk.violation('warning PW%03d x %s|message text does not fit the format of its code' % (d.code, TOOL), d.raw[:200], {'input.exp': m.text})
                elif exp and mm.group(exp[0]) != exp[1]:
                    chk.violation('warning PW%03d x %s|argument text wrong: got %s' % (d.code, TOOL, text_class(mm.group(exp[0]), idents(m.text))),
                                  '%r, expected %r' % (d.raw[:200], exp[1]), {'input.exp': m.text})
                elif d.code == 55 and (int(mm.group('uses')), int(mm.group('expected'))) != (m.ctx['uses'], m.ctx['expected']):
                    chk.violation('warning PW055 x %s|argument text wrong: got other counts' % TOOL, d.raw[:200], {'input.exp': m.text})
                if d.file != ref.given:
                    chk.violation('warning PW%03d x %s|diagnostic attributed to another file' % (d.code, TOOL), d.raw[:200], {'input.exp': m.text})
                if d.line is not None and d.code in m.ctx['lines'] and d.line - shift != m.ctx['lines'][d.code]:
                    chk.violation('warning PW%03d x %s|line number wrong' % (d.code, TOOL), '%r, construct on line %d' % (d.raw[:200], m.ctx['lines'][d.code]), {'input.exp': m.text})
    chk.count('switch runs', n_sw)
    chk.count('switch runs ended by signal', n_sig)
    chk.extra['warning_codes_observed_with_-w_all'] = sorted(warn_seen)
    chk.extra['unmasked_fraction_switch_matrix'] = round(1 - n_sig / float(n_sw), 3) if n_sw else 0.0

    # ---------------- (c) deterministic lexical matrix
    lex_cases = L.enc_cases(chk.seed) + L.other_cases()
    LCFG = [(), (('-w', 'all'),), (('-w', 'limits'),)] if 'limits' in classes else [(), (('-w', 'all'),)]

    def lwork(job):
        c, cfg = job
        return job, R.run_tool(TOOL, c.text, args=[x for fn in cfg for x in fn], how='abs')
    lres = {}
    for (c, cfg), tr in run.pmap(lwork, [(c, cfg) for c in lex_cases for cfg in LCFG]):
        lres[(id(c), cfg)] = tr
        chk.ev()
    n_lex_both = 0
    for c in lex_cases:
        base = lres[(id(c), ())]
        chk.tag('lexical matrix:%s' % c.shape[0])
        if base.r.timed_out:
            chk.inconc('watchdog fired on lexical matrix case %r' % (c.shape,))
            continue
        chk.seen('lex', c.shape[0], c.shape[1], tuple(sorted(set(d.code for d in base.errors))))
        finds = L.lex_findings(c.text, base.diags, shift, TOOL)
        for d in base.diags:
            if d.file != base.given:
                finds.append(('%s PE%03d x %s|diagnostic attributed to another file' % (L.CLS.get(d.code, 'lexical matrix'), d.code, TOOL), 'given %r, printed %r' % (base.given, d.file)))
            fm = FORMATS.get(d.code)
            if fm is not None and not fm.match(d.msg):
                finds.append(('%s PE%03d x %s|message text does not fit the format of its code' % (L.CLS.get(d.code, 'lexical matrix'), d.code, TOOL), d.raw[:200]))
        if c.expect is not None:
            got = []
            for d in base.errors:
                mm = L._ARG[d.code].match(d.msg) if d.code in (32, 33) else None
                if mm:
                    got.append((d.code, d.line - shift, mm.group(1)))
            for e in c.expect:
                if e in got:
                    got.remove(e)
                else:
                    sym = 'diagnostic not produced' if not any(g[0] == e[0] and g[1] == e[1] for g in got) else 'argument text wrong: got text not from the input'
                    finds.append(('%s PE%03d x %s|%s' % (L.CLS[e[0]], e[0], TOOL, sym), 'expected PE%03d quoting %r on line %d; stderr %r' % (e[0], e[2], e[1], base.r.err[:400])))
            for g in got:
                finds.append(('%s PE%03d x %s|diagnostic for a construct that is not in the input' % (L.CLS[g[0]], g[0], TOOL), 'PE%03d quoting %r on line %d; expected only %r' % (g[0], g[2], g[1], c.expect)))
        small = set(i + 1 for i, l in enumerate(c.text.split('\n')) if L.SMALL in l)
        for cfg in LCFG[1:]:
            tr = lres[(id(c), cfg)]
            names = ' '.join('%s %s' % fn for fn in cfg)
            finds += same_verdict('lexical fault between warnings', base, tr, names)
            if tr.errors and any(w.code == 25 for w in tr.warnings):
                n_lex_both += 1
            for w in tr.warnings:
                if w.code == 25 and w.line is not None and (w.line - shift) not in small:
                    finds.append(('warning PW025 x %s|line number wrong' % TOOL, '%r; small REAL literals on lines %s' % (w.raw[:160], sorted(small))))
                if w.code != 25:
                    finds.append(('warning switch %s, lexical fault between warnings x %s|warnings of another class changed' % (names if cfg[0][1] == 'all' else '-w <class>', TOOL), w.raw[:200]))
        for key, what in finds:
            chk.violation(key, what, {'input.exp': c.text}, dict(case=c.describe(), stderr=base.r.err[:1200]))
        if c.shape[1].startswith('bad digit index 7') and not any(s.get('cid') == 'lex_matrix' for s in chk.samples):
            chk.sample(dict(cid='lex_matrix', shape=c.shape, literals=c.lits, stderr=base.r.err[:500], stderr_w_all=lres[(id(c), LCFG[1])].r.err[:700], findings=[k for k, _w in finds]))
    chk.count('lexical matrix inputs', len(lex_cases))
    chk.count('lexical matrix runs with ERROR and limits WARNING lines together', n_lex_both)

    # ---------------- (d) every fault inside warning-only context, warnings switched on
    def ctx_cfgs(i, full):
        per = [(('-w', c),) for c in classes]
        if full:
            return [(('-w', 'all'),)] + per + [(('-w', 'all'), ('-i', c)) for c in classes[i % 3::3]]
        return [(('-w', 'all'),)] + ([per[(2 * i + t) % len(per)] for t in range(2)] if per else [])
    full_bases = set([files[0].name, files[min(n_multi, len(files) - 1)].name])
    wrapped = []
    for i, m in enumerate(muts):
        if m.cid in NEEDS_WARNINGS_ON or id(m) not in plain_run:
            continue
        full = m.base.name in full_bases
        for where in (L.WHERE if full else (L.WHERE[zlib.crc32(('%s/%s' % (m.base.name, m.cid)).encode()) % 3],)):
            w = L.wrap(m, where)
            if w is None:
                chk.count('faults not wrapped (binary input)')
                continue
            wrapped.append((w, [()] + ctx_cfgs(i, full)))
    wres = {}
    for (w, cfg), tr in run.pmap(lwork, [(w, cfg) for w, cfgs in wrapped for cfg in cfgs]):
        wres[(id(w), cfg)] = tr
        chk.ev()
    n_ctx = n_ctx_both = n_ctx_after = 0
    for w, cfgs in wrapped:
        base = wres[(id(w), ())]
        if base.r.timed_out:
            chk.inconc('watchdog fired on %s in warning context' % w.cid)
            continue
        if base.r.sig:
            chk.count('runs ended by signal (judged by C04/C06)')
            continue
        finds = []
        # the fault is still reported with its own lexeme (and line) among the added declarations
        j = Judge(w, base, w.text).judge()
        if w.judge_lines:
            settle_lines(j, shift)
        finds += j.out
        finds += L.lex_findings(w.text, base.diags, shift, TOOL)
        ref = wres[(id(w), (('-w', 'all'),))]
        ref_ok = not (ref.r.sig or ref.r.timed_out or ref.r.rc != base.r.rc)
        for cfg in cfgs[1:]:
            tr = wres[(id(w), cfg)]
            names = ' '.join('%s %s' % fn for fn in cfg)
            n_ctx += 1
            chk.seen('ctx', w.cid, w.where, ' '.join('%s %s' % (f, n if n == 'all' else 'class') for f, n in cfg))
            chk.tag('context:warnings %s the fault' % {'before': 'before', 'after': 'after', 'both': 'before and after'}[w.where])
            if tr.errors and tr.warnings:
                n_ctx_both += 1
                if base.errors and any(x.line is not None and x.line > max(e.line or 0 for e in tr.errors) for x in tr.warnings):
                    n_ctx_after += 1
            finds += same_verdict('fault inside warning-only context', base, tr, names)
            finds += judge_switch(w, base, tr, cfg, ref if ref_ok else None)
        seen_k = set()
        for key, what in finds:
            if (key, what) in seen_k:
                continue
            seen_k.add((key, what))
            chk.violation(key, what, {'input.exp': w.text}, dict(mutant=w.describe(), warnings=w.where, default_stderr=base.r.err[:800], w_all_stderr=ref.r.err[:1500]))
        if w.cid == 'undef_type' and w.where == 'after' and not any(s.get('cid') == 'fault in warning context' for s in chk.samples):
            chk.sample(dict(cid='fault in warning context', mutant=w.describe(), warnings=w.where, default_exit=base.r.rc, w_all_exit=ref.r.rc,
                            w_all_stderr=ref.r.err[:900]))
    chk.count('faults wrapped in warning-only context', len(wrapped))
    chk.count('context runs with a warning switch', n_ctx)
    chk.count('context runs printing ERROR and WARNING lines together', n_ctx_both)
    chk.count('context runs with a WARNING on a later line than every ERROR', n_ctx_after)

    # ---------------- (e) two faults in one file
    prs = L.pairs([m for m in muts if id(m) in plain_run and not plain_run[id(m)].r.sig], chk.seed, 1 if quick else 6)

    def pwork(p):
        return p, R.run_tool(TOOL, p.text, how='abs')
    for p, tr in run.pmap(pwork, prs):
        chk.ev()
        if tr.r.timed_out:
            chk.inconc('watchdog fired on a two-fault file')
            continue
        if tr.r.sig:
            chk.count('runs ended by signal (judged by C04/C06)')
            continue
        chk.seen('pair', p.phase, p.a.cid, p.b.cid)
        chk.tag('two faults:' + p.phase)
        finds = L.lex_findings(p.text, tr.diags, shift, TOOL)
        for which, m, off in (('first', p.a, 0), ('second', p.b, p.off)):
            pcode, pargs = PRIMARY[m.cid]
            ok_lines = set(x + off for x in allowed_lines(m, m.cid))
            hit = False
            for d in tr.errors:
                mm = FORMATS[pcode].match(d.msg) if d.code == pcode else None
                if not mm or d.line is None or (d.line - shift) not in ok_lines:
                    continue
                g = mm.groupdict()
                if all(what == 'first_line' or g.get(field) in expected_value(m, what) for field, what in pargs[:1]):
                    hit = True
            if not hit:
                finds.append(('%s x %s|%s fault not reported with its own text and line' % (p.cls, TOOL, which),
                              '%s fault %s %r on line %d: no PE%03d quoting it there; stderr %r' % (which, m.cid, m.lexeme, m.line + off, pcode, tr.r.err[:700])))
        for key, what in finds:
            chk.violation(key, what, {'input.exp': p.text}, dict(pair=p.describe(), stderr=tr.r.err[:1500]))
        if not any(s.get('cid') == 'two_faults' for s in chk.samples):
            chk.sample(dict(cid='two_faults', pair=p.describe(), stderr=tr.r.err[:600], findings=[k for k, _w in finds]))
    chk.count('two-fault files', len(prs))

    # ---------------- (f) inputs made of several files: the fault in each file in turn, every phase
    n_models = len(MU.LAYOUTS) if quick else 4 * len(MU.LAYOUTS)
    MF_CLASSES = [c for c in MU.LEXICAL + MU.SYNTAX + MU.RESOLVE + MU.EXTRA if c in PRIMARY]
    mjobs = []
    for i in range(n_models):
        f = MU.model(chk.seed, i)
        lay = MU.LAYOUTS[i % len(MU.LAYOUTS)]
        mjobs.append(MU.valid_input(f, lay))
        mjobs += MU.faults(f, chk.seed, lay, MF_CLASSES)
        mjobs += MU.warn_inputs(f, lay)

    def mwork(mf):
        args = ('-w', 'all') if mf.cid in NEEDS_WARNINGS_ON or mf.cid == 'warn_in_file' else ()
        return mf, MU.run_files(TOOL, mf.files(), 'main.exp', how=mf.layout[3], path=mf.layout[1], args=args)
    bad_models = set()
    mres = list(run.pmap(mwork, mjobs))
    for mf, mr in mres:
        if mf.cid == 'valid' and (mr.tr.r.rc != 0 or mr.tr.diags or mr.tr.r.sig):
            bad_models.add(mf.base.name)
            chk.inconc('multi-file model %s (%s) is not accepted fault-free: %s' % (mf.base.name, mf.layout[0], mr.strip(mr.tr.r.err[:300])))
    n_mf = n_mf_lib = n_mf_sig = 0
    for mf, mr in mres:
        chk.ev()
        tr = mr.tr
        if mf.base.name in bad_models or mf.cid == 'valid':
            continue
        if tr.r.timed_out:
            chk.inconc('watchdog fired on multi-file input %s of %s' % (mf.cid, mf.base.name))
            continue
        files = dict((MU.lname(mf.base, j), t) for j, t in enumerate(mf.texts))
        case = dict(mutant=mf.describe(), EXPRESS_PATH=mr.express_path, given_path=mr.strip(tr.given), stderr=mr.strip(tr.r.err[:1500]))
        chk.tag('multi-file layout:' + mf.layout[0])
        chk.tag('multi-file fault in:' + ('main file' if mf.k == 0 else 'library file'))
        if mf.cid == 'warn_in_file':
            finds = []
            codes = set()
            if tr.r.sig:
                n_mf_sig += 1
                continue
            if tr.r.rc != 0 or tr.errors:
                finds.append(('multi-file input: warning-only declarations x %s|exit status changed' % TOOL, 'exit %s, stderr %r' % (tr.r.rc, mr.strip(tr.r.err[:300]))))
            for d in tr.warnings:
                codes.add(d.code)
                ln = mr.logical(d)
                k = 'multi-file input: warning PW%03d x %s' % (d.code, TOOL)
                if ln is None:
                    finds.append((k + '|diagnostic attributed to a file that is not part of the input', mr.strip(d.raw[:200])))
                elif ln != mf.fault_file:
                    finds.append((k + '|diagnostic attributed to another file', '%r: the only declarations that draw warnings are in %s' % (mr.strip(d.raw[:200]), mf.fault_file)))
                elif d.line is None or (d.line - shift) not in mf.warn_lines:
                    finds.append((k + '|line number wrong', '%r: the declarations that draw warnings are on lines %d, %d-%d' % (
                        mr.strip(d.raw[:200]), min(mf.warn_lines), sorted(mf.warn_lines)[1], max(mf.warn_lines))))
                fm = FORMATS.get(d.code)
                mm = fm.match(d.msg) if fm else None
                if fm and not mm:
                    finds.append((k + '|message text does not fit the format of its code', d.raw[:200]))
                elif mm and 'name_id' in mm.groupdict() and not mm.group('name_id').startswith('zw%d_' % mf.k):
                    finds.append((k + '|argument text wrong: got %s' % text_class(mm.group('name_id'), idents(mf.text)), d.raw[:200]))
            chk.seen('multi-file warnings', mf.layout[0], mf.k, tuple(sorted(codes)))
            chk.count('multi-file inputs with warnings of >= 5 codes in one file', 1 if len(codes) >= 5 else 0)
            for key, what in finds:
                chk.violation(key, what, files, case)
            continue
        if tr.r.sig:
            n_mf_sig += 1
            chk.count('runs ended by signal (judged by C04/C06)')
            continue
        n_mf += 1
        n_mf_lib += 1 if mf.k else 0
        j = MultiJudge(mf, mr).judge()
        settle_lines(j, shift)
        for lname_, t in files.items():
            j.out += L.lex_findings(t, [d for d in tr.diags if mr.logical(d) == lname_], shift, TOOL)
        for d in tr.diags:
            chk.seen('multi-file', mf.cid, 'main' if mf.k == 0 else 'lib', mf.layout[0], d.code)
        chk.tag('multi-file phase:' + MU.PHASE[mf.cid])
        seen_k = set()
        for key, what in j.out:
            if (key, what) in seen_k:
                continue
            seen_k.add((key, what))
            chk.violation(key, what, files, case)
        if mf.cid == 'undef_type' and mf.k == 1 and not any(s.get('cid') == 'multi_file' for s in chk.samples):
            chk.sample(dict(cid='multi_file', mutant=mf.describe(), EXPRESS_PATH=mr.express_path, given_path=mr.strip(tr.given), files=sorted(mf.files()),
                            stderr=mr.strip(tr.r.err[:600]), findings=[k for k, _w in j.out]), limit=7)
    # two faults in two different files of one model
    mfs = [mf for mf, mr in mres if mf.cid not in ('valid', 'warn_in_file') and mf.base.name not in bad_models and not mr.tr.r.sig and not mr.tr.r.timed_out]
    mpairs = MU.two_file_pairs(mfs, chk.seed, 6 if quick else 12)

    def mpwork(t):
        a, b, merged = t
        return t, MU.run_files(TOOL, merged.files(), 'main.exp', how=merged.layout[3], path=merged.layout[1])
    for (a, b, merged), mr in run.pmap(mpwork, mpairs):
        chk.ev()
        tr = mr.tr
        if tr.r.timed_out or tr.r.sig:
            chk.count('runs ended by signal (judged by C04/C06)', 1 if tr.r.sig else 0)
            continue
        chk.seen('multi-file pair', merged.phase, a.cid, b.cid, merged.layout[0])
        chk.tag('multi-file two faults in two files:' + merged.phase)
        files = dict((MU.lname(merged.base, j), t) for j, t in enumerate(merged.texts))
        finds = []
        for lname_, t in files.items():
            finds += L.lex_findings(t, [d for d in tr.diags if mr.logical(d) == lname_], shift, TOOL)
        for d in tr.diags:
            if d.file is not None and mr.logical(d) not in files:
                finds.append(('%s PE%03d x %s|diagnostic attributed to a file that is not part of the input' % (merged.cls, d.code, TOOL), mr.strip(d.raw[:200])))
        for which, m in (('first', a), ('second', b)):
            pcode, pargs = PRIMARY[m.cid]
            ok_lines = allowed_lines(m, m.cid)
            hit = wrong_file = None
            for d in tr.errors:
                mm = FORMATS[pcode].match(d.msg) if d.code == pcode else None
                if not mm or d.line is None or (d.line - shift) not in ok_lines:
                    continue
                g = mm.groupdict()
                if all(what == 'first_line' or g.get(field) in expected_value(m, what) for field, what in pargs[:1]):
                    if mr.logical(d) == m.fault_file:
                        hit = d
                    else:
                        wrong_file = d
            if not hit:
                sym = 'diagnostic attributed to another file' if wrong_file else '%s fault not reported with its own text and line' % which
                finds.append(('%s x %s|%s' % (merged.cls, TOOL, sym), '%s fault %s %r on line %d of %s: %s; stderr %r' % (
                    which, m.cid, m.lexeme, m.line, m.fault_file, ('reported as %r' % mr.strip(wrong_file.raw[:160])) if wrong_file else 'no PE%03d quoting it there' % pcode,
                    mr.strip(tr.r.err[:700]))))
        for key, what in finds:
            chk.violation(key, what, files, dict(first=a.describe(), second=b.describe(), EXPRESS_PATH=mr.express_path, stderr=mr.strip(tr.r.err[:1500])))
    chk.count('multi-file inputs with two faults in two files', len(mpairs))
    chk.count('multi-file models', n_models)
    chk.count('multi-file single-fault inputs judged', n_mf)
    chk.count('multi-file single-fault inputs with the fault in a library file', n_mf_lib)

    # ---------------- (g) duplicate names of every kind
    dcases = D.all_cases(chk.seed)

    def dwork(c):
        if c.path is None:
            files = dict((n, ('src', n, t)) for n, t in c.files.items())
            return c, MU.run_files(TOOL, files, c.main, how='abs', path=None)
        lay = MU.LAYOUTS[zlib.crc32(c.shape.encode()) % len(MU.LAYOUTS)]
        libs = sorted(n for n in c.files if n != c.main)
        files = dict((n, (lay[2][libs.index(n) % len(lay[2])] if n != c.main else 'src', n, t)) for n, t in c.files.items())
        return c, MU.run_files(TOOL, files, c.main, how=lay[3], path=lay[1])
    n_dup_diag = 0
    for c, mr in run.pmap(dwork, dcases):
        chk.ev()
        if mr.tr.r.timed_out:
            chk.inconc('watchdog fired on duplicate-name case %r' % (c.shape,))
            continue
        if mr.tr.r.sig:
            chk.count('runs ended by signal (judged by C04/C06)')
            continue
        finds, diagnosed = D.dup_findings(c, mr, shift, TOOL)
        chk.tag('duplicate name:' + c.family)
        if diagnosed:
            n_dup_diag += 1
            chk.seen('dup', c.family, c.shape)
        else:
            chk.count('duplicate-name cases accepted without a diagnostic (nothing to judge; accept/reject is C04)')
        for key, what in finds:
            chk.violation(key, what, c.files, dict(case=c.describe(), EXPRESS_PATH=mr.express_path, stderr=mr.strip(mr.tr.r.err[:800])))
        if c.family == 'interface' and diagnosed and not any(s.get('cid') == 'dup_matrix' for s in chk.samples):
            chk.sample(dict(cid='dup_matrix', case=c.describe(), stderr=mr.strip(mr.tr.r.err[:400]), findings=[k for k, _w in finds]), limit=7)
    chk.count('duplicate-name cases', len(dcases))
    chk.count('duplicate-name cases diagnosed and judged', n_dup_diag)

    # ---------------- (h) long identifiers: the quoted identifier is the one in the input, whatever its length (fixed buffers
    # in the lexer / message formatting must not cut it), and long names that share a long prefix stay distinct
    def lname(n, tail='q'):
        return ('n' + 'abcdefghij' * (n // 10 + 1))[:n - 1] + tail
    lcases = []
    for n in (64, 255, 256, 257, 300, 1000, 4000):
        nm = lname(n)
        lcases.append(('undefined type', n, 'SCHEMA s;\nENTITY e;\n  a : %s;\nEND_ENTITY;\nEND_SCHEMA;\n' % nm, nm, 3))
        lcases.append(('undefined supertype', n, 'SCHEMA s;\nENTITY e\n  SUBTYPE OF (%s);\n  a : INTEGER;\nEND_ENTITY;\nEND_SCHEMA;\n' % nm, nm, 3))
        lcases.append(('entity declared twice', n, 'SCHEMA s;\nENTITY %s;\n  a : INTEGER;\nEND_ENTITY;\nENTITY %s;\n  b : INTEGER;\nEND_ENTITY;\nEND_SCHEMA;\n' % (nm, nm), nm, 5))
        a, b = lname(n, 'x'), lname(n, 'y')      # equal up to the last character
        lcases.append(('valid: two names equal up to the last character', n,
                       'SCHEMA s;\nENTITY %s;\n  a : INTEGER;\nEND_ENTITY;\nENTITY %s;\n  b : %s;\nEND_ENTITY;\nEND_SCHEMA;\n' % (a, b, a), None, None))

    def hwork(c):
        return c, R.run_tool(TOOL, c[2], how='abs')
    for (what, n, text, nm, line), tr in run.pmap(hwork, lcases):
        chk.ev()
        chk.seen('long identifier', what, n)
        lab = 'identifier of %s characters' % ('up to 255' if n <= 255 else '256 or more')
        if tr.r.crashed() or tr.r.timed_out:
            chk.violation('long identifier: %s, %s x %s|%s' % (what, lab, TOOL, tr.r.symptom()), 'n=%d' % n, {'input.exp': text}, dict(stderr=tr.r.err[-1500:]))
            continue
        if nm is None:
            if tr.r.rc != 0 or tr.errors:
                chk.violation('long identifier: %s, %s x %s|valid schema rejected' % (what, lab, TOOL), 'n=%d: %s' % (n, [d.raw[:200] for d in tr.errors][:3]),
                              {'input.exp': text}, dict(stderr=tr.r.err[-1500:]))
            continue
        quoted = [d for d in tr.errors if nm.lower() in d.msg.lower()]
        if not tr.errors:
            chk.violation('long identifier: %s, %s x %s|diagnostic not produced' % (what, lab, TOOL), 'n=%d' % n, {'input.exp': text}, dict(stderr=tr.r.err[-1500:]))
        elif not quoted:
            chk.violation('long identifier: %s, %s x %s|quoted identifier is not the one in the input' % (what, lab, TOOL),
                          'n=%d: %s' % (n, [d.raw[:120] + '...' + d.raw[-60:] for d in tr.errors][:3]), {'input.exp': text}, dict(stderr=tr.r.err[-1500:]))
        elif not any(d.line == line for d in quoted):
            chk.violation('long identifier: %s, %s x %s|line number wrong' % (what, lab, TOOL), 'n=%d: lines %s, expected %d' % (n, [d.line for d in quoted], line),
                          {'input.exp': text}, dict(stderr=tr.r.err[-1500:]))
    chk.count('long-identifier cases', len(lcases))

    # ---------------- (i) argument counts quoted by the call diagnostics: the numbers are the ones of the call site and of the
    # declaration, for calls with a parameter list and for a function named without one
    acases = []
    for nformal in (1, 2, 3):
        formals = '; '.join('p%d : REAL' % i for i in range(nformal))
        for given in range(0, 5):
            if given == nformal:
                continue
            for bare in ((True, False) if given == 0 else (False,)):
                call = 'weight' if bare else 'weight(%s)' % ', '.join(['1.0'] * given)
                text = ('SCHEMA s;\nFUNCTION weight(%s) : REAL;\n  RETURN (1.0);\nEND_FUNCTION;\nENTITY e;\n  a : REAL;\nDERIVE\n  w : REAL := %s;\nEND_ENTITY;\nEND_SCHEMA;\n'
                        % (formals, call))
                acases.append((nformal, given, bare, text))

    def awork(c):
        return c, R.run_tool(TOOL, c[3], args=['-w', 'all'], how='abs')
    pat = re.compile(r'uses (-?\d+) arguments?, but expected (-?\d+)')
    for (nformal, given, bare, text), tr in run.pmap(awork, acases):
        chk.ev()
        chk.seen('argument count', nformal, given, bare)
        how = 'function named without a parameter list' if bare else 'call with a parameter list'
        hits = [(d, pat.search(d.msg)) for d in tr.diags if pat.search(d.msg)]
        if not hits:
            chk.count('argument-count cases without a count diagnostic (nothing to judge)')
            continue
        for d, m in hits:
            if (int(m.group(1)), int(m.group(2))) != (given, nformal):
                chk.violation('argument count: %s x %s|quoted counts are not those of the call and the declaration' % (how, TOOL),
                              '%d given, %d declared: %s' % (given, nformal, d.raw), {'input.exp': text}, dict(stderr=tr.r.err[-1200:]))
            elif d.line != 8:
                chk.violation('argument count: %s x %s|line number wrong' % (how, TOOL), 'line %s, expected 8: %s' % (d.line, d.raw), {'input.exp': text})
    chk.count('argument-count cases', len(acases))

    return chk.finish(
        rule='single-fault mutants (vf/c04_faults.py) of %d generated valid files (%d multi-schema), one per argument-carrying fault class '
             '(%d classes) and file, run by check-express with the path given in 3 forms; switch matrix over the %d advertised warning names '
             'x {-w,-i} + all/none + "-w all -i <class>" on warning-bearing variants of the files and on every %d-th mutant; distinct_nontrivial = '
             'distinct (fault class, variant, diagnostic code) resp. (switch combination, warning-bearing?) judged; + %d fixed lexical inputs '
             '(encoded string literals: %d lengths x index class of the bad digit, two bad digits, two literals; illegal characters and _identifiers at '
             'fixed places), each under default, -w all, -w limits, distinct = (family, shape, codes printed); + every mutant wrapped in warning-only '
             'declarations before / after / around it (%d wrapped inputs; the mutants of 2 files in all 3 positions under -w all, every -w <class> and '
             '-w all -i <class>, the others in one position under -w all and 2 classes), distinct = (fault class, position, switch kind); + %d files '
             'holding two faults of two schemas, distinct = (phase, class 1, class 2); + %d multi-file models (main + 2..3 library schemas in their own '
             'files, %d fixed layouts of working directory / EXPRESS_PATH directories) x fault in each file in turn x %d fault classes of the lexical, '
             'syntax and resolution phase (%d single-fault inputs, %d with the fault in a library file), warning-only declarations in each file, %d '
             'inputs with two faults in two files, distinct = (fault class, main|library, layout, diagnostic code); + %d fixed duplicate-name shapes '
             '(scope pairs of kinds, parameters / locals, attributes incl. SELF\\super.attr, enumeration items, rule labels, USE / REFERENCE AS '
             'clashes in one file and in a file per schema; %d diagnosed and judged), distinct = (family, shape)'
             % (n_files, n_multi, len(ARG_CLASSES), len(classes), step, len(lex_cases), len(L.LENS), len(wrapped), len(prs),
                n_models, len(MU.LAYOUTS), len(MF_CLASSES), n_mf, n_mf_lib, len(mpairs), len(dcases), n_dup_diag),
        assumptions=['message formats and the warning class -> code table are transcribed from LibErrors[] in src/express/error.c and serve as the specification',
                     'the injector records lexeme and 1-based line correctly (lines are found by searching the printed text for the unique lexeme)',
                     'file:line: diagnostics are expected to be 1-based like every compiler-style diagnostic; a shift common to >= 90% of the judged '
                     'numbers is reported once and the other line checks are made relative to it',
                     'an encoded string literal is "...." on a line without apostrophes or remarks (true for every generated input); its digit count is the '
                     'number of characters between the quotes; one PE030 per literal with a non-hex digit is demanded, at most one per such character allowed',
                     'the declarations of vf/c20_lex.py warn_decls() are accepted by check-express and only draw warnings; verdict and ERROR lines of a '
                     'wrapped fault are compared between switch settings of the SAME file, never with the unwrapped file',
                     'two faults in one file: only pairs whose diagnostics come from the same phase (scanner/scanner, resolver/resolver, no fatal '
                     'severity), since a failed phase legitimately ends the run',
                     'multi-file inputs: a printed file name denotes the file it resolves to from the working directory of the tool (no symbolic links '
                     'in the scratch tree); every identifier of a generated model is declared once and the schemas use disjoint name prefixes, so a quoted '
                     'name identifies the file it was taken from; a fault of the first pass in the main file ends the run before library files are read',
                     'duplicate-name matrix: each shape declares exactly one name twice in one scope (ISO 10303-11 clause 10: one declaration per name and '
                     'scope); for a shape the tool accepts without any diagnostic (duplicate UNIQUE labels, USE alias = REFERENCE alias, alias = local '
                     'declaration) there is no diagnostic text to judge - accepting it is the concern of C04',
                     'while every -w/-i run dies (open finding) the switch-invariance clause and the wrong-argument-count warning are not observable; '
                     'unmasked_fraction_switch_matrix in the evidence says how much of the matrix was judged'])
