"""C05 - reading and writing Part 21 is memory-safe and terminates on any input.

Each input file is read (exchange or working-session reader) and the resulting population written, by p21mon built
with ASan+UBSan (fatal) + step hooks.  Oracle: no sanitizer report, no signal, ordinary exit, H1 steps <= A + B*bytes.
"""
import random
import re
from .. import gen_p21, p21fam, ref_p21, run, probes, mutate

AVOID_SCHEMA = probes.masked_schema_features('C01')
AVOID_POP = probes.masked_pop_features('C01')

# step budget: calibrated on the unchanged tree (max observed steps/byte over the quick corpus was ~14; x20 and a floor)
BUDGET_A = 200000
BUDGET_B = 400


def run_one(lib, data, ws, sc_prefix='c05'):
    with p21fam.Scratch(sc_prefix) as sc:
        inp = sc.write('in.p21', data)
        ops = ['readws' if ws else 'read', inp, 'write', sc.path('out.p21')] + (['writews', sc.path('out.ws')] if ws else [])
        budget = BUDGET_A + BUDGET_B * len(data)
        r = p21fam.mon(lib, ops, sc.d, timeout=120, budget=budget, steplog=True)
        if r.timed_out and not r.budget_hit:
            r2 = p21fam.mon(lib, ops, sc.d, timeout=300, budget=budget, steplog=True)   # alone-ish re-run before calling it a hang
            r2.cmd = 'rerun'
            return r2
        return r


def symptom(r):
    if r.san:
        return r.san
    if r.budget_hit:
        m = re.search(r'step budget exceeded site=(\d+)', r.err[-3000:]) or re.search(r'step budget exceeded site=(\d+)', r.err)
        return 'hang (step budget exceeded at hook site %s)' % (m.group(1) if m else '?')
    if r.sig:
        return 'signal %d' % r.sig
    if r.timed_out:
        return 'timeout'
    if r.rc not in (0,):
        return 'exit status %d' % r.rc
    return None


def main(chk):
    quick = chk.tier == 'quick'
    n_schemas, n_pops, n_tok, n_trunc = (5, 2, 24, 40) if quick else (40, 6, 60, 200)
    schemas = p21fam.std_corpus(chk.seed, n_schemas, AVOID_SCHEMA)
    libs = p21fam.report_build_failures(chk, p21fam.build_libs(schemas))
    cases = []   # (lib, data(bytes/str), ws, operator, construct)
    for li, lib in enumerate(libs):
        for pi in range(n_pops):
            rng = random.Random('c05/%d/%s/%d' % (chk.seed, lib.schema.name, pi))
            pg = gen_p21.PopGen(lib.schema, rng, avoid=AVOID_POP)
            pop = pg.population(n_extra=rng.randint(0, 4), with_complex=True)
            if 'unfillable' in pop.tags:
                continue
            for ws in (False, True):
                if ws:
                    for i in pop.insts:
                        i.state = rng.choice(['C', 'I', 'N', 'C', 'D'])
                base = gen_p21.render(pop, rng.choice(['compact', 'spaced', 'cmt_structural']), rng,
                                      kind='STEP_WORKING_SESSION' if ws else 'ISO-10303-21')
                if ws:
                    for i in pop.insts:
                        i.state = None
                cases.append((lib, base, ws, 'none', 'conforming file'))
                for (data, op, construct) in mutate.p21_mutants(base, rng, n_tok if not ws else n_tok // 2, n_trunc if not ws else n_trunc // 4):
                    cases.append((lib, data, ws, op, construct))
    # seed-independent pathological shapes + exhaustive short parameter strings on the first library
    if libs:
        lib0 = libs[0]
        rng0 = random.Random('c05-shapes')
        pg = gen_p21.PopGen(lib0.schema, rng0, avoid=AVOID_POP | {'complex'})
        pop0 = pg.population(n_extra=0, with_complex=False)
        if 'unfillable' not in pop0.tags:
            base0 = gen_p21.render(pop0, 'compact')
            for (data, op, construct) in mutate.p21_shapes(base0, lib0.schema, pop0, thorough=not quick):
                cases.append((lib0, data, False, op, construct))
            for (data, op, construct) in mutate.p21_short_params(base0, lib0.schema, pop0, maxlen=2 if quick else 3):
                cases.append((lib0, data, False, op, construct))

    # deterministic probes of open findings that random mutation can also reach (same key either way)
    sel_probes = [p.prepare() for p in probes.PROBES.get('C01', []) if p.name.startswith('select value referencing')]
    for p, plib in zip(sel_probes, p21fam.build_libs([p.schema for p in sel_probes]) if sel_probes else []):
        if plib.fail is None:
            cases.append((plib, mutate._b(p.p21), False, 'probe', p.name))

    def work(c):
        lib, data, ws, op, construct = c
        return c, run_one(lib, data, ws)
    ratios = []
    sites = {}
    for (lib, data, ws, op, construct), r in run.pmap(work, cases):
        chk.ev()
        sym = symptom(r)
        outcome = sym or 'clean'
        chk.seen(op, construct, 'ws' if ws else 'p21', outcome if sym else 'ok')
        chk.tag('op:' + op)
        if r.steps is not None and len(data) > 0:
            ratios.append(r.steps / float(len(data)))
        for k, v in (r.step_sites or {}).items():
            sites[k] = sites.get(k, 0) + v
        if sym == 'timeout':
            chk.inconc('watchdog fired without the step budget being exceeded: %s on %s (%d bytes)' % (op, construct, len(data)))
            continue
        if sym:
            fr = run.san_frames(r.err, 1)
            if r.san and fr:
                # sanitizer report: the defect is named by symptom + the library function it surfaces in (no line numbers);
                # operator/construct/file kind go into `what` - random mutations reach one defect by many routes
                key = 'crash|%s|in %s' % (sym, fr[0].split(' ')[0])
            else:
                key = 'crash|%s x %s|%s|%s' % (op, construct, 'working-session' if ws else 'exchange', sym)
            dd = data if isinstance(data, bytes) else data.encode('latin-1', 'replace')
            chk.violation(key, '%s via %s x %s (%s file); frames %s' % (sym, op, construct, 'working-session' if ws else 'exchange', run.san_frames(r.err)), {'schema.exp': lib.schema.text(), 'in.p21': dd[:2000000], 'stderr.txt': r.err[-6000:]},
                          dict(schema=lib.schema.name, op=op, construct=construct, bytes=len(data)))
        elif len(chk.samples) < 4 and op != 'none':
            chk.sample(dict(op=op, construct=construct, bytes=len(data), steps=r.steps, head=(data[:300] if isinstance(data, str) else repr(data[:300]))))
    extra = dict(steps_per_byte_max=round(max(ratios), 2) if ratios else None, hook_sites_reached=sorted(sites, key=lambda s: int(s[1:])),
                 budget='steps <= %d + %d*bytes' % (BUDGET_A, BUDGET_B))
    return chk.finish(
        rule='conforming generated exchange and working-session files + grammar-aware mutants (token delete/duplicate/swap, stretching of numbers, identifiers, strings, '
             'binaries, comments, entity names to 10^2..10^5, parenthesis imbalance and nesting, truncation at sampled offsets, NUL/high bytes) + fixed pathological shapes + '
             'exhaustive short parameter strings; distinct_nontrivial = distinct (operator, construct hit, file kind, outcome)',
        assumptions=['ASan/UBSan red-zone limits (no proof of memory safety)', 'time proportional to the input decided as H1 hook steps <= A + B*bytes',
                     'masks inherited from C01 for the base populations'], extra=extra)
