"""C05 - reading and writing Part 21 is memory-safe and terminates on any input.

Each input file is read (exchange or working-session reader) and the resulting population written, by p21mon built
with ASan+UBSan (fatal) + step hooks.  Oracle: no sanitizer report, no signal, ordinary exit, H1 steps <= A + B*bytes.
"""
import random
import re
from .. import gen_p21, p21fam, ref_p21, run, probes, mutate

AVOID_SCHEMA = probes.masked_schema_features('C01')
AVOID_POP = probes.masked_pop_features('C01')

# step budget: calibrated on the unchanged tree (max observed steps/byte over the quick corpus was ~14; x20 and a floor)
BUDGET_A = 200000
BUDGET_B = 400


def run_one(lib, data, ws, sc_prefix='c05'):
    with p21fam.Scratch(sc_prefix) as sc:
        inp = sc.write('in.p21', data)
        ops = ['readws' if ws else 'read', inp, 'write', sc.path('out.p21')] + (['writews', sc.path('out.ws')] if ws else [])
        budget = BUDGET_A + BUDGET_B * len(data)
        r = p21fam.mon(lib, ops, sc.d, timeout=120, budget=budget, steplog=True)
        if r.timed_out and not r.budget_hit:
            r2 = p21fam.mon(lib, ops, sc.d, timeout=300, budget=budget, steplog=True)   # alone-ish re-run before calling it a hang
            r2.cmd = 'rerun'
            return r2
        return r


def symptom(r):
    if r.san:
        return r.san
    if r.budget_hit:
        m = re.search(r'step budget exceeded site=(\d+)', r.err[-3000:]) or re.search(r'step budget exceeded site=(\d+)', r.err)
        return 'hang (step budget exceeded at hook site %s)' % (m.group(1) if m else '?')
    if r.sig:
        return 'signal %d' % r.sig
    if r.timed_out:
        return 'timeout'
    if r.rc not in (0,):
        return 'exit status %d' % r.rc
    return None


def main(chk):
    quick = chk.tier == 'quick'
    n_schemas, n_pops, n_tok, n_trunc = (5, 2, 24, 40) if quick else (24, 5, 60, 200)   # thorough ~155k processes, ~15 min on 16 idle cores
    schemas = p21fam.std_corpus(chk.seed, n_schemas, AVOID_SCHEMA)
    libs = p21fam.report_build_failures(chk, p21fam.build_libs(schemas))
    cases = []   # (lib, data(bytes/str), ws, operator, construct)
    for li, lib in enumerate(libs):
        for pi in range(n_pops):
            rng = random.Random('c05/%d/%s/%d' % (chk.seed, lib.schema.name, pi))
            pg = gen_p21.PopGen(lib.schema, rng, avoid=AVOID_POP)
            pop = pg.population(n_extra=rng.randint(0, 4), with_complex=True)
            if 'unfillable' in pop.tags:
                continue
            for ws in (False, True):
                if ws:
                    for i in pop.insts:
                        i.state = rng.choice(['C', 'I', 'N', 'C', 'D'])
                base = gen_p21.render(pop, rng.choice(['compact', 'spaced', 'cmt_structural']), rng,
                                      kind='STEP_WORKING_SESSION' if ws else 'ISO-10303-21')
                if ws:
                    for i in pop.insts:
                        i.state = None
                cases.append((lib, base, ws, 'none', 'conforming file'))
                if pi == 0 and not ws:
                    for (data, op, construct) in mutate.p21_token_cuts(base, 400 if quick else 1500):
                        cases.append((lib, data, ws, op, construct))
                for (data, op, construct) in mutate.p21_mutants(base, rng, n_tok if not ws else n_tok // 2, n_trunc if not ws else n_trunc // 4):
                    cases.append((lib, data, ws, op, construct))
    # seed-independent pathological shapes + exhaustive short parameter strings on the first library
    lib0, pop0 = None, None
    if libs:
        lib0 = libs[0]
        rng0 = random.Random('c05-shapes')
        pg = gen_p21.PopGen(lib0.schema, rng0, avoid=AVOID_POP | {'complex'})
        pop0 = pg.population(n_extra=0, with_complex=False)
        if 'unfillable' not in pop0.tags:
            base0 = gen_p21.render(pop0, 'compact')
            for (data, op, construct) in mutate.p21_shapes(base0, lib0.schema, pop0, thorough=not quick):
                cases.append((lib0, data, False, op, construct))
            for (data, op, construct) in mutate.p21_short_params(base0, lib0.schema, pop0, maxlen=2 if quick else 3):
                cases.append((lib0, data, False, op, construct))

    # deterministic probes of open findings that random mutation can also reach (same key either way)
    sel_probes = [p.prepare() for p in probes.PROBES.get('C01', []) if p.name.startswith('select value referencing')]
    for p, plib in zip(sel_probes, p21fam.build_libs([p.schema for p in sel_probes]) if sel_probes else []):
        if plib.fail is None:
            cases.append((plib, mutate._b(p.p21), False, 'probe', p.name))

    # ---- scaling oracle: CPU time (the child's own user+sys time, independent of machine load) of size 4N vs size N.
    # The step hooks only see instrumented loops; a super-linear cost inside a library call (std::string, strstr ...) shows here.
    scaling = []
    if libs and pop0 is not None and 'unfillable' not in pop0.tags:
        N1, N2 = (6000, 24000) if quick else (20000, 80000)
        for fam, mk in mutate.p21_scaling_families(lib0.schema, pop0):
            if 'elements' in fam:
                # per-element work is tiny: these families need tens of thousands of elements before a quadratic term shows
                scaling.append((fam, mk(40000), mk(160000)))
            else:
                scaling.append((fam, mk(N1), mk(N2)))

    def work(c):
        lib, data, ws, op, construct = c
        return c, run_one(lib, data, ws)

    def work_scale(c):
        fam, d1, d2 = c
        return c, run_one(lib0, d1, False), run_one(lib0, d2, False)
    for (fam, d1, d2), r1, r2 in run.pmap(work_scale, scaling, jobs=4):
        chk.ev(2)
        for r, d in ((r1, d1), (r2, d2)):
            sym = symptom(r)
            if sym and sym != 'timeout':
                chk.violation('crash|scaling family: %s|%s' % (fam, sym), '%s at %d bytes' % (sym, len(d)), {'in.p21': d[:200000], 'stderr.txt': r.err[-4000:]})
        if r1.cpu is None or r2.cpu is None or symptom(r1) or (symptom(r2) and symptom(r2) != 'timeout'):
            continue
        growth = (r2.cpu / max(r1.cpu, 0.02))
        sizef = len(d2) / float(len(d1))
        chk.seen('scaling', fam)
        chk.count('scaling_families_judged')
        chk.extra.setdefault('cpu_growth_for_4x_input', {})[fam] = round(growth, 2)
        # linear = sizef (about 4); quadratic = 16.  Violation only when clearly super-linear AND the absolute cost is visible.
        if (r2.timed_out or r2.cpu > 1.5) and growth > 2.2 * sizef:
            chk.violation('super-linear|%s' % fam, 'CPU time %.2fs at %d bytes vs %.2fs at %d bytes: x%.1f for x%.1f input%s'
                          % (r2.cpu, len(d2), r1.cpu, len(d1), growth, sizef, ' (larger run hit the watchdog)' if r2.timed_out else ''),
                          {'small.p21': d1[:300000], 'schema.exp': lib0.schema.text()}, dict(family=fam))
    ratios = []
    sites = {}
    for (lib, data, ws, op, construct), r in run.pmap(work, cases):
        chk.ev()
        sym = symptom(r)
        outcome = sym or 'clean'
        chk.seen(op, construct, 'ws' if ws else 'p21', outcome if sym else 'ok')
        chk.tag('op:' + op)
        if r.steps is not None and len(data) > 0:
            ratios.append(r.steps / float(len(data)))
        for k, v in (r.step_sites or {}).items():
            sites[k] = sites.get(k, 0) + v
        if sym == 'timeout':
            chk.inconc('watchdog fired without the step budget being exceeded: %s on %s (%d bytes)' % (op, construct, len(data)))
            continue
        if sym:
            fr = run.san_frames(r.err, 1)
            if r.san and fr:
                # sanitizer report: the defect is named by symptom + the library function it surfaces in (no line numbers);
                # operator/construct/file kind go into `what` - random mutations reach one defect by many routes
                key = 'crash|%s|in %s' % (sym, fr[0].split(' ')[0])
            else:
                key = 'crash|%s x %s|%s|%s' % (op, construct, 'working-session' if ws else 'exchange', sym)
            dd = data if isinstance(data, bytes) else data.encode('latin-1', 'replace')
            chk.violation(key, '%s via %s x %s (%s file); frames %s' % (sym, op, construct, 'working-session' if ws else 'exchange', run.san_frames(r.err)), {'schema.exp': lib.schema.text(), 'in.p21': dd[:2000000], 'stderr.txt': r.err[-6000:]},
                          dict(schema=lib.schema.name, op=op, construct=construct, bytes=len(data)))
        elif len(chk.samples) < 4 and op != 'none':
            chk.sample(dict(op=op, construct=construct, bytes=len(data), steps=r.steps, head=(data[:300] if isinstance(data, str) else repr(data[:300]))))
    extra = dict(steps_per_byte_max=round(max(ratios), 2) if ratios else None, hook_sites_reached=sorted(sites, key=lambda s: int(s[1:])),
                 budget='steps <= %d + %d*bytes' % (BUDGET_A, BUDGET_B))
    return chk.finish(
        rule='conforming generated exchange and working-session files + grammar-aware mutants (token delete/duplicate/swap, stretching of numbers, identifiers, strings, '
             'binaries, comments, entity names to 10^2..10^5, parenthesis imbalance and nesting, truncation at sampled offsets, NUL/high bytes) + fixed pathological shapes + '
             'exhaustive short parameter strings; distinct_nontrivial = distinct (operator, construct hit, file kind, outcome)',
        assumptions=['ASan/UBSan red-zone limits (no proof of memory safety)', 'time proportional to the input decided as H1 hook steps <= A + B*bytes',
                     'masks inherited from C01 for the base populations'], extra=extra)
