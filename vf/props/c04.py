"""C04 - all EXPRESS tools give the same, correct verdict on a schema.

Workload: valid EXPRESS files (valid by construction; single- and multi-schema with USE/REFERENCE) and classified
single-fault mutants of them (vf/c04_faults.py).  Every input is run through check-express, exppp, exp2cxx and
exp2python of the 'plain' build, each in an empty scratch directory.  Recorded per run: exit status, signal, parsed
ERROR / WARNING diagnostic lines, success markers, files created.

Oracle:
  valid input    -> every tool exits 0 and prints no ERROR line;
  faulted input  -> every tool exits non-zero (not by a signal), prints >= 1 ERROR line, prints no success marker and
                    leaves no artefact a user would take for a result (exppp: *.exp, exp2cxx: Sdai*.cc, exp2python: a
                    .py that compiles together with status 0);
  every run      -> exit status != 0  <=>  an ERROR line was printed;
  cross-tool     -> same verdict and the same multiset of (line, PE code) as check-express.
Keys: `<fault class> x <tool>|<symptom>`.

Reference-fault matrix (vf/c04_refs.py): one fixed schema, every syntactic CONTEXT (statement kinds of FUNCTION / PROCEDURE /
RULE / inner FUNCTION bodies, operator operands, entity / type / constant level expressions) x every reference KIND
(function, procedure, variable, attribute through each qualifier path and each SELECT member mix and order, entity in a
group qualifier, type / entity names in declarations).  Each case is a pair that differs in ONE name: the control must be
accepted, the faulted file rejected.  Constructs in which the unchanged tree swallows a fault (open findings) key as
`undefined reference <construct> x <tool>|accepted`; the fixed matrix is their deterministic probe and the seeded random
part of the matrix stays out of them.

Interface matrix (vf/c04_iface.py): multi-schema files in which items travel over USE FROM / REFERENCE FROM clauses - chains of
2-4 schemas, diamonds, fans, cycles x link style (partial, renamed, whole schema) x 1-5 items of every interfaceable kind - each
instantiated with permutations of the schema names over the roles and several file orders (which schema the resolver meets first
is the hash order of the names).  Valid shapes must be accepted by all four tools with their success marker and an output;
the same shapes with ONE hop broken must be rejected by all four.  Keys `valid interface <family> x <tool>|<symptom>`,
`<what the broken hop is> x <tool>|<symptom>`.
"""
LEVEL = 'fault_enumeration'
from .. import c04_faults as F
from .. import c04_run as R
from .. import c04_refs as Q
from .. import c04_iface as I
from .. import run

PER_FILE = 16

# ---- deterministic probes: fixed inputs that go through the same oracle (known findings are demonstrated on every run,
# ---- independent of what the seed happens to generate)
PROBE_VALID_NO_ATTR = ('valid schema without attributes',
                       'SCHEMA pv;\nTYPE t = INTEGER; END_TYPE;\nENTITY a;\nEND_ENTITY;\nENTITY b\n  SUBTYPE OF (a);\nEND_ENTITY;\nEND_SCHEMA;\n')
PROBE_CYCLE = ('subtype cycle', 'length 2',
               'SCHEMA pc;\nENTITY a\n  SUBTYPE OF (b);\n  x : INTEGER;\nEND_ENTITY;\nENTITY b\n  SUBTYPE OF (a);\n  y : INTEGER;\nEND_ENTITY;\n'
               'ENTITY c\n  SUBTYPE OF (b);\n  z : INTEGER;\nDERIVE\n  SELF\\a.x : INTEGER := 1;\nEND_ENTITY;\nEND_SCHEMA;\n')
# valid (ISO 10303-11 14.5: SELF inside an entity declaration is the instance); rejected by the unchanged tree (open finding)
PROBE_SELF_BOUND = ('SELF.attr in an aggregate bound of an attribute',
                    'SCHEMA ps;\nENTITY a;\n  x : INTEGER;\nEND_ENTITY;\nENTITY h;\n  n : INTEGER;\n  q : a;\n  az : LIST [1:SELF.n] OF INTEGER;\n'
                    '  cz : LIST [1:?] OF SET [0:SELF.q.x] OF INTEGER;\nDERIVE\n  dz : LIST [0:SELF.n] OF INTEGER := [1];\nEND_ENTITY;\nEND_SCHEMA;\n')


def fault_name(m):
    if m.cls == 'non-ASCII byte':
        return '%s %s' % (m.cls, m.variant)
    return m.cls


def judge_run(tr, cls):
    """Per-run invariant: exit != 0 <=> an ERROR line was printed.  -> [(key, what)]"""
    out = []
    if tr.r.timed_out or tr.r.sig:
        return out
    if (tr.r.rc != 0) != (tr.n_error_lines > 0):
        out.append(('%s x %s|status/diagnostic disagree: exit %s %s ERROR line' % (cls, tr.tool, 'non-zero' if tr.r.rc else '0',
                                                                                    'with' if tr.n_error_lines else 'without'),
                    'exit %s, %d ERROR lines: %s' % (tr.r.rc, tr.n_error_lines, tr.r.err[-400:])))
    return out


def judge_valid(trs, kind):
    out = []
    cls = 'valid %s' % kind
    for tr in trs:
        out += judge_run(tr, cls)
        v = tr.verdict
        if v == 'timeout':
            continue
        if v.startswith('signal'):
            out.append(('%s x %s|%s' % (cls, tr.tool, v), 'died on a valid input; stderr tail: %s' % tr.r.err[-300:]))
        elif v == 'rejected':
            out.append(('%s x %s|rejected (PE %s)' % (cls, tr.tool, ','.join('%03d' % c for c in sorted(set(tr.codes()))) or 'none'),
                        'exit %s: %s' % (tr.r.rc, [d.raw for d in tr.errors][:4])))
    out += cross_tool(trs, cls)
    return out


def judge_fault(trs, cls):
    out = []
    for tr in trs:
        out += judge_run(tr, cls)
        v = tr.verdict
        if v == 'timeout':
            continue
        if v.startswith('signal'):
            out.append(('%s x %s|%s' % (cls, tr.tool, v), 'died instead of rejecting; diagnostics before: %s' % [d.raw for d in tr.errors][:3]))
            continue
        if v == 'accepted':
            out.append(('%s x %s|accepted' % (cls, tr.tool), 'exit 0, %d ERROR lines, markers %s, files %s' % (tr.n_error_lines, tr.markers, tr.files[:5])))
        if tr.markers and v == 'rejected':
            out.append(('%s x %s|success marker printed on rejected input' % (cls, tr.tool), str(tr.markers)))
        art = tr.artefacts()
        if art and v == 'rejected':
            out.append(('%s x %s|artefact left' % (cls, tr.tool), 'exit %s but left %s' % (tr.r.rc, art[:5])))
    out += cross_tool(trs, cls)
    return out


def cross_tool(trs, cls):
    out = []
    ref = trs[0]
    if ref.verdict not in ('accepted', 'rejected'):
        return out
    rs = sorted((d.line, d.code) for d in ref.errors)
    for tr in trs[1:]:
        if tr.verdict not in ('accepted', 'rejected'):
            continue
        if tr.verdict != ref.verdict:
            out.append(('%s x %s|verdict differs from check-express' % (cls, tr.tool), '%s vs %s' % (tr.verdict, ref.verdict)))
        elif sorted((d.line, d.code) for d in tr.errors) != rs:
            out.append(('%s x %s|front-end diagnostics differ from check-express' % (cls, tr.tool),
                        '%s vs %s' % ([d.raw for d in tr.errors][:4], [d.raw for d in ref.errors][:4])))
    return out


def run_all(data):
    return [R.run_tool(t, data) for t in R.TOOLS]


def ref_matrix(chk, quick):
    cases = Q.cases(chk.seed, chk.tier)
    controls = sorted(set(c.valid for c in cases))
    # every control goes through check-express (the front end all four tools share); the three back ends take every
    # control in the thorough tier and a seed-rotated eighth of them in the quick tier
    step = 8 if quick else 1
    full = set(controls[chk.seed % step::step])

    def run_control(text):
        return text, [R.run_tool(t, text) for t in (R.TOOLS if text in full else R.TOOLS[:1])]
    cres = dict(run.pmap(run_control, controls))
    bres = run.pmap(lambda c: (c, run_all(c.bad)), cases)
    judged = set()
    for c, trs in bres:
        vtrs = cres[c.valid]
        if c.valid not in judged:
            judged.add(c.valid)
            chk.ev(len(vtrs))
            for tr in vtrs:
                chk.seen('valid', 'reference control', tr.tool, tr.verdict)
                chk.count('reference control runs %s: %s' % (tr.tool, tr.verdict))
                if tr.r.timed_out:
                    chk.inconc('watchdog fired: %s on control of %s / %s' % (tr.tool, c.context, c.kind))
            for key, what in judge_valid(vtrs, 'reference control'):
                chk.violation(key, what, {'input.exp': c.valid}, dict(case=c.describe(), runs=[tr.brief() for tr in vtrs]))
        cls = c.key_class
        chk.ev(len(trs))
        chk.tag('refs family %s' % c.family)
        chk.tag('refs fault:%s' % c.cls)
        chk.tag('refs kind:%s' % c.kind)
        if c.finding:
            chk.tag('refs open-finding construct:%s' % c.finding)
        for tr in trs:
            chk.seen('refs', c.cls, c.context, c.kind, tr.tool)
            chk.count('reference fault runs %s: %s' % (tr.tool, tr.verdict))
            if tr.r.timed_out:
                chk.inconc('watchdog fired: %s on %s / %s' % (tr.tool, c.context, c.kind))
        for key, what in judge_fault(trs, cls):
            chk.violation(key, '%s [%s / %s]' % (what, c.context, c.kind), {'input.exp': c.bad, 'valid_control.exp': c.valid},
                          dict(case=c.describe(), runs=[tr.brief() for tr in trs]))
        if c.family == 'C' and 'SELECT (a, b, col)' in c.kind and not c.finding and not getattr(chk, '_refs_sampled', False):
            chk._refs_sampled = True
            chk.sample(dict(kind='reference fault', case=c.describe(), faulted=[l for l in c.bad.split('\n') if Q.FRESH in l],
                            runs=[tr.brief() for tr in trs]), limit=6)
    chk.count('reference contexts', len(set(c.context for c in cases)))
    chk.count('reference kinds', len(set(c.kind for c in cases)))
    return len(cases)


def iface_matrix(chk, quick):
    """Multi-schema interface matrix (vf/c04_iface.py): valid shapes x naming permutations must be accepted by all four tools
    (and present their result), shapes with one broken hop must be rejected by all four."""
    # deterministic probe of the open finding (whole-schema REFERENCE of a schema that USEs items); the matrix lets the
    # importing schema use such items only when the tree under test resolves them in the probe
    pname, pcase = I.probe_ref_all()
    trs = run_all(pcase.text)
    chk.ev(len(trs))
    chk.count('probes_run')
    for tr in trs:
        chk.seen('probe', pname, tr.tool, tr.verdict)
    for key, what in judge_valid(trs, 'probe (%s)' % pname):
        chk.violation(key, what, {'input.exp': pcase.text}, dict(probe=pname, case=pcase.describe(), runs=[tr.brief() for tr in trs]))
    sees_used = all(tr.verdict == 'accepted' for tr in trs)
    chk.count('interface matrix: whole-schema REFERENCE over USEd items %s' % ('covered' if sees_used else 'masked (open finding)'))

    # second open finding: USE FROM <whole schema> also shows what that schema only REFERENCEs (invalid file accepted)
    fcase = I.probe_use_all_over_reference()
    trs = run_all(fcase.text)
    chk.ev(len(trs))
    chk.count('probes_run')
    for tr in trs:
        chk.seen('probe', fcase.spec.shape, tr.tool, tr.verdict)
    for key, what in judge_fault(trs, fcase.fault):
        chk.violation(key, what, {'input.exp': fcase.text}, dict(probe=fcase.spec.shape, case=fcase.describe(), runs=[tr.brief() for tr in trs]))
    leak = all(tr.verdict == 'accepted' for tr in trs)
    chk.count('interface matrix: whole-schema USE over REFERENCEd items %s' % ('masked (open finding)' if leak else 'covered'))
    # third: a constant in a partial REFERENCE list (the code generators take it for an entity); statically masked in the matrix
    pname, ptext = I.PROBE_REF_CONSTANT
    trs = run_all(ptext)
    chk.ev(len(trs))
    chk.count('probes_run')
    for tr in trs:
        chk.seen('probe', pname, tr.tool, tr.verdict)
    for key, what in judge_valid(trs, 'probe (%s)' % pname):
        chk.violation(key, what, {'input.exp': ptext}, dict(probe=pname, runs=[tr.brief() for tr in trs]))

    valid, faulted = I.cases(chk.seed, chk.tier, sees_used, leak)

    # every case goes through check-express (the front end all four tools share); quick tier: every third case also through ONE
    # of the three back ends (rotating with the case number and the seed), the first naming of every valid shape (every third
    # faulted shape) through all four; thorough tier: everything through all four
    def plan(cs, every):
        first, out = {}, []
        for i, c in enumerate(cs):
            if not quick:
                out.append((c, R.TOOLS))
            elif id(c.spec) not in first:
                first[id(c.spec)] = len(first)
                out.append((c, R.TOOLS if first[id(c.spec)] % every == 0 else R.TOOLS[:1]))
            elif (i + chk.seed) % 3 == 0:
                out.append((c, (R.TOOLS[0], R.TOOLS[1 + ((i + chk.seed) // 3) % 3])))
            else:
                out.append((c, R.TOOLS[:1]))
        return out

    def go(ct):
        return ct[0], [R.run_tool(t, ct[0].text) for t in ct[1]]
    vres = run.pmap(go, plan(valid, 1))
    sampled = set()
    for c, trs in vres:
        kind = 'interface %s' % c.spec.family
        chk.ev(len(trs))
        chk.tag('iface valid:%s' % c.spec.family)
        chk.tag('iface shape:%s' % c.spec.shape)
        chk.tag('iface schemas=%d' % len(c.spec.roles))
        for tr in trs:
            chk.seen('iface valid', c.spec.shape, tuple(c.names[r] for r in c.spec.roles), tuple(c.order), tr.tool, tr.verdict)
            chk.count('interface valid runs %s: %s' % (tr.tool, tr.verdict))
            if tr.r.timed_out:
                chk.inconc('watchdog fired: %s on valid interface case %s' % (tr.tool, c.spec.shape))
        out = judge_valid(trs, kind)
        for tr in trs:
            if tr.verdict != 'accepted':
                continue
            if not tr.markers:
                out.append(('valid %s x %s|accepted without its success marker' % (kind, tr.tool), (tr.r.out[-300:] + tr.r.err[-300:])))
            if tr.tool != 'check-express' and not (tr.artefacts() if tr.tool != 'exp2python' else [f for f in tr.files if f.endswith('.py')]):
                out.append(('valid %s x %s|accepted but nothing written' % (kind, tr.tool), 'files: %s' % tr.files[:8]))
        for key, what in out:
            chk.violation(key, '%s [%s; %s]' % (what, c.spec.shape, c.tag), {'input.exp': c.text}, dict(case=c.describe(), runs=[tr.brief() for tr in trs]))
        if c.spec.family not in sampled and len(sampled) < 2 and len(c.spec.roles) >= 3 and 'use <- use' in c.spec.shape + ' use <- use':
            sampled.add(c.spec.family)
            chk.sample(dict(kind='valid interface case', case=c.describe(), text=c.text, runs=[tr.brief() for tr in trs]), limit=8)
    fres = run.pmap(go, plan(faulted, 3))
    for c, trs in fres:
        cls = c.fault
        chk.ev(len(trs))
        chk.tag('iface fault:%s' % cls)
        chk.tag('iface fault shape:%s' % c.spec.shape)
        for tr in trs:
            chk.seen('iface fault', c.spec.shape, tuple(c.names[r] for r in c.spec.roles), tuple(c.order), tr.tool)
            chk.count('interface fault runs %s: %s' % (tr.tool, tr.verdict))
            if tr.r.timed_out:
                chk.inconc('watchdog fired: %s on faulted interface case %s' % (tr.tool, c.spec.shape))
        for key, what in judge_fault(trs, cls):
            chk.violation(key, '%s [%s; %s]' % (what, c.spec.shape, c.tag), {'input.exp': c.text}, dict(case=c.describe(), runs=[tr.brief() for tr in trs]))
    chk.count('interface shapes (valid)', len(set(c.spec.shape for c in valid)))
    chk.count('interface shapes (one hop broken)', len(set(c.spec.shape for c in faulted)))
    chk.count('interface namings (role -> schema name, file order)', len(set((tuple(c.names[r] for r in c.spec.roles), tuple(c.order)) for c in valid)))
    return len(valid), len(faulted)


CYCLE_NAMES = ['d', 'outer', 'pick', 'zz', 'choice', 'alpha', 'item_or_group', 'q1', 'my_select', 'top', 'x9', 'holder_sel', 'u', 'anything',
               'sel_a', 'sel_b', 'k', 'wrapper', 'container_item', 'omega', 'first', 'last', 'mid', 'n0']


def cycle_matrix(chk, quick):
    """Select cycles and subtype cycles beside / behind acyclic declarations, with the acyclic declaration (and the cycle members)
    under many names: a control without the cycle must be accepted, the file with the cycle rejected, by all four tools."""
    cases = []
    names = CYCLE_NAMES if not quick else CYCLE_NAMES[:16]
    for i, nm in enumerate(names):
        a, b = ('ca%d' % i, 'cb%d' % i) if i % 2 else ('m_%s' % nm, 'n_%s' % nm)
        ent = 'ENTITY e;\n  v : INTEGER;\nEND_ENTITY;\n'
        sel = 'TYPE %s = SELECT (%s, %s, e);\nEND_TYPE;\nTYPE %s = SELECT (%s);\nEND_TYPE;\nTYPE %s = SELECT (%s);\nEND_TYPE;\n'
        for order in (0, 1):
            decl = sel % (nm, a, b, a, '%s', b, '%s')
            if order:       # the outer select declared after the cycle members
                parts = decl.split('END_TYPE;\n')
                decl = 'END_TYPE;\n'.join(parts[1:3] + parts[:1]) + 'END_TYPE;\n'
            good = 'SCHEMA s;\n' + ent + decl % ('e', 'e') + 'END_SCHEMA;\n'
            bad = 'SCHEMA s;\n' + ent + decl % (b + ', e', a + ', e') + 'END_SCHEMA;\n'
            cases.append(('select cycle beside an acyclic select that lists its members', good, bad))
            # the same in a schema made of types only (entities, functions and constants restart the checkers' visit marks)
            lbl = 'TYPE lbl = STRING;\nEND_TYPE;\nTYPE len = REAL;\nEND_TYPE;\n'
            tdecl = decl.replace(', e)', ', lbl)')
            good = 'SCHEMA s;\n' + lbl + tdecl % ('lbl', 'len') + 'END_SCHEMA;\n'
            bad = 'SCHEMA s;\n' + lbl + tdecl % (b + ', lbl', a + ', len') + 'END_SCHEMA;\n'
            cases.append(('select cycle beside an acyclic select that lists its members, schema of types only', good, bad))
        sub = ('ENTITY %s;\n  v : INTEGER;\nEND_ENTITY;\nENTITY %s SUBTYPE OF (%s%s);\nEND_ENTITY;\nENTITY %s SUBTYPE OF (%s);\nEND_ENTITY;\n'
               'ENTITY t_%s SUBTYPE OF (%s);\nEND_ENTITY;\n')
        good = 'SCHEMA s;\n' + sub % (nm, a, nm, '', b, a, nm, b) + 'END_SCHEMA;\n'
        bad = 'SCHEMA s;\n' + sub % (nm, a, nm, ', ' + b, b, a, nm, b) + 'END_SCHEMA;\n'
        cases.append(('subtype cycle below an acyclic supertype', good, bad))

    def work(c):
        cls, good, bad = c
        return c, run_all(good), run_all(bad)
    for (cls, good, bad), tg, tb in run.pmap(work, cases):
        chk.ev(len(tg) + len(tb))
        chk.seen('cycle matrix', cls, hash(bad) % 97)
        for key, what in judge_valid(tg, 'control of: ' + cls):
            chk.violation(key, what, {'in.exp': good}, dict(family='cycle matrix'))
        for key, what in judge_fault(tb, cls):
            chk.violation(key, what, {'in.exp': bad}, dict(family='cycle matrix'))
    chk.count('cycle matrix cases', len(cases))
    return len(cases)


def main(chk):
    quick = chk.tier == 'quick'
    n_valid, n_multi = (40, 10) if quick else (600, 150)
    R.tools_dir()
    files = F.valid_corpus(chk.seed, n_valid, n_multi)
    muts = [m for m in F.plan(files, chk.seed, PER_FILE) if m.c04]

    # ---- valid inputs
    vres = run.pmap(lambda f: (f, run_all(f.text())), files)
    for f, trs in vres:
        kind = 'multi-schema file' if len(f.schemas) > 1 else 'single schema'
        chk.ev(len(trs))
        for t in f.tags:
            chk.tag('valid:' + t)
        for tr in trs:
            chk.seen('valid', kind, tr.tool, tr.verdict)
            chk.count('valid runs %s: %s' % (tr.tool, tr.verdict))
            if tr.r.timed_out:
                chk.inconc('watchdog fired: %s on valid %s' % (tr.tool, f.name))
        for key, what in judge_valid(trs, kind):
            chk.violation(key, what, {'input.exp': f.text()}, dict(file=f.name, runs=[tr.brief() for tr in trs]))
        if len(chk.samples) < 2:
            chk.sample(dict(kind='valid ' + kind, file=f.name, tags=sorted(f.tags), head=f.text()[:500], runs=[tr.brief() for tr in trs]))

    # ---- thorough: the schemas shipped with the repository are valid inputs too
    if not quick:
        import glob
        import os
        from .. import build
        shipped = sorted(glob.glob(os.path.join(build.REPO, 'data', '*', '*.exp')))

        def ship(path):
            with open(path, 'rb') as f:
                data = f.read()
            return path, [R.run_tool(t, data, name=os.path.basename(path), timeout=900) for t in R.TOOLS]
        for path, trs in run.pmap(ship, shipped, jobs=4):
            chk.ev(len(trs))
            chk.tag('valid:shipped schema')
            for tr in trs:
                chk.seen('valid', 'shipped ' + os.path.basename(path), tr.tool, tr.verdict)
                chk.count('shipped runs %s: %s' % (tr.tool, tr.verdict))
                if tr.r.timed_out:
                    chk.inconc('watchdog fired: %s on %s' % (tr.tool, path))
            for key, what in judge_valid(trs, 'shipped schema'):
                chk.violation(key, what, {'path.txt': path}, dict(file=path, runs=[tr.brief() for tr in trs]))

    # ---- faulted inputs
    mres = run.pmap(lambda m: (m, run_all(m.text)), muts)
    shown = set()
    for m, trs in mres:
        cls = fault_name(m)
        chk.ev(len(trs))
        chk.tag('fault:' + m.cls)
        chk.tag('fault:%s / %s' % (m.cls, m.variant))
        for tr in trs:
            chk.seen(m.cls, m.variant, tr.tool)
            chk.count('fault runs %s: %s' % (tr.tool, tr.verdict))
            if tr.r.timed_out:
                chk.inconc('watchdog fired: %s on %s of %s' % (tr.tool, m.cid, m.base.name))
        for key, what in judge_fault(trs, cls):
            chk.violation(key, what, {'input.exp': m.text, 'valid_base.exp': m.base.text()},
                          dict(mutant=m.describe(), base=m.base.name, runs=[tr.brief() for tr in trs]))
        if m.cid not in shown and len(chk.samples) < 5 and m.cid in ('undef_type', 'dup_attribute', 'drop_semicolon'):
            shown.add(m.cid)
            chk.sample(dict(kind='mutant', mutant=m.describe(), base=m.base.name, runs=[tr.brief() for tr in trs]))

    # ---- reference faults: context x qualifier-path matrix (control + faulted file per case)
    n_refs = ref_matrix(chk, quick)

    # ---- multi-schema interface matrix: shapes x link styles x item kinds x naming permutations
    n_ifv, n_iff = iface_matrix(chk, quick)

    # ---- cycles that are reached through (or stand beside) acyclic declarations of the same scope, under many namings: the
    # checkers walk the declarations in dictionary (hash) order and keep visited marks
    n_cyc = cycle_matrix(chk, quick)

    # ---- probes
    name, text = PROBE_VALID_NO_ATTR
    trs = run_all(text)
    chk.ev(len(trs))
    chk.count('probes_run')
    for key, what in judge_valid(trs, 'probe (%s)' % name):
        chk.violation(key, what, {'input.exp': text}, dict(probe=name, runs=[tr.brief() for tr in trs]))
    for tr in trs:
        chk.seen('probe', name, tr.tool, tr.verdict)
        if tr.verdict == 'accepted' and not tr.markers:
            chk.violation('valid probe x %s|accepted without its success marker' % tr.tool, tr.r.out[-300:] + tr.r.err[-300:], {'input.exp': text})
    name, text = PROBE_SELF_BOUND
    trs = run_all(text)
    chk.ev(len(trs))
    chk.count('probes_run')
    for tr in trs:
        chk.seen('probe', name, tr.tool, tr.verdict)
    for key, what in judge_valid(trs, 'probe (%s)' % name):
        chk.violation(key, what, {'input.exp': text}, dict(probe=name, runs=[tr.brief() for tr in trs]))
    cls, variant, text = PROBE_CYCLE
    trs = run_all(text)
    chk.ev(len(trs))
    chk.count('probes_run')
    for key, what in judge_fault(trs, cls):
        chk.violation(key, what, {'input.exp': text}, dict(probe='%s / %s' % (cls, variant), runs=[tr.brief() for tr in trs]))

    return chk.finish(
        rule='valid files from vf/c04_faults.valid_corpus (seeded; %d of %d multi-schema with USE/REFERENCE) and %d single-fault mutants per file '
             'rotating over %d fault classes; each input x 4 tools; distinct_nontrivial = distinct (fault class, variant, tool) resp. '
             '(valid kind, tool, verdict) triples judged; plus %d reference-fault cases of vf/c04_refs.py (fixed matrices context x '
             'reference kind x qualifier path / SELECT member mix, and seeded picks from the full product), each a control/faulted pair '
             'differing in one name, faulted file x 4 tools; distinct = (class, context, kind, tool); plus the multi-schema interface '
             'matrix of vf/c04_iface.py: %d valid files (chains of 2-4 schemas, diamonds, fans, cycles x link style USE / USE AS / '
             'whole-schema USE / REFERENCE / REFERENCE AS / whole-schema REFERENCE x 1-5 items of every interfaceable kind x '
             'permutations of the schema names over the roles x file orders) and %d files with one hop broken; distinct = (shape, '
             'role naming, file order, tool)'
             % (n_multi, n_valid, PER_FILE, len(F.CLASS_IDS) - 1, n_refs, n_ifv, n_iff),
        assumptions=['generated valid files are valid EXPRESS and each mutant is invalid by construction (vf/c04_faults.py)',
                     'tools are taken from the plain (RelWithDebInfo) build of the current working tree',
                     'exp2python dies (SIGABRT) on valid schemas (entity attribute: strdup without prototype, C18; renamed USE/REFERENCE item: NULL '
                     'FILE): those runs are reported under the keys "valid single schema / valid multi-schema file x exp2python|signal 6"; its '
                     'success path is observed on the attribute-less probe and on every schema it does not die on',
                     'wrong argument count in a call is diagnosed by stepcode as a WARNING and is judged by C20 only',
                     'reference matrix: the control of each case is valid EXPRESS and the faulted file differs from it only by one identifier '
                     'that is declared nowhere; quick tier runs the three back ends on an eighth of the controls (all go through check-express)',
                     'interface matrix: visibility follows ISO 10303-11 clause 11 (a USEd item may be handed on, a REFERENCEd one may not; '
                     'whole-schema USE / REFERENCE show what the schema declares or has USEd; functions, procedures and constants only by '
                     'REFERENCE from the declaring schema); the same object reached by two routes is one object; quick tier: each case x '
                     'check-express, every third also x one rotating back end, first naming of each valid shape x all four tools'])
