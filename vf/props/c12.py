"""C12 - generators and the pretty printer are deterministic functions of their input.

For every (tool, schema) the tool is run once plainly (the base run) and then once per configuration of a
matrix that varies exactly one factor; the recursive output tree (path -> SHA-256, plus exit status) of every
run must equal the base run's.  Factors: nothing (repeated run), ASLR off (setarch -R), heap layout and heap
garbage (LD_PRELOAD of harness/mshim.c with two different seeds), working directory, spelling of the input
path (absolute / relative / ./../in/a/../a/x.exp / through a symbolic link), 100 kB of extra environment,
LC_ALL in {C, C.UTF-8, POSIX}, and an earlier run of the same tool on a different schema in the same directory.
Flavour 'plain' (the bytes users get).

A difference is keyed  <tool>|<schema feature>|<varied factor>|bytes differ in <file class>.  A difference that
already shows between two plain runs is reported once, under 'repeated run' (the weakest factor), and not again
under every other configuration that trivially shows it too; any *other* line class or file class that differs
under a later configuration is still reported under that configuration's factor.
"""
import collections
import os
import random
import re

import shutil
from .. import build, run, gen_schema
from .. import c12_util as U

LEVEL = 'exploration'

# ---------------------------------------------------------------------------------------------- matrix
CONFIGS = [
    dict(name='again', factor='repeated run'),
    dict(name='aslr_off', factor='address-space layout', aslr_off=True),
    dict(name='shim_a', factor='heap layout and fill', shim=0),
    dict(name='shim_b', factor='heap layout and fill', shim=1, aslr_off=True),
    dict(name='cwd', factor='working directory', cwd='other'),
    dict(name='rel', factor='input path spelling', path='rel'),
    dict(name='dotted', factor='input path spelling', path='dotted'),
    dict(name='symlink', factor='input path spelling', path='symlink'),
    dict(name='env100k', factor='environment size', envpad=100 * 1024),
    # EXPRESS_PATH names a directory that holds ANOTHER schema file of the same name: the file named on the command line is the input
    dict(name='expath_bare', factor='EXPRESS_PATH naming a directory with a like-named file', expath='bare'),
    dict(name='expath_dot', factor='EXPRESS_PATH naming a directory with a like-named file', expath='dot'),
    dict(name='expath_abs', factor='EXPRESS_PATH naming a directory with a like-named file', expath='abs'),
    dict(name='mtime_old', factor='time stamp of the input file', mtime=86400 * 400),
    dict(name='mtime_future', factor='time stamp of the input file', mtime=-86400 * 3),
    dict(name='tz_east', factor='TZ', tz='AAA-14'),
    dict(name='tz_west', factor='TZ', tz='BBB+12'),
    dict(name='lc_c', factor='LC_ALL', lc='C'),
    dict(name='lc_utf8', factor='LC_ALL', lc='C.UTF-8'),
    dict(name='lc_posix', factor='LC_ALL', lc='POSIX'),
    dict(name='after_other', factor='earlier run in same directory', after=True),
    # the SAME schema once more in the same directory: the second run meets its own output (exppp decides whether an existing
    # <schema>.exp is its own by looking at the banner; generators overwrite)
    dict(name='after_same', factor='earlier run in same directory', after_same=True),
]

# the schema run first in the 'after_other' configuration (every kind of per-schema file gets written)
OTHER_SCHEMA = """SCHEMA c12_earlier_schema;
TYPE tint = INTEGER; END_TYPE;
TYPE hue = ENUMERATION OF (red, green); END_TYPE;
TYPE pick = SELECT (thing, tint); END_TYPE;
ENTITY thing;
  nm : STRING;
  h : OPTIONAL hue;
END_ENTITY;
ENTITY holder SUBTYPE OF (thing);
  p : LIST [0:3] OF pick;
END_ENTITY;
END_SCHEMA;
"""

# Deterministic probe of the open finding "non-literal aggregate bound" (the randomized generators only emit
# literal bounds - that is the documented mask; the shipped schemas and this probe exercise the feature).
PROBE_BOUNDS = """SCHEMA c12_bound_probe;
CONSTANT
  maxn : INTEGER := 4;
  maxn2 : INTEGER := maxn;
  maxn3 : INTEGER := maxn * 2 + 1;
  maxn4 : INTEGER := c12_twice(maxn);
END_CONSTANT;
FUNCTION c12_twice(n : INTEGER) : INTEGER;
  RETURN (n * 2);
END_FUNCTION;
TYPE vec = ARRAY [1:maxn] OF REAL; END_TYPE;
TYPE vec2 = LIST [1:maxn2] OF REAL; END_TYPE;
TYPE vec3 = BAG [0:maxn3] OF INTEGER; END_TYPE;
TYPE vec4 = SET [1:maxn4] OF STRING; END_TYPE;
ENTITY curve;
  pts : LIST [2:?] OF REAL;
  w : ARRAY [0:maxn] OF INTEGER;
DERIVE
  upper : INTEGER := SIZEOF(pts) - 1;
  arr : ARRAY [0:upper] OF REAL := pts;
END_ENTITY;
ENTITY mesh;
  cnt : INTEGER;
  v : vec;
  v2 : vec2;
  v3 : OPTIONAL vec3;
  v4 : vec4;
  w4 : LIST [0:maxn4] OF REAL;
END_ENTITY;
ENTITY smesh SUBTYPE OF (mesh);
  counts : ARRAY [1:SELF\\mesh.cnt] OF INTEGER;
END_ENTITY;
END_SCHEMA;
"""

# Deterministic probe of the open finding "scanner names its output directory after the input path":
# the file lives in .../data/geo/<long name>.exp and is also reachable through a link outside data/.
# text that is copied into generated files: printf conversions in literals and names must come out as written
PROBE_PERCENT = """SCHEMA c12_percent_probe;
CONSTANT
  fmt : STRING := 'share: %5d%% (%d of %d) at %p %x %ld %10s|';
END_CONSTANT;
TYPE pct = REAL;
WHERE
  wr1 : (SELF >= 0.0) AND ('100%' <> '%d %d %d %d %d %d');
END_TYPE;
ENTITY e;
  a : pct;
  b : STRING;
UNIQUE
  ur1 : b;
WHERE
  wr1 : b <> '%d%d%d%d%d%d%d%d %x %x %x %x %lu %lu %c';
END_ENTITY;
FUNCTION f(n : INTEGER) : STRING;
  RETURN ('%d items, %d%% done, %5.2f %e %g');
END_FUNCTION;
RULE r FOR (e);
WHERE
  wr1 : SIZEOF(QUERY(x <* e | x.b = '%d %d %d %d')) = 0;
END_RULE;
END_SCHEMA;
"""

PROBE_DATADIR = """SCHEMA c12_scanner_dirname_probe_schema;
ENTITY point; x : REAL; END_ENTITY;
END_SCHEMA;
"""


class Item(object):
    """One (tool, schema) work item."""

    def __init__(self, tool, name, text, fname, tags=(), src=None, subdir=('in', 'a'), fileset_feature=None):
        self.tool, self.name, self.text, self.fname, self.tags, self.src, self.subdir = tool, name, text, fname, tuple(tags), src, subdir
        self.fileset_feature = fileset_feature   # probes only: the input feature a difference in the SET of paths is attributed to
        self.idx = None
        self.only = None      # None = whole matrix, else the configuration names this work item runs


# ---------------------------------------------------------------------------------------------- classification
def file_class(tool, rel):
    if rel.endswith('/'):
        return 'directory'
    b = os.path.basename(rel)
    if tool == 'exp2cxx':
        d = os.path.dirname(rel)
        if d in ('entity', 'type'):
            return '%s %s' % (d, 'impl' if b.endswith('.cc') else 'header')
        if '_unity_' in b:
            return 'unity list'
        if b in ('SdaiAll.cc', 'compstructs.cc', 'schema.cc', 'schema.h', 'Sdaiclasses.h'):
            return 'fixed file ' + b
        if b.endswith('.init.cc'):
            return 'schema init'
        if b.endswith('Names.h'):
            return 'names header'
        if b.startswith('Sdai') and b.endswith('.cc'):
            return 'schema impl'
        if b.startswith('Sdai') and b.endswith('.h'):
            return 'schema header'
        return 'other file'
    if tool == 'schema_scanner':
        return 'CMakeLists.txt' if b == 'CMakeLists.txt' else 'other file'
    if tool == 'exp2python':
        return 'python module' if b.endswith('.py') else 'other file'
    if tool == 'exppp':
        return 'express text' if b.endswith('.exp') else 'other file'
    return 'other file'


def norm_line(s):
    s = re.sub(r'0x[0-9a-fA-F]+', 'H', s)
    s = re.sub(r'\b(?=[0-9a-fA-F]*\d)(?=[0-9a-fA-F]*[a-fA-F])[0-9a-fA-F]{4,}\b', 'H', s)     # bare hexadecimal runs (a5a5, 7ffe12ab)
    s = re.sub(r'-?\d+', 'N', s)
    s = re.sub(r'\s+', ' ', s).strip()
    return s[:60]


_BOUND = re.compile(r'^(\s*[\w:]+->SetBound[12]\( )-?\d+( \);)$')


def line_feature(tool, now, base, ctx):
    """Schema feature / line class that a pair of differing lines belongs to (base may be None)."""
    if tool == 'exp2cxx' and base is not None:
        a, b = _BOUND.match(now), _BOUND.match(base)
        if a and b and a.group(1) == b.group(1):
            return 'non-literal aggregate bound'     # same statement, only the number differs
    if tool == 'schema_scanner' and base is not None and now.startswith('SCHEMA_TARGETS("'):
        if ctx.get('now_path') and now == base.replace('"%s"' % ctx['base_path'], '"%s"' % ctx['now_path'], 1):
            return 'any schema'                       # the only difference is the echoed input path
    return 'line: ' + norm_line(now if now else (base or ''))


def differing_lines(a_path, b_path, limit=40):
    """[(line_now|None, line_base|None)] for two files (now, base)."""
    try:
        a = U.read_text(a_path).split('\n')
    except OSError:
        a = None
    try:
        b = U.read_text(b_path).split('\n')
    except OSError:
        b = None
    if a is None or b is None:
        return [(None, None)]
    if len(a) == len(b):
        out = [(x, y) for x, y in zip(a, b) if x != y]
        if len(out) > 3 and collections.Counter(a) == collections.Counter(b):
            return [(REORDERED, REORDERED)]
        return out[:limit]
    ca, cb = collections.Counter(a), collections.Counter(b)
    only_a = list((ca - cb).elements())[:limit // 2]
    only_b = list((cb - ca).elements())[:limit // 2]
    return [(x, None) for x in only_a] + [(None, y) for y in only_b] or [(None, None)]


REORDERED = '\0same lines in a different order'
MAX_LINE_FEATURES_PER_CONFIG = 6
MAX_LINE_FEATURES_PER_FILE = 3      # a reordering or a shifted block differs in hundreds of lines: name the first few classes only


# ---------------------------------------------------------------------------------------------- one work item
class Ctx(object):
    pass


def run_item(g, it):
    """Run the matrix for one (tool, schema).  Returns dict(findings=[...], stats)."""
    tool = it.tool
    root = os.path.join(g.scratch, 'w%d' % it.idx)
    ind = os.path.join(root, *it.subdir)
    os.makedirs(ind)
    inp = os.path.join(ind, it.fname)
    with open(inp, 'w') as f:
        f.write(it.text)
    other_dir = os.path.join(root, 'in', 'b')
    os.makedirs(other_dir, exist_ok=True)
    other = os.path.join(other_dir, 'c12_earlier_input.exp')
    with open(other, 'w') as f:
        f.write(OTHER_SCHEMA)
    os.symlink(os.path.relpath(ind, root), os.path.join(root, 'lnk'))
    cwd_main = os.path.join(root, 'r')
    cwd_other = os.path.join(root, 'elsewhere', 'deeper', 'r')
    base_keep = os.path.join(root, 'base')
    exe = g.tools[tool]
    res = dict(findings=[], runs=0, files=0, base_files=0, base_rc=None, timeouts=[], configs=[])

    def one(cfg, keep_cwd=False, target=None):
        cwd = cwd_other if cfg.get('cwd') == 'other' else cwd_main
        if not keep_cwd:
            U.fresh(cwd)
        pk = cfg.get('path', 'abs')
        if target is not None:
            path = target
        elif pk == 'abs':
            path = inp
        elif pk == 'rel':
            path = os.path.relpath(inp, cwd)
        elif pk == 'dotted':
            rp = os.path.relpath(inp, cwd)                      # ../in/a/x.exp
            path = './' + os.path.join(os.path.dirname(rp), '..', os.path.basename(os.path.dirname(rp)), os.path.basename(rp))
        else:
            path = os.path.join(root, 'lnk', it.fname)
        env = dict(g.env)
        if cfg.get('envpad'):
            n = cfg['envpad'] // 2048
            for i in range(n):
                env['VERIF_C12_PAD_%02d' % i] = 'x' * 2048
        if cfg.get('lc'):
            env['LC_ALL'] = cfg['lc']
        if cfg.get('tz'):
            env['TZ'] = cfg['tz']
        if cfg.get('mtime'):
            import time as _t
            when = _t.time() - cfg['mtime']
            os.utime(inp, (when, when))
        incopy = None
        if cfg.get('expath'):
            decoy = os.path.join(root, 'decoy')
            os.makedirs(decoy, exist_ok=True)
            if cfg['expath'] != 'abs':
                # the input is named the way a user in its directory would: a copy sits in the working directory
                incopy = os.path.join(cwd, 'c12_input_copy.exp')
                shutil.copyfile(inp, incopy)
                path = {'bare': 'c12_input_copy.exp', 'dot': './c12_input_copy.exp'}[cfg['expath']]
            with open(os.path.join(decoy, os.path.basename(path)), 'w') as f:
                f.write(OTHER_SCHEMA)
            env['EXPRESS_PATH'] = decoy
        if cfg.get('shim') is not None:
            env['LD_PRELOAD'] = g.shim
            env['MSHIM_SEED'] = str(g.shim_seeds[cfg['shim']])
        cmd = [exe, path]
        if cfg.get('aslr_off'):
            cmd = g.setarch + cmd
        r = run.run(cmd, cwd=cwd, env=env, timeout=g.timeout)
        if r.timed_out:   # a watchdog firing is re-run once before it is reported
            if not keep_cwd:
                U.fresh(cwd)
                r = run.run(cmd, cwd=cwd, env=env, timeout=g.timeout * 2)
        res['runs'] += 1
        if incopy is not None and os.path.exists(incopy):
            os.unlink(incopy)
        return r, cwd, path

    # ---- base run
    rb, cwd, base_path = one({})
    if rb.timed_out:
        res['timeouts'].append('base')
        return res
    base_tree = U.tree(cwd)
    res['files'] += len(base_tree)
    res['base_files'] = len([p for p in base_tree if not p.endswith('/')])
    res['base_rc'] = rb.sig and ('signal %d' % rb.sig) or ('exit %s' % rb.rc)
    res['base_err'] = rb.err[-300:] if (rb.rc or rb.sig) else ''
    os.rename(cwd, base_keep)
    explained = set()     # (feature, file class) already seen between two plain runs

    def report(cfg, feature, fclass, symptom, sample, now_path):
        k = (feature, fclass, symptom)
        if cfg['name'] != 'again' and k in explained:
            res.setdefault('subsumed', 0)
            res['subsumed'] += 1
            return
        if cfg['name'] == 'again':
            explained.add(k)
        key = '%s|%s|%s|%s' % (tool, feature, cfg['factor'], symptom)
        res['findings'].append(dict(key=key, config=cfg['name'], sample=sample, now_path=now_path, base_path=base_path))

    for cfg in g.configs:
        if it.only is not None and cfg['name'] not in it.only:
            continue
        if tool == 'schema_scanner' and cfg.get('expath') in ('bare', 'dot'):
            continue    # the scanner names directories and targets after the input FILE: a copy under another name is another input
        ctx = dict(base_path=base_path)
        if cfg.get('after'):
            U.fresh(cwd_main)
            r0, cwd, _p = one(cfg, keep_cwd=True, target=other)
            tree_b = U.tree(cwd)
            r, cwd, now_path = one(cfg, keep_cwd=True)
            if r.timed_out or r0.timed_out:
                res['timeouts'].append(cfg['name'])
                continue
            t = U.tree(cwd)
            res['files'] += len(t)
            full = t
            # files left by the earlier run and untouched by this one are not output of this run
            t = {p: h for p, h in full.items() if p in base_tree or tree_b.get(p) != h}
            for p in sorted(set(tree_b) - set(full)):
                report(cfg, 'any schema', file_class(tool, p), 'removes a file written by the earlier run', p, now_path)
        elif cfg.get('after_same'):
            U.fresh(cwd_main)
            r0, cwd, _p = one(cfg, keep_cwd=True)
            r, cwd, now_path = one(cfg, keep_cwd=True)
            if r.timed_out or r0.timed_out:
                res['timeouts'].append(cfg['name'])
                continue
            t = U.tree(cwd)
            res['files'] += len(t)
        else:
            r, cwd, now_path = one(cfg)
            if r.timed_out:
                res['timeouts'].append(cfg['name'])
                continue
            t = U.tree(cwd)
            res['files'] += len(t)
        ctx['now_path'] = now_path
        res['configs'].append(cfg['name'])
        if (r.rc, r.sig) != (rb.rc, rb.sig):
            report(cfg, 'exit status', 'process', 'exit status differs',
                   'base: exit %s signal %s; %s: exit %s signal %s; stderr tail: %r' % (rb.rc, rb.sig, cfg['name'], r.rc, r.sig, r.err[-300:]), now_path)
        if t == base_tree:
            continue
        only_now = sorted(set(t) - set(base_tree))
        only_base = sorted(set(base_tree) - set(t))
        if only_now or only_base:
            classes = sorted(set(file_class(tool, p) for p in only_now + only_base))
            report(cfg, it.fileset_feature or 'output file set', ','.join(classes), 'set of output paths differs (%s)' % ', '.join(classes),
                   'only in base run: %s; only in %s run: %s' % (only_base[:6], cfg['name'], only_now[:6]), now_path)
        ndiag = 0
        line_feats = set()    # unclassified line classes named under this configuration (bounded: a broken tree differs everywhere)
        for p in sorted(base_tree):
            if p in t and t[p] != base_tree[p]:
                fc = file_class(tool, p)
                if ndiag >= 400:     # enough files diagnosed line by line; the rest only by class
                    report(cfg, 'line: (not diagnosed)', fc, 'bytes differ in ' + fc, p, now_path)
                    continue
                ndiag += 1
                pairs = differing_lines(os.path.join(cwd, p), os.path.join(base_keep, p))
                seen_f = set()
                for now, base in pairs:
                    if len(seen_f) >= MAX_LINE_FEATURES_PER_FILE:
                        break
                    if now == REORDERED:
                        feat, now, base = 'order of output lines', '(same lines, different order)', '(same lines, different order)'
                    elif now is None and base is None:
                        feat = 'line: (unreadable or only line ends differ)'
                    else:
                        feat = line_feature(tool, now or '', base, ctx) if now is not None else line_feature(tool, '', base, ctx)
                    if feat in seen_f:
                        continue
                    seen_f.add(feat)
                    if feat.startswith('line:'):
                        if feat not in line_feats and len(line_feats) >= MAX_LINE_FEATURES_PER_CONFIG:
                            res['unlisted'] = res.get('unlisted', 0) + 1
                            continue
                        line_feats.add(feat)
                    report(cfg, feat, fc, 'bytes differ in ' + fc, '%s: %r (base run) vs %r (%s run)' % (p, base, now, cfg['name']), now_path)
    return res


# ---------------------------------------------------------------------------------------------- workload
def workload(chk):
    quick = chk.tier == 'quick'
    items = []
    schemas = []     # (name, text, fname, tags, src)
    for p in U.shipped_schemas():
        schemas.append((os.path.relpath(p, build.REPO), U.read_text(p), os.path.basename(p), ('shipped',), p))
    n_gen = 20 if quick else 300
    for s in gen_schema.corpus(chk.seed, n_gen, prefix='d'):
        schemas.append((s.name, s.text(), s.name + '.exp', ('generated',) + tuple(sorted(s.tags)), None))
    try:
        from .. import c17_gen
        n17 = 12 if quick else 150
        for s in c17_gen.corpus(chk.seed, n17, prefix='n'):
            schemas.append((s.name, s.text(), s.fname, ('generated', 'naming') + tuple(sorted(s.tags)), None))
    except ImportError:
        pass
    schemas.append(('probe:bounds', PROBE_BOUNDS, 'c12_bound_probe.exp', ('probe', 'non-literal aggregate bound'), None))
    schemas.append(('probe:percent', PROBE_PERCENT, 'c12_percent_probe.exp', ('probe', 'printf conversions in schema text'), None))
    for name, text, fname, tags, src in schemas:
        for tool in U.TOOLS:
            if tool == 'exp2python' and 'multi_schema' in tags:
                # exp2python does not terminate on some multi-schema files (endless loop over renamed simple types of a
                # not yet processed schema) and aborts on the others; a watchdog timeout is inconclusive, not a C12
                # verdict (termination is C06), so these pairs are not run.
                chk.count('masked:exp2python on generated multi-schema file')
                continue
            drop = ()
            if quick and 'shipped' in tags:
                # quick tier, shipped schemas: one LC_ALL value, and for exp2cxx (seconds per run, thousands of files) one
                # spelling of a relative path; generated schemas and probes always get the whole matrix
                drop = ('lc_c', 'lc_posix', 'expath_dot', 'expath_abs', 'shim_b', 'env100k', 'mtime_future', 'tz_west') + (('dotted', 'symlink', 'after_other') if tool == 'exp2cxx' else ())
            names = [c['name'] for c in CONFIGS if c['name'] not in drop]
            if tool == 'exp2cxx' and len(text) > 400000:
                # the largest inputs: split the matrix over several work items (each with its own base and repeated run)
                rest = [n for n in names if n != 'again']
                k = 2 if quick else 3
                for j in range(k):
                    it = Item(tool, name, text, fname, tags, src)
                    it.only = ['again'] + rest[j::k]
                    items.append(it)
                continue
            it = Item(tool, name, text, fname, tags, src)
            if drop:
                it.only = names
            items.append(it)
    # scanner directory-name probe: input under .../data/geo/
    items.append(Item('schema_scanner', 'probe:datadir', PROBE_DATADIR, 'c12_scanner_dirname_probe_input.exp',
                      ('probe', 'input below a directory named data'), None, subdir=('in', 'data', 'geo'),
                      fileset_feature='input below a directory named data'))
    items.sort(key=lambda it: (-len(it.text), it.name, it.tool))
    for i, it in enumerate(items):
        it.idx = i
    return items


def factor_selftest(chk, g):
    """Show that the two layout factors really vary something (heap address of a trivial process)."""
    def heap(extra_env, pre):
        r = run.run(pre + ['/bin/cat', '/proc/self/maps'], env=dict(g.env, **extra_env), timeout=20)
        m = re.search(r'^([0-9a-f]+)-[0-9a-f]+ .*\[heap\]', r.out, re.M)
        return m.group(1) if m else None
    a, b = heap({}, []), heap({}, [])
    c, d = heap({}, g.setarch), heap({}, g.setarch)
    chk.extra['factor_selftest'] = dict(heap_base_aslr_on=[a, b], heap_base_aslr_off=[c, d])
    if c is None or c != d:
        return 'setarch -R does not switch address-space randomisation off here'
    if a == b == c:
        chk.extra['factor_selftest']['note'] = 'ASLR appears to be off system-wide; the shim is the only layout factor'
    return None


def main(chk):
    g = Ctx()
    g.bdir, g.tools = U.tool_paths('plain')
    env = build.env(g.bdir)
    for k in list(env):
        if k.startswith('LC_') or k in ('LANG', 'LANGUAGE', 'LD_PRELOAD'):
            del env[k]
    g.env = env
    g.timeout = 90
    g.setarch = ['setarch', os.uname().machine, '-R']
    rng = random.Random('c12/%d/shim' % chk.seed)
    g.shim_seeds = rng.sample(range(1, 1 << 30), 2)
    g.configs = list(CONFIGS)
    items = workload(chk)
    with U.Scratch('c12') as sc:
        g.scratch = sc.d
        g.shim = U.build_shim(sc.d)
        why = factor_selftest(chk, g)
        if why:
            chk.inconc(why)
            g.configs = [c for c in g.configs if not c.get('aslr_off')]
        results = run.pmap(lambda it: (it, run_item(g, it)), items)
    per_key_first = {}
    for it, res in results:
        chk.ev(res['runs'])
        chk.count('files_hashed', res['files'])
        chk.count('tool_runs:' + it.tool, res['runs'])
        chk.count('differences_already_explained_by_repeated_run', res.get('subsumed', 0))
        chk.count('further_line_classes_not_listed', res.get('unlisted', 0))
        for c in res['configs']:
            chk.tag('%s x %s' % (it.tool, c))
        for tname in res['timeouts']:
            chk.inconc('watchdog fired twice: %s on %s, configuration %s' % (it.tool, it.name, tname))
        if res['base_files'] >= 1:
            chk.seen(it.tool, it.name)
            chk.tag('tool:' + it.tool)
            for tg in it.tags:
                chk.tag('schema:' + tg)
        else:
            chk.count('base_tree_empty:' + it.tool)
        if res['base_rc'] not in ('exit 0', None):
            chk.count('base_run_%s:%s' % (res['base_rc'].replace(' ', '_'), it.tool))
        if not res['findings'] and res['base_files'] >= 1 and 'generated' in it.tags and len(chk.samples) < 4 and it.tool == U.TOOLS[len(chk.samples) % 4]:
            chk.sample(dict(tool=it.tool, schema=it.name, schema_head=it.text[:500], configurations=res['configs'],
                            files_in_tree=res['base_files'], base_run=res['base_rc'], verdict='all %d trees identical' % (len(res['configs']) + 1)))
        for f in res['findings']:
            key = f['key']
            files = {}
            if key not in per_key_first:
                per_key_first[key] = 1
                files = {'input.exp': it.text if len(it.text) < 300000 else '(shipped schema, see %s)\n' % it.name,
                         'difference.txt': f['sample'] + '\n',
                         'how.txt': 'tool %s, schema %s, configuration %s (input named %r; base run: %r)\n'
                                    % (it.tool, it.name, f['config'], f['now_path'], f['base_path'])}
            chk.violation(key, '%s on %s, configuration %s: %s' % (it.tool, it.name, f['config'], f['sample'][:400]), files,
                          dict(tool=it.tool, schema=it.name, config=f['config']))
    if not chk.samples:
        it, res = results[-1]
        chk.sample(dict(tool=it.tool, schema=it.name, configurations=res['configs'], files_in_tree=res['base_files']))
    return chk.finish(
        rule='(tool, schema) pairs: 4 tools x (17 shipped schemas + seeded generated schemas from vf/gen_schema.py and vf/c17_gen.py + fixed probes); '
             'each pair = 1 base run + one run per configuration (%d), whole output tree compared by SHA-256; '
             'distinct_nontrivial = distinct (tool, schema) pairs whose base output tree had >= 1 file' % len(g.configs),
        assumptions=['determinism is decided only with respect to the factors varied (clock, host name, uid are not varied)',
                     'setarch -R and the LD_PRELOAD shim are effective (self-test recorded in factor_selftest)',
                     'randomized schema generators emit literal aggregate bounds only (mask tied to the open finding '
                     '"non-literal aggregate bound"; exercised by the shipped schemas and the fixed probe c12_bound_probe)',
                     'a difference already present between two plain runs is keyed once under "repeated run"',
                     'exp2python is not run on generated multi-schema files (it hangs or aborts there - a C06 matter; a watchdog timeout would only be inconclusive)',
                     'quick tier: shipped schemas get LC_ALL=C.UTF-8 only, and exp2cxx on shipped schemas gets the relative spelling of the input path only (generated schemas and probes always get the whole matrix)'])
