"""C19 - Python aggregate types (ARRAY, LIST, BAG, SET) enforce EXPRESS aggregate semantics.

Subject: <REPO>/src/exp2python/python/stepcode/AggregationDataTypes.py, run for real in python3 subprocesses
(harness/c19_drv.py, PYTHONPATH=<REPO>/src/exp2python/python).  Oracle: vf/c19_ref.py (position map / multiset / set
that enforces only what the property states; see its docstring for the EXPRESS reading and for what is NOT judged).

Workload
 A. bounded, exhaustive (seed independent): for every configuration in UNIVERSE (kind x bound pair in {0..3} x
    {same..3, unbounded} x UNIQUE x OPTIONAL x base type, plus two ARRAYs with negative bounds and invalid bound
    pairs for the constructor) the driver walks ALL sequences of <= N mutating operations (x[i]=v for every index from
    below to above the range and every value of a 4 + wrong-type alphabet; add(v)) breadth first, visiting each distinct
    real object state (fingerprint of the instance __dict__) once, and in every state records every read x[i] and every
    size/bound/index/uniqueness query.  The checker co-simulates the reference model along every edge (product of
    real state and model state) and judges every transition and every observation.  N = 4 (quick) / 6 (thorough).
    Sound reduction: the outcome of an operation on a pure-Python object depends on its __dict__ only, so sequences
    that reach the same (real state, model state) pair have the same continuations.
 B. seeded random sequences of 30 individual operations (writes, reads, adds, queries interleaved, so reads/queries are
    also exercised WITHOUT the per-state observation round of part A), bounds up to 6, judged step by step.

 C. aggregate base types, fixed matrix (seed independent): containers of all four kinds whose declared base type is
    itself an aggregate nested 1, 2 or 3 levels deep (2, 3, 4 levels in total; every combination of ARRAY/LIST/BAG/SET
    over the levels, two bound families, all three innermost simple types - vf/c19_nest.base_types) and, per base type,
    one candidate element per single-site type change (vf/c19_nest.mutants: the kind at each level x 3, the bounds at
    each level, the innermost simple type, the nesting depth +-1, a bare simple value) plus elements of exactly the
    declared type, each built by the real runtime and filled down to an innermost value (harness/c19_nest.py) with the
    declaration objects either shared with the container's declaration or built separately.  Each candidate is stored
    after a good element at the next position and over the good element, followed by reads, another good element, a
    re-used element (duplicate) and all queries; judged step by step by the same model (vf/c19_ref: type_diff).  Also
    aggregate-valued candidates for containers with a simple base type.
 B'. a share of the random sequences of part B runs on containers with a random aggregate base type (depth 1..3, random
    bounds per level) with random good / mutated / re-used aggregate elements.

Divergence handling: a refusal of an operation that must be accepted leaves the model state unchanged and the walk
continues (the real state is whatever the fingerprint says); an observation mismatch is recorded and the walk continues;
an ACCEPTED operation that must be refused is recorded and that branch is not continued (the model has no state for
it).  A finding key is <container class and bounds class>|<model-side reason for the expectation>|<expected vs
symptom> - no concrete values, indices or sequences, so the key of a defect does not depend on the seed; the replay
files carry the shortest concrete sequence (breadth-first order for part A, greedy op-removal shrink for part B).
"""
import json
import os
import random
import shutil
import sys
import tempfile

from .. import build, run
from .. import c19_ref as R
from .. import c19_nest as N

HERE = os.path.dirname(os.path.dirname(os.path.dirname(os.path.abspath(__file__))))
DRIVER = os.path.join(HERE, 'harness', 'c19_drv.py')

VALUES = {
    'INTEGER': [('INTEGER', 0), ('INTEGER', 1), ('INTEGER', 2), ('INTEGER', 3)],
    'REAL': [('REAL', 0.0), ('REAL', 1.0), ('REAL', 2.5), ('REAL', 3.5)],
    'STRING': [('STRING', ''), ('STRING', 'a'), ('STRING', 'b'), ('STRING', 'c')],
}
# values that EXPRESS does not allow in an aggregate of the base type (INTEGER into REAL is allowed by EXPRESS and
# refused by the runtime - ambiguous for this property, not used)
WRONG = {
    'INTEGER': [('STRING', '1'), ('REAL', 1.0), ('BINARY', '1')],
    'REAL': [('STRING', '1'), ('BINARY', '1')],
    'STRING': [('INTEGER', 1), ('BINARY', '0101')],     # BINARY is string-like in the runtime (a str subclass) but not a STRING
}


def subject_env():
    e = dict(os.environ)
    e['PYTHONPATH'] = os.path.join(build.REPO, 'src', 'exp2python', 'python')
    e['PYTHONHASHSEED'] = '0'
    e['PYTHONDONTWRITEBYTECODE'] = '1'
    return e


# ---------------------------------------------------------------------------------------------- configuration universe
def bound_pairs():
    out = []
    for b1 in range(4):
        for b2 in list(range(b1, 4)) + [None]:
            out.append((b1, b2))
    return out


def universe():
    """-> [Cfg] every configuration of part A, valid and invalid (invalid ones only judge the constructor)."""
    cfgs = []
    for base in R.BASES:
        for (b1, b2) in bound_pairs():
            for u in (False, True):
                for o in (False, True):
                    cfgs.append(R.Cfg('ARRAY', b1, b2, u, o, base))       # b2 None: constructor must refuse
                cfgs.append(R.Cfg('LIST', b1, b2, u, False, base))
            cfgs.append(R.Cfg('BAG', b1, b2, False, False, base))
            cfgs.append(R.Cfg('SET', b1, b2, False, False, base))
    for u in (False, True):
        for o in (False, True):
            cfgs.append(R.Cfg('ARRAY', -1, 1, u, o, 'INTEGER'))
            cfgs.append(R.Cfg('ARRAY', -2, -1, u, o, 'STRING'))
    for kind in R.KINDS:
        for (b1, b2) in ((2, 1), (3, 0), (-1, 2), (-1, None), (-2, -1)):
            if kind == 'ARRAY' and (b1, b2) in ((-1, 2), (-2, -1)):
                continue
            cfgs.append(R.Cfg(kind, b1, b2, False, False, 'INTEGER'))
    return cfgs


def index_range(c):
    if c.kind == 'ARRAY':
        return list(range(c.b1 - 1, c.b2 + 2))
    if c.kind == 'LIST':
        hi = c.b2 if c.b2 is not None else c.b1 + 2
        return list(range(-1, hi + 2))
    return []


def alphabets(c):
    """-> (mutating ops, observation ops) of part A as JSON-able lists."""
    vals = [list(v) for v in VALUES[c.base] + WRONG[c.base]]
    qs = [['q', q] for q in R.QUERIES]
    if c.kind in ('ARRAY', 'LIST'):
        idx = index_range(c)
        return [['set', i, v] for i in idx for v in vals], [['get', i] for i in idx] + qs
    return [['add', v] for v in vals], qs


# ------------------------------------------------------------------------------------------------------------ driver
class DriverError(Exception):
    pass


def run_batch(jobs, timeout):
    d = tempfile.mkdtemp(prefix='c19-', dir='/dev/shm' if os.path.isdir('/dev/shm') else None)
    try:
        jp, op = os.path.join(d, 'jobs.json'), os.path.join(d, 'out.json')
        with open(jp, 'w') as f:
            json.dump({'jobs': jobs}, f)
        r = run.run([sys.executable, DRIVER, jp, op], cwd=d, env=subject_env(), timeout=timeout)
        if r.timed_out:
            return ('timeout', None)
        if r.rc != 0 or not os.path.exists(op):
            return ('failed', 'rc=%s %s' % (r.rc, (r.err or '')[-600:]))
        with open(op) as f:
            o = json.load(f)
        if not os.path.realpath(o['module']).startswith(os.path.realpath(build.REPO) + os.sep):
            return ('failed', 'driver imported %s, not the tree under test' % o['module'])
        return ('ok', o['results'])
    finally:
        shutil.rmtree(d, ignore_errors=True)


def run_jobs(chk, jobs, weights=None, nbatch=32, timeout=900):
    """Run jobs in balanced batches, one subprocess each -> list of results aligned with jobs (None = not obtained)."""
    order = sorted(range(len(jobs)), key=lambda i: -(weights[i] if weights else 1))
    nb = max(1, min(nbatch, len(jobs)))
    batches = [[] for _ in range(nb)]
    load = [0] * nb
    for i in order:
        b = load.index(min(load))
        batches[b].append(i)
        load[b] += weights[i] if weights else 1
    res = [None] * len(jobs)
    outs = run.pmap(lambda ix: run_batch([jobs[i] for i in ix], timeout), batches)
    for ix, (st, o) in zip(batches, outs):
        if st == 'ok':
            for i, r in zip(ix, o):
                res[i] = r
        elif st == 'timeout':
            chk.inconc('driver batch of %d jobs hit the %ds watchdog' % (len(ix), timeout))
        else:
            chk.inconc('driver batch failed: %s' % o)
    return res


# --------------------------------------------------------------------------------------------------------- divergences
class Divergences(object):
    """key -> shortest concrete instance + count."""

    def __init__(self):
        self.by_key = {}

    def add(self, c, path, op, exp, out, got, part):
        key = R.finding_key(c, exp, got, op)
        rank = (len(path), int(c.unique) + int(c.optional), c.b1 < 0, R.cfg_text(c), json.dumps([path, op]))
        e = self.by_key.get(key)
        if e is None:
            self.by_key[key] = dict(count=1, rank=rank, cfg=c, path=list(path), op=op, exp=exp, out=out, got=got, part=part)
        else:
            e['count'] += 1
            if rank < e['rank']:
                e.update(rank=rank, cfg=c, path=list(path), op=op, exp=exp, out=out, got=got, part=part)
        return key


def describe(e):
    c = e['cfg']
    pre = '; '.join(R.op_text(o) for o in e['path']) or '(nothing)'
    o = e['out']
    real = ('raises %s(%s)' % (o[1], o[2])) if o[0] == 'x' else ('returns %s %s' % (o[1], o[2]) if o[1] != 'NoneType' or e['op'][0] in ('get', 'q') else 'is accepted')
    w = e['exp'].want
    want = '' if w is None else ' -> %s' % (w[1] if len(w) > 1 else 'None',)
    opt = 'the constructor' if e['op'][0] == 'construct' else R.op_text(e['op'])
    must = {'accept': 'must be accepted', 'refuse': 'must be refused', 'either': 'may be accepted or refused'}[e['exp'].verdict]
    return '%s: after %s, %s %s%s (%s) but %s' % (R.cfg_text(c), pre, opt, must, want, e['exp'].reason, real)


def repro_script(e):
    c = e['cfg']
    lines = ['# C19 replay: PYTHONPATH=<repo>/src/exp2python/python python3 repro.py',
             'from stepcode.AggregationDataTypes import *', 'from stepcode.SimpleDataTypes import *',
             'def show(label, f):', '    try: print(label, "->", repr(f()))',
             '    except Exception as ex: print(label, "-> raises", type(ex).__name__, ex)',
             'def setitem(x, i, v): x[i] = v']
    def vexpr(v):
        if isinstance(v[0], str):
            return '%s(%r)' % (v[0], v[1])
        return 'B.element(%r, %r, %r)' % (N.unt(R.tt(v[0])), v[1], v[2])
    nested = R.is_agg(c.base) or any(o[0] in ('set', 'add') and not isinstance(o[-1][0], str) for o in list(e['path']) + [e['op']])
    if nested:
        lines = ['# C19 replay: PYTHONPATH=<repo>/src/exp2python/python python3 repro.py',
                 '# ---- element/declaration builder (verbatim copy of /verif/harness/c19_nest.py)'] + N.builder_source().split('\n') + \
                ['# ---- the case'] + lines[1:] + ['B = Builder(%r)    # declaration of the base type: %s' % (N.unt(c.base), R.type_text(c.base))]
    args = '%d, %r, %s' % (c.b1, c.b2, 'B.base.obj' if nested else c.base)
    if c.kind == 'ARRAY':
        args += ', UNIQUE=%r, OPTIONAL=%r' % (c.unique, c.optional)
    elif c.kind == 'LIST':
        args += ', UNIQUE=%r' % c.unique
    if e['op'][0] == 'construct':
        lines.append('show("%s(%s)", lambda: %s(%s))' % (c.kind, args, c.kind, args))
        return '\n'.join(lines) + '\n'
    lines.append('x = %s(%s)' % (c.kind, args))
    for op in list(e['path']) + [e['op']]:
        if op[0] == 'set':
            lines.append('show(%r, lambda: setitem(x, %d, %s))' % (R.op_text(op), op[1], vexpr(op[2])))
        elif op[0] == 'get':
            lines.append('show(%r, lambda: x[%d])' % (R.op_text(op), op[1]))
        elif op[0] == 'add':
            lines.append('show(%r, lambda: x.add(%s))' % (R.op_text(op), vexpr(op[1])))
        else:
            lines.append('show(%r, lambda: x.%s())' % (R.op_text(op), op[1]))
    lines.append('# expected for the last line: %s (%s)' % (e['exp'].verdict, e['exp'].reason))
    return '\n'.join(lines) + '\n'


# ------------------------------------------------------------------------------------------------ part A: product walk
def product_walk(chk, c, ops, obs, res, depth, div):
    """Co-simulate the model over the real transition system recorded by the driver."""
    chk.ev()
    ce = R.construct_expect(c)
    got = R.compare(ce, ('construct',), res['construct'])
    if got:
        div.add(c, [], ('construct',), ce, res['construct'], got, 'A')
    chk.tag('construct ' + ('valid' if ce.verdict == 'accept' else 'invalid'))
    if res['construct'][0] == 'x' or ce.verdict != 'accept':
        return
    for p in res['problems']:
        chk.inconc('%s: %s' % (R.cfg_text(c), p))
    outs, trans, observ, mutated, paths = res['outs'], res['trans'], res['obs'], res['mutated'], res['paths']
    tops = [norm_op(o) for o in ops]
    tobs = [norm_op(o) for o in obs]
    seen = {(0, R.initial(c)): None}
    frontier = [(0, R.initial(c), ())]
    nstates = npairs = 0
    for d in range(depth + 1):
        nxt = []
        for (rid, st, path) in frontier:
            npairs += 1
            # ---- observations in this state
            row = observ[rid]
            for q, oi in zip(tobs, row):
                exp = R.judge(c, st, q)
                got = R.compare(exp, q, outs[oi])
                chk.count('reason: ' + exp.reason)
                if got:
                    div.add(c, [ops[k] for k in path], list(q), exp, outs[oi], got, 'A')
            chk.ev(len(row))
            if mutated[rid]:
                exp = R.Expect('accept', 'reads and queries leave the container unchanged', None)
                div.add(c, [ops[k] for k in path], ['q', 'get_size'], exp, ['v', 'NoneType', ''], 'object state changed', 'A')
            if d >= 1:
                chk.seen(hash((c, rid, st)))
            if d == depth or trans[rid] is None:
                continue
            tr = trans[rid]
            for k, op in enumerate(tops):
                out = outs[tr[2 * k]]
                nid = tr[2 * k + 1]
                exp = R.judge(c, st, op)
                got = R.compare(exp, op, out)
                chk.count('reason: ' + exp.reason)
                accepted = out[0] == 'v'
                if got:
                    div.add(c, [ops[j] for j in path], ops[k], exp, out, got, 'A')
                    if accepted:
                        chk.count('branches not continued after an accepted forbidden operation')
                        continue
                st2 = R.apply(c, st, op) if accepted else st
                if nid < 0:
                    continue
                key = (nid, st2)
                if key not in seen:
                    seen[key] = None
                    nxt.append((nid, st2, path + (k,)))
            chk.ev(len(tops))
        frontier = nxt
    chk.count('part A: real object states walked', len(paths))
    chk.count('part A: (real state, model state) pairs judged', npairs)


def part_a(chk, depth, div):
    cfgs = universe()
    jobs, weights, meta = [], [], []
    for c in cfgs:
        ops, obs = alphabets(c) if R.construct_expect(c).verdict == 'accept' else ([], [])
        jobs.append(dict(mode='explore', cfg=R.cfg_json(c), ops=ops, obs=obs, depth=depth, cap=150000))
        n = (len(index_range(c)) if ops else 0) or 1
        weights.append((len(ops) + 1) * (5 ** min(n, depth) if c.kind in ('ARRAY', 'LIST') else 4 ** depth))
        meta.append((c, ops, obs))
    res = run_jobs(chk, jobs, weights)
    for (c, ops, obs), r in zip(meta, res):
        if r is None:
            continue
        product_walk(chk, c, ops, obs, r, depth, div)
        chk.tag(c.kind)
        chk.tag('base ' + c.base)
        chk.tag('upper bound ' + ('indeterminate' if c.b2 is None else 'integer'))
        if c.unique:
            chk.tag('UNIQUE')
        if c.optional:
            chk.tag('OPTIONAL')
    return len(cfgs)


# ------------------------------------------------------------------------------------------------ part B: random walks
def random_cfg(rng):
    kind = rng.choice(R.KINDS)
    base = rng.choice(R.BASES)
    if rng.random() < .3:
        base = N.random_base(rng)
    if kind == 'ARRAY':
        b1 = rng.randint(-2, 3)
        b2 = b1 + rng.choice([0, 1, 2, 3, 5])
        return R.Cfg(kind, b1, b2, rng.random() < .5, rng.random() < .5, base)
    b1 = rng.randint(0, 3)
    b2 = None if rng.random() < .3 else b1 + rng.choice([0, 1, 2, 3])
    return R.Cfg(kind, b1, b2, kind == 'LIST' and rng.random() < .5, False, base)


def random_value(c, rng, wrong=False, ctx=None):
    if R.is_agg(c.base):
        return N.random_element(c, rng, ctx, wrong)
    if wrong:
        return list(rng.choice(WRONG[c.base]))
    k = rng.randrange(7)
    if k < 4:
        return list(VALUES[c.base][k])
    return [c.base, {'INTEGER': k + 3, 'REAL': k + 0.25, 'STRING': 'v%d' % k}[c.base]]


def candidate_op(c, rng, ctx=None):
    r = rng.random()
    pw = .3 if R.is_agg(c.base) else .1
    if c.kind in ('ARRAY', 'LIST'):
        lo = c.b1 - 1 if c.kind == 'ARRAY' else -1
        hi = (c.b2 if c.b2 is not None else c.b1 + 4) + 1
        if r < .55:
            return ['set', rng.randint(lo, hi), random_value(c, rng, rng.random() < pw, ctx)]
        if r < .8:
            return ['get', rng.randint(lo, hi)]
    elif r < .7:
        return ['add', random_value(c, rng, rng.random() < pw, ctx)]
    return ['q', rng.choice(R.QUERIES)]


def norm_op(op):
    if op[0] == 'set':
        return ('set', op[1], R.val(op[2]))
    if op[0] == 'add':
        return ('add', R.val(op[1]))
    return tuple(op)


def gen_sequence(chk, c, rng, length):
    """Model-guided: mostly operations EXPRESS allows; never an operation whose silent acceptance is an OPEN known
    finding (documented mask: those are demonstrated by part A on every run; the mask vanishes with the finding).
    The model state used for guidance assumes sparse LIST writes are accepted - guidance only, judging uses the real
    outcomes."""
    st = R.initial(c)
    ops = []
    ctx = dict(next=1, used=[])
    keep_refused = .9 if R.is_agg(c.base) else .4
    while len(ops) < length:
        for _try in range(8):
            op = candidate_op(c, rng, ctx)
            exp = R.judge(c, st, norm_op(op))
            if exp.verdict == 'refuse' and R.is_mutation(op):
                if chk.is_known(R.finding_key(c, exp, 'accepted', op)):
                    chk.count('part B: candidate operations masked (open finding: forbidden operation accepted)')
                    continue
                if rng.random() >= keep_refused:
                    continue
            if R.separately_declared(c, exp, op) and R.type_depth(c.base) >= 2 and \
                    chk.is_known(R.finding_key(c, exp, 'refused with TypeError', op)):
                # documented mask: a right-typed element whose nested declaration was built separately is refused (open
                # finding, demonstrated by part C on every run); the mask vanishes with the finding
                chk.count('part B: candidate operations masked (open finding: separately declared element refused)')
                continue
            break
        else:
            op = ['q', 'get_size']
            exp = R.judge(c, st, norm_op(op))
        ops.append(op)
        if R.is_mutation(op) and exp.verdict in ('accept', 'either'):
            st = R.apply(c, st, norm_op(op))
    return ops


def judge_sequence(chk, c, ops, res, div=None, count=True, part='B'):
    """-> first divergence key that stops the sequence or None; records all divergences in div."""
    ce = R.construct_expect(c)
    got = R.compare(ce, ('construct',), res['construct'])
    keys = []
    if got:
        keys.append(R.finding_key(c, ce, got))
        if div is not None:
            div.add(c, [], ('construct',), ce, res['construct'], got, part)
    if res['construct'][0] == 'x':
        return keys
    st = R.initial(c)
    for n, (op, out) in enumerate(zip(ops, res['outs'])):
        t = norm_op(op)
        exp = R.judge(c, st, t)
        if out[0] == 'b':
            chk.inconc('%s: element of %s could not be built by the runtime: %s' % (R.cfg_text(c), R.op_text(op), out[2]))
            break
        got = R.compare(exp, t, out)
        if count:
            chk.ev()
            chk.count('reason: ' + exp.reason)
        accepted = out[0] == 'v'
        if got:
            keys.append(R.finding_key(c, exp, got, op))
            if div is not None:
                div.add(c, ops[:n], op, exp, out, got, part)
            if accepted and R.is_mutation(t):
                if count:
                    chk.count('part B: sequences cut after an accepted forbidden operation')
                break
        if accepted and R.is_mutation(t):
            st = R.apply(c, st, t)
    return keys


def shrink(chk, e, key):
    """Greedy removal of earlier operations while the same key is still produced by the final operation."""
    c, path, op = e['cfg'], list(e['path']), e['op']
    if op[0] == 'construct':
        return
    for _round in range(40):
        cands = [path[:i] + path[i + 1:] for i in range(len(path))]
        if not cands:
            break
        res = run_jobs(chk, [dict(mode='seq', cfg=R.cfg_json(c), ops=p + [op]) for p in cands], nbatch=4, timeout=120)
        for p, r in zip(cands, res):
            if r is None:
                continue
            d = Divergences()
            judge_sequence(chk, c, p + [op], r, d, count=False)
            f = d.by_key.get(key)
            if f is not None and len(f['path']) == len(p) and f['op'] == op:
                path = p
                e.update(path=p, out=f['out'])
                break
        else:
            break


def part_b(chk, nseq, length, div):
    rng = random.Random('C19/%d/random-walks' % chk.seed)
    cases = []
    for _ in range(nseq):
        c = random_cfg(rng)
        cases.append((c, gen_sequence(chk, c, rng, length)))
    res = run_jobs(chk, [dict(mode='seq', cfg=R.cfg_json(c), ops=ops) for c, ops in cases], nbatch=16, timeout=300)
    for (c, ops), r in zip(cases, res):
        if r is None:
            continue
        judge_sequence(chk, c, ops, r, div)
        chk.seen(hash((c, json.dumps(ops))))
        chk.tag('random walk ' + c.kind)
        if R.is_agg(c.base):
            chk.tag('random walk, aggregate base type nested %d deep' % R.type_depth(c.base))
    return cases, res


# ------------------------------------------------------------------------------- part C: aggregate base types, fixed matrix
def part_c(chk, div):
    mat = N.matrix()
    res = run_jobs(chk, [dict(mode='seq', cfg=R.cfg_json(c), ops=ops) for (c, lab, mode, place, ops) in mat], nbatch=16, timeout=300)
    shapes = set()
    for (c, lab, mode, place, ops), r in zip(mat, res):
        if r is None:
            continue
        judge_sequence(chk, c, ops, r, div, part='C')
        chk.seen(hash(('C', c, lab, mode, place, json.dumps(ops[1]))))
        shapes.add((c.kind, c.base))
        d = R.type_depth(c.base)
        chk.tag('part C: base type nested %d deep (%d levels with the container)' % (d, d + 1) if d else 'part C: simple base type, aggregate candidate')
        chk.tag('part C candidate: ' + lab)
        chk.tag('part C: %s container' % c.kind)
        if mode != '-':
            chk.tag('part C: declaration objects ' + mode)
    chk.extra['part_C_sequences'] = len(mat)
    chk.extra['part_C_container_x_base_type_shapes'] = len(shapes)
    chk.extra['part_C_base_types'] = len(set(b for _k, b in shapes if R.is_agg(b)))
    return mat, res


# --------------------------------------------------------------------------------------------------------------- main
def replay(chk, d):
    """./check C19 --replay DIR: run the recorded repro.py against the tree under test and show what it prints."""
    if not os.path.isfile(os.path.join(d, 'repro.py')):
        print('INCONCLUSIVE property=C19 no repro.py in %s (replay/C19 is cleared at start-up; copy the directory first)' % d)
        return 2
    r = run.run([sys.executable, os.path.join(d, 'repro.py')], cwd=d, env=subject_env(), timeout=60)
    sys.stdout.write(r.out + r.err)
    with open(os.path.join(d, 'case.json')) as f:
        c = json.load(f)
    print('recorded: %s' % c['what'])
    return 0 if r.rc == 0 else 2


def main(chk):
    if not os.path.isfile(os.path.join(build.REPO, 'src', 'exp2python', 'python', 'stepcode', 'AggregationDataTypes.py')):
        chk.inconc('no stepcode/AggregationDataTypes.py under %s' % build.REPO)
        return chk.finish(rule='n/a')
    depth = 4 if chk.tier == 'quick' else 6
    nseq = 2000 if chk.tier == 'quick' else 200000
    div = Divergences()
    ncfg = part_a(chk, depth, div)
    keys_a = set(div.by_key)
    part_c(chk, div)
    cases, res = part_b(chk, nseq, 30, div)

    for key in sorted(div.by_key):
        e = div.by_key[key]
        if not chk.is_known(key) and e['part'] == 'B' and key not in keys_a:
            shrink(chk, e, key)
        what = describe(e)
        case = dict(configuration=R.cfg_text(e['cfg']), operations=[R.op_text(o) for o in e['path']],
                    failing_operation='construct' if e['op'][0] == 'construct' else R.op_text(e['op']),
                    expected='%s (%s)' % (e['exp'].verdict, e['exp'].reason), real_outcome=e['out'], found_by='part ' + e['part'],
                    occurrences=e['count'])
        for _ in range(e['count'] if chk.is_known(key) else 1):
            known = chk.violation(key, what, files={'repro.py': repro_script(e)}, case=case)
        if not known and e['count'] > 1:
            chk.violations[key]['count'] = e['count']

    # written-out samples: one agreeing random walk per kind + the first part A configuration
    shown = set()
    for (c, ops), r in zip(cases, res):
        if r is None or c.kind in shown or r['construct'][0] == 'x':
            continue
        d = Divergences()
        if not judge_sequence(chk, c, ops, r, d, count=False):
            shown.add(c.kind)
            chk.sample(dict(configuration=R.cfg_text(c), verdict='every step agrees with the model',
                            steps=['%s -> %s' % (R.op_text(o), ('raises ' + x[1]) if x[0] == 'x' else x[2]) for o, x in zip(ops, r['outs'])][:30]))
    for key in sorted(div.by_key)[:1]:
        e = div.by_key[key]
        chk.sample(dict(configuration=R.cfg_text(e['cfg']), verdict='diverges from the model: ' + key,
                        steps=[R.op_text(o) for o in e['path']] + ['%s -> %s' % ('construct' if e['op'][0] == 'construct' else R.op_text(e['op']), e['out'][1:])]))
    chk.extra['configurations_part_A'] = ncfg
    chk.extra['depth_part_A'] = depth
    chk.extra['random_sequences_part_B'] = nseq
    return chk.finish(
        rule='part A (exhaustive, seed independent): every sequence of <= %d mutating operations (x[i]=v over all indices '
             'from below to above the declared range x 4 values of the base type + wrong-type values; add(v)) on each of %d '
             'configurations (ARRAY/LIST/BAG/SET x bounds {0..3}x{same..3,indeterminate} x UNIQUE x OPTIONAL x '
             'INTEGER/REAL/STRING, + negative-bound ARRAYs and invalid bound pairs), explored breadth first with sequences '
             'reaching the same (real __dict__ fingerprint, model state) pair merged; in every reached pair every read '
             'x[i] and every size/index/bound/uniqueness query is judged, along every edge the accept/refuse outcome. '
             'exhaustive=true refers to this part. part B: %d seeded random sequences of 30 interleaved operations '
             '(bounds up to 6; about 30%% of them on containers with a random aggregate base type nested 1..3 deep and '
             'good / single-site mutated / re-used aggregate elements) judged step by step. part C (fixed matrix, seed '
             'independent): %d operation sequences over %d (container kind, aggregate base type) shapes - %d base types '
             'nested 1, 2 and 3 deep, every kind combination - each around one candidate element that differs from the '
             'declared base type at exactly one site (kind per level, bounds per level, innermost simple type, nesting depth) '
             'or is of the declared type (declaration objects shared / built separately). evaluations = judged operation outcomes; a distinct non-trivial case '
             '= a distinct (configuration, real state, model state) pair reached by >= 1 operation, one random sequence, or one '
             '(container, base type, candidate type, declaration mode, position) of part C.'
             % (depth, ncfg, nseq, chk.extra['part_C_sequences'], chk.extra['part_C_container_x_base_type_shapes'],
                chk.extra['part_C_base_types']),
        assumptions=['the behaviour of an aggregate object is a function of its instance __dict__ (pure Python, no module state); '
                     'replaying a path on a fresh object reproduces the fingerprint (checked for every state)',
                     'refusal = any of IndexError/TypeError/AssertionError/ValueError/KeyError; the exception class is not judged',
                     'aggregate-valued elements: an element is of the declared base type iff kind, ARRAY bounds, nesting depth and '
                     'innermost simple type agree at every level; LIST/BAG/SET bounds of inner levels, INTEGER for REAL and inner '
                     'UNIQUE/OPTIONAL flags are not judged; elements with different tokens hold different innermost values',
                     'sparse LIST writes, the lower bound as minimum element count, None/int/INTEGER-into-REAL values and '
                     'indexing of BAG/SET are not judged',
                     'branches are not continued past an accepted operation that EXPRESS forbids'],
        exhaustive=True)
