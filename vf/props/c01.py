"""C01 - Part 21 exchange files survive read-then-write with every value intact.

Oracle (DESIGN.md C01): p21read exits 0 and the read severity is >= USERMSG; the written file parses with the
independent reference parser and denotes the same population (ids in order, entity types, every value, header
except time stamp); reading the written file and writing again is byte-identical (time stamp masked).
"""
import random
from .. import gen_p21, p21fam, ref_p21, run, probes

SEV_USERMSG = 2

# features the randomized workload stays away from; each is tied to an open finding and is exercised by that
# finding's deterministic probe (vf/probes.py), so the finding is still demonstrated on every run.
AVOID_SCHEMA = probes.masked_schema_features('C01')
AVOID_POP = probes.masked_pop_features('C01')
import os
VARIANTS = [v for v in gen_p21.VARIANTS if v not in probes.masked_variants('C01')]
if os.environ.get('VERIF_DBG_VARIANTS'):
    VARIANTS = os.environ['VERIF_DBG_VARIANTS'].split(',')
if os.environ.get('VERIF_DBG_AVOID'):
    AVOID_POP |= set(os.environ['VERIF_DBG_AVOID'].split(','))


def compare_population(schema, want_insts, got_insts, variant_tag=''):
    """-> list of (key, what).  want = model population, got = parsed written file."""
    out = []
    wi = [i.id for i in want_insts]
    gi = [i.id for i in got_insts]
    if wi != gi:
        missing = [x for x in wi if x not in gi]
        extra = [x for x in gi if x not in wi]
        if missing or extra:
            wmap = {i.id: i for i in want_insts}
            shp = 'complex instance' if any(wmap[m].complex for m in missing) else 'simple instance'
            out.append(('population|%s%s|instances missing/extra' % (shp, variant_tag), 'ids missing %s extra %s' % (missing[:5], extra[:5])))
        else:
            out.append(('population|order%s|instance order changed' % variant_tag, 'want %s got %s' % (wi[:8], gi[:8])))
    gmap = {i.id: i for i in got_insts}
    for w in want_insts:
        g = gmap.get(w.id)
        if g is None:
            continue
        if w.complex != g.complex:
            out.append(('mapping|%s%s|internal/external mapping changed' % ('complex' if w.complex else 'simple', variant_tag), 'instance #%d' % w.id))
            continue
        wparts = sorted(w.parts) if w.complex else w.parts
        gparts = sorted(g.parts) if g.complex else g.parts
        if [p[0] for p in wparts] != [p[0] for p in gparts]:
            out.append(('type|%s%s|entity keyword(s) changed' % ('complex' if w.complex else 'simple', variant_tag),
                        '#%d want %s got %s' % (w.id, [p[0] for p in wparts], [p[0] for p in gparts])))
            continue
        for (kw, wv), (_k, gv) in zip(wparts, gparts):
            pidx = [p[0] for p in w.parts].index(kw)
            if len(wv) != len(gv):
                out.append(('value|%s%s|attribute count changed' % ('complex part' if w.complex else 'simple', variant_tag),
                            '#%d %s: %d -> %d attributes' % (w.id, kw, len(wv), len(gv))))
                continue
            for j, (a, b) in enumerate(zip(wv, gv)):
                shape = p21fam.attr_shape(schema, w, pidx, j)
                if 'NUMBER' in shape:
                    a, b = ref_p21.number_norm(a), ref_p21.number_norm(b)   # NUMBER: 7 and 7. denote the same number
                d = ref_p21.diff_values(ref_p21.canon_value(a), ref_p21.canon_value(b))
                if d:
                    out.append(('value|%s%s|%s' % (shape, variant_tag, d[1]),
                                '#%d %s attr %d%s: wrote %r for %r' % (w.id, kw, j, d[0], _short(b), _short(a))))
    return out


def _short(v):
    s = repr(v)
    return s if len(s) < 200 else s[:200] + '...'


def compare_header(want, got):
    out = []
    if [h[0] for h in want] != [h[0] for h in got]:
        return [('header|records|header records changed', 'want %s got %s' % ([h[0] for h in want], [h[0] for h in got]))]
    for (kw, wv), (_k, gv) in zip(want, got):
        for j, (a, b) in enumerate(zip(wv, gv)):
            if kw == 'FILE_NAME' and j == 1:
                continue
            d = ref_p21.diff_values(ref_p21.canon_value(a), ref_p21.canon_value(b))
            if d:
                out.append(('header|%s field %d|%s' % (kw, j, d[1]), 'wrote %r for %r' % (_short(b), _short(a))))
        if len(wv) != len(gv):
            out.append(('header|%s|field count changed' % kw, '%d -> %d' % (len(wv), len(gv))))
    return out


def judge_case(chk, lib, pop, text, variant, base_keys=None):
    """Run one (population, text variant) through p21read twice and p21mon once.  Returns set of keys found."""
    vt = '' if variant in ('compact', 'spaced', 'lines') else '|text:' + variant
    found = []
    with p21fam.Scratch('c01') as sc:
        inp = sc.write('in.p21', text)
        r1 = p21fam.p21read(lib, inp, sc.path('out1.p21'))
        chk.ev()
        files = {'schema.exp': lib.schema.text(), 'in.p21': text}
        if r1.crashed() or r1.timed_out:
            found.append(('crash|read+write%s|%s' % (vt, r1.symptom()), 'p21read: %s %s' % (r1.symptom(), run.san_frames(r1.err)), dict(files, stderr=r1.err[-6000:])))
            return found
        rm = p21fam.mon(lib, ['read', inp], sc.d)
        ops = p21fam.mon_ops(rm.out)
        sev = ops[0][1].get('sev') if ops else None
        if rm.crashed():
            found.append(('crash|read (monitor)%s|%s' % (vt, rm.symptom()), 'p21mon: %s' % rm.symptom(), dict(files, stderr=rm.err[-6000:])))
        elif r1.rc != 0 or sev is None or sev < SEV_USERMSG:
            msgs = ' '.join(p21fam.mon_msgs(rm.out))[:600]
            cls = classify_read_error(msgs)
            if 'Could not create instance of the following complex' in rm.err:
                cls = 'legal complex combination refused (%s)' % complex_shape(lib.schema, pop)
            if vt:
                cls = 'any'   # text-variant specific: the message class is incidental
            found.append(('read-error|%s%s|conforming file reported as error (sev=%s exit=%s)' % (cls, vt, sev, r1.rc),
                          'messages: %s' % msgs, dict(files, stdout=r1.out[-3000:], mon=rm.out[-3000:])))
        out1 = sc.read('out1.p21')
        if out1 is None:
            return found
        files['out1.p21'] = out1
        try:
            hdr, insts, kind = ref_p21.parse(out1)
        except ref_p21.P21Error as e:
            found.append(('syntax|written file%s|written file is not valid Part 21' % vt, str(e), files))
            return found
        for key, what in compare_population(lib.schema, pop.insts, insts, vt):
            found.append((key, what, files))
        for key, what in compare_header(pop.header, hdr):
            found.append((key, what, files))
        # second generation
        r2 = p21fam.p21read(lib, sc.path('out1.p21'), sc.path('out2.p21'))
        chk.ev()
        out2 = sc.read('out2.p21')
        if r2.crashed():
            found.append(('crash|re-read of written file%s|%s' % (vt, r2.symptom()), r2.symptom(), dict(files, stderr=r2.err[-6000:])))
        elif out2 is None or r2.rc != 0:
            if not found:
                found.append(('stability|re-read%s|written file is rejected when read again (exit %s)' % (vt, r2.rc), r2.out[-800:], files))
        elif p21fam.mask_timestamp(out2) != p21fam.mask_timestamp(out1):
            a, b = p21fam.mask_timestamp(out1).splitlines(), p21fam.mask_timestamp(out2).splitlines()
            dl = [(x, y) for x, y in zip(a, b) if x != y][:1]
            shape = 'line count' if not dl else stability_shape(lib.schema, pop, dl[0][0])
            found.append(('stability|%s%s|second write differs from first' % (shape, vt), 'first differing line: %r' % (dl[:1],), dict(files, **{'out2.p21': out2})))
    return found


def stability_shape(schema, pop, line):
    import re
    m = re.match(r'#(\d+)\s*=', line)
    if not m:
        return 'header' if line.startswith('FILE_') else 'other'
    inst = pop.by_id().get(int(m.group(1)))
    if not inst:
        return 'unknown instance'
    return 'complex instance' if inst.complex else 'simple instance'


def complex_shape(schema, pop):
    k = set()
    for i in pop.insts:
        if i.complex:
            names = [p[0].lower() for p in i.parts]
            if any(len(schema.entity(n).supers) > 1 for n in names):
                k.add('member with several supertypes')
            elif any(schema.entity(n).sexpr for n in names):
                k.add('supertype expression')
            else:
                k.add('plain')
    return ','.join(sorted(k)) or 'none'


def classify_read_error(msgs):
    import re
    m = msgs
    for pat, k in ((r'Internal error', 'internal error'), (r'nvalid (\w+) value', None), (r'legal complex entity', 'complex refused'),
                   (r'missing and required', 'missing and required'), (r'[Ii]ncomplete', 'incomplete'), (r'[Uu]nexpected', 'unexpected token')):
        mm = re.search(pat, m)
        if mm:
            return k or ('invalid %s value' % mm.group(1).lower())
    return 'other'


def cover(chk, lib, pop, variant):
    s = lib.schema
    for inst in pop.insts:
        for pi, (kw, vals) in enumerate(inst.parts):
            for j, v in enumerate(vals):
                shp = p21fam.attr_shape(s, inst, pi, j)
                chk.seen(shp, v[0], variant if variant.startswith('cmt') else 'plain')
                chk.tag('attr:' + shp)
        if inst.complex:
            chk.tag('complex instance')
    for t in pop.tags:
        chk.tag('pop:' + t)
    for t in s.tags:
        chk.tag('schema:' + t)
    chk.tag('variant:' + variant)


def make_cases(chk, libs, n_pops, n_variants):
    cases = []
    for li, lib in enumerate(libs):
        for pi in range(n_pops):
            rng = random.Random('c01/%d/%s/%d' % (chk.seed, lib.schema.name, pi))
            pg = gen_p21.PopGen(lib.schema, rng, avoid=AVOID_POP)
            pop = pg.population(n_extra=rng.randint(1, 6), sparse=pi % 3 == 1, shuffle=pi % 2 == 1, with_complex=True)
            if 'unfillable' in pop.tags:
                chk.count('populations_skipped_unfillable')
                continue
            others = [v for v in VARIANTS if v != 'compact']
            vs = ['compact'] + rng.sample(others, min(n_variants - 1, len(others)))
            for v in vs:
                text = gen_p21.render(pop, v, random.Random('c01r/%d/%d/%d/%s' % (chk.seed, li, pi, v)))
                cases.append((lib, pop, text, v))
    return cases


def needs_shape(key):
    if 'legal complex combination refused' in key:
        return False
    return key.startswith(('crash|', 'read-error|', 'stability|', 'syntax|', 'population|'))


def shaped(key, schema, pop):
    """Append the attribute shapes of a (minimal) population to a coarse key."""
    if len(pop.insts) > 2:
        return key + '|shapes=many'
    shapes = sorted(set(sum((p21fam.inst_shapes(schema, i) for i in pop.insts), [])))
    return key + '|shapes=' + ';'.join(shapes[:6])


def shrink(chk, lib, pop, variant, key, what, files):
    """Instance-level reduction of a failing case (same coarse key must persist) -> (final key, what, files)."""
    def fails(p):
        t = gen_p21.render(p, variant, random.Random(3))
        return any(k == key for k, _w, _f in judge_case(chk, lib, p, t, variant))
    t0 = gen_p21.render(pop, variant, random.Random(3))
    if not any(k == key for k, _w, _f in judge_case(chk, lib, pop, t0, variant)):
        return key + '|shapes=unshrunk', what, files   # depends on the exact comment placement of the original rendering
    small = p21fam.shrink_instances(pop, fails)
    mt = gen_p21.render(small, variant, random.Random(3))
    files = dict(files)
    files['min.p21'] = mt
    data = mt.split('DATA;')[1].split('ENDSEC;')[0].strip()
    return shaped(key, lib.schema, small), what + ' || minimal instances: %s' % data[:600], files


def main(chk):
    quick = chk.tier == 'quick'
    n_schemas, n_pops, n_var = (14, 5, 3) if quick else (120, 10, 5)
    schemas = p21fam.std_corpus(chk.seed, n_schemas, AVOID_SCHEMA)
    libs = p21fam.report_build_failures(chk, p21fam.build_libs(schemas))
    cases = make_cases(chk, libs, n_pops, n_var)

    def work(c):
        lib, pop, text, v = c
        return c, judge_case(chk, lib, pop, text, v)
    final = {}
    for (lib, pop, text, v), found in run.pmap(work, cases):
        cover(chk, lib, pop, v)
        for key, what, files in found:
            if needs_shape(key):
                if key not in final:
                    final[key], what, files = shrink(chk, lib, pop, v, key, what, files)
                key = final[key]
            chk.violation(key, what, files, dict(schema=lib.schema.name, variant=v))
        if len(chk.samples) < 3 and not found:
            chk.sample(dict(schema=lib.schema.name, variant=v, input_head=text[:700], verdict='round trip equal, second write byte-identical'))
    probes.run_probes(chk, 'C01', judge_probe)
    # histories: the same session object reads another exchange file first (five header entities, edition-2 SECTION_LANGUAGE /
    # SECTION_CONTEXT), is emptied, then reads and writes the file under test: the written file must equal the one a fresh session writes
    hist = [c for c in cases if c[3] == 'compact'][:12]

    def hwork(c):
        lib, pop, text, v = c
        other = gen_p21.render(gen_p21.Population(pop.schema, pop.insts[:1], pop.header), 'compact')
        other = other.replace('ENDSEC;\nDATA;', "SECTION_LANGUAGE($,'en');\nSECTION_CONTEXT($,('other context'));\nENDSEC;\nDATA;", 1)
        other = other.replace("FILE_DESCRIPTION((", "FILE_DESCRIPTION(('the other file',", 1)
        out = {}
        with p21fam.Scratch('c01h') as sc:
            inp, oth = sc.write('in.p21', text), sc.write('other.p21', other)
            for how in ('purge', 'clear'):
                r = p21fam.mon(lib, ['read', oth, how, 'read', inp, 'write', sc.path('h_%s.p21' % how)], sc.d)
                out[how] = (r, sc.read('h_%s.p21' % how))
            r = p21fam.mon(lib, ['read', inp, 'write', sc.path('fresh.p21')], sc.d)
            out['fresh'] = (r, sc.read('fresh.p21'))
        return c, other, out
    for (lib, pop, text, v), other, out in run.pmap(hwork, hist):
        chk.ev(3)
        files = {'schema.exp': lib.schema.text(), 'in.p21': text, 'other.p21': other}
        rf, fresh = out['fresh']
        if rf.crashed() or fresh is None:
            continue     # the plain round trip of this case is judged above
        for how in ('purge', 'clear'):
            r, got = out[how]
            chk.seen('history', how, lib.schema.name)
            if r.crashed() or r.timed_out:
                chk.violation('history|another file read before (%s)|%s' % (how, r.symptom()), run.san_frames(r.err).__str__(), dict(files, stderr=r.err[-3000:]))
            elif got is None or p21fam.mask_timestamp(got) != p21fam.mask_timestamp(fresh):
                a, b = p21fam.mask_timestamp(got or '').splitlines(), p21fam.mask_timestamp(fresh).splitlines()
                dl = [(x, y) for x, y in zip(a, b) if x != y][:1]
                part = 'header' if dl and b.index(dl[0][1]) < b.index('DATA;') else 'data section'
                chk.violation('history|another file read before (%s)|written %s differs from a fresh session\'s' % (how, part),
                              'first differing line %r' % (dl,), dict(files, written=got or '', fresh=fresh))
    return chk.finish(
        rule='schemas from vf/gen_schema.py (seeded), populations from vf/gen_p21.py rendered in text variants; each case = p21read in->out1, '
             'out1->out2 + p21mon severity; distinct_nontrivial = distinct (attribute type shape, literal kind, plain/comment variant) triples whose value was compared',
        assumptions=['reference parser vf/ref_p21.py and generators are correct', 'gcc ASan/UBSan runtimes',
                     'randomized workload masks: schema features %s, population features %s, text variants %s (each exercised by a deterministic probe of an open finding)'
                     % (sorted(AVOID_SCHEMA), sorted(AVOID_POP), sorted(probes.masked_variants('C01')))])


def judge_probe(chk, probe, lib):
    """A probe is (schema text, p21 text, model population or None)."""
    pop = probe.population(lib.schema)
    found = judge_case(chk, lib, pop, probe.p21, probe.variant)
    return [(shaped(k, lib.schema, pop) if needs_shape(k) and '|text:' not in k else k, w, f) for k, w, f in found]
