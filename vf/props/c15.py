"""C15 - strict and lenient handling of missing required attributes is as documented.

One attribute of a conforming population is replaced by `$` (or left empty); the file is read in lenient (default) and
strict (-s) mode by the real p21read + p21mon.  Oracle = the documented matrix (DESIGN.md C15).
"""
LEVEL = 'fault_enumeration'
import copy
import random
from .. import gen_p21, p21fam, ref_p21, run, probes
from . import c03

SEV_INCOMPLETE, SEV_USERMSG, SEV_NULL = 1, 2, 3
LENIENT_KINDS = {'INTEGER': ('int', 0), 'REAL': ('real', 0.0), 'NUMBER': ('real', 0.0), 'STRING': ('str', '')}
AVOID_SCHEMA = probes.masked_schema_features('C01')
AVOID_POP = probes.masked_pop_features('C01')


class Case(object):
    def __init__(self, lib, pop, inst_id, pi, j, kind, optional, where, form):
        self.lib, self.pop, self.k, self.pi, self.j = lib, pop, inst_id, pi, j
        self.kind, self.optional, self.where, self.form = kind, optional, where, form

    def shape(self):
        return '%s%s|%s|%s' % ('OPTIONAL ' if self.optional else 'required ', self.kind, self.where, self.form)


def cases_for(lib, pop, rng, limit=None):
    s = lib.schema
    out = []
    for inst in pop.insts:
        for pi, (kw, vals) in enumerate(inst.parts):
            alist = c03.attr_list(s, inst, pi)
            for j, (owner, a, der) in enumerate(alist):
                if der or vals[j] == ('null',):
                    continue
                kind = c03.kind_of(s, a.type)
                where = 'complex part' if inst.complex else ('inherited' if owner != kw.lower() else 'own')
                forms = ['$'] + (['empty'] if rng.random() < .25 else [])
                for f in forms:
                    out.append(Case(lib, pop, inst.id, pi, j, kind, a.optional, where, f))
    if limit and len(out) > limit:
        # keep one per shape first, then fill up randomly
        byshape = {}
        for c in out:
            byshape.setdefault(c.shape(), []).append(c)
        keep = [v[0] for v in byshape.values()]
        rest = [c for v in byshape.values() for c in v[1:]]
        rng.shuffle(rest)
        out = keep + rest[:max(0, limit - len(keep))]
    return out


def render_case(c):
    insts = []
    for i in c.pop.insts:
        if i.id == c.k:
            i = copy.deepcopy(i)
            i.parts[c.pi][1][c.j] = ('null',) if c.form == '$' else ('raw', '')
        insts.append(i)
    return gen_p21.render(gen_p21.Population(c.pop.schema, insts, c.pop.header), 'compact')


def judge(chk, c):
    text = render_case(c)
    found = []
    files = {'schema.exp': c.lib.schema.text(), 'in.p21': text}
    res = {}
    msgs = {}
    states = {}
    with p21fam.Scratch('c15') as sc:
        inp = sc.write('in.p21', text)
        for mode in ('lenient', 'strict'):
            strict = mode == 'strict'
            r = p21fam.p21read(c.lib, inp, sc.path('out_%s.p21' % mode), strict=strict)
            rm = p21fam.mon(c.lib, (['strict'] if strict else []) + ['read', inp, 'dump', sc.path('d_%s.txt' % mode)], sc.d)
            chk.ev()
            if r.crashed() or rm.crashed():
                bad = r if r.crashed() else rm
                found.append(('crash|%s|%s|%s' % (c.shape(), mode, bad.symptom()), '%s %s' % (bad.symptom(), run.san_frames(bad.err)), dict(files, stderr=bad.err[-4000:])))
                continue
            ops = p21fam.mon_ops(rm.out)
            sev = ops[0][1].get('sev') if ops else None
            res[mode] = (r.rc, sev, sc.read('out_%s.p21' % mode))
            msgs[mode] = (r.out + '\n' + r.err + '\n' + '\n'.join(p21fam.mon_msgs(rm.out)))
            _n, _h, dumped = p21fam.parse_dump(sc.read('d_%s.txt' % mode))
            states[mode] = dict((iid, st) for (iid, st, name, idx, sfid, txt) in dumped)
    for mode, (rc, sev, out) in res.items():
        first_part = False
        if c.where == 'complex part':
            inst = c.pop.by_id()[c.k]
            first_part = inst.parts[c.pi][0] == sorted(kw for kw, _v in inst.parts)[0]
        if c.where == 'complex part' and not c.optional and first_part and not (mode == 'lenient' and c.kind in LENIENT_KINDS):
            # the errors of the alphabetically first part DO reach the file-level result on the unchanged tree: judged like any
            # other attribute (the other parts, and lenient substitution inside parts, are the open finding below)
            if rc == 0 or sev is None or sev > SEV_INCOMPLETE:
                found.append(('required accepted|%s|first part of a complex instance|%s' % (('OPTIONAL ' if c.optional else 'required ') + c.kind, mode),
                              'missing required %s in the first part must make the read fail as incomplete in %s mode: exit %s, severity %s' % (c.kind, mode, rc, sev), files))
            continue
        if c.where == 'complex part' and not c.optional:
            # open finding (same root cause as C03's): parts of a complex instance are always read strictly and their severity is dropped,
            # so a missing required attribute in a part is reported in neither mode - one key for the whole family
            lenient_ok = (mode == 'lenient' and c.kind in LENIENT_KINDS)
            good = (rc == 0 and sev == SEV_USERMSG) if lenient_ok else (rc != 0 and sev is not None and sev <= SEV_INCOMPLETE)
            if not good:
                found.append(('complex part|missing required attribute is not handled as documented in either mode',
                              '%s %s in %s mode: exit %s, severity %s' % (c.kind, c.form, mode, rc, sev), files))
            continue
        if c.optional:
            if rc != 0 or sev is None or sev < SEV_USERMSG:
                found.append(('optional refused|%s|%s' % (c.shape(), mode), 'unset OPTIONAL attribute not accepted (exit %s, severity %s)' % (rc, sev), files))
            continue
        lenient_ok = (mode == 'lenient' and c.kind in LENIENT_KINDS)
        if not lenient_ok:
            # "reports the instance as incomplete": the instance itself is marked incomplete (its editing state), and the report
            # names it - not only the file-level result
            st = states.get(mode, {}).get(c.k)
            if st is not None and st != 'I':
                found.append(('instance state|%s|%s' % (c.shape(), mode),
                              'instance #%d with a missing required %s is in state %s after the read, not incomplete' % (c.k, c.kind, st), files))
            elif st is not None and ('incomplete instance #%d' % c.k) not in msgs.get(mode, ''):
                found.append(('instance report|%s|%s' % (c.shape(), mode),
                              'no message reports instance #%d as incomplete' % c.k, dict(files, messages=msgs.get(mode, '')[-3000:])))
            if rc == 0 or sev is None or sev > SEV_INCOMPLETE:
                found.append(('required accepted|%s|%s' % (c.shape(), mode),
                              'missing required %s must make the read fail as incomplete in %s mode: exit %s, severity %s' % (c.kind, mode, rc, sev), files))
            continue
        # lenient substitution
        if rc != 0 or sev != SEV_USERMSG:
            found.append(('lenient substitution refused|required %s' % c.kind,
                          'missing required %s in lenient mode must be accepted with a user message: exit %s, severity %s' % (c.kind, rc, sev), files))
            continue
        # "accepts the file with a user message": a message naming the attribute must reach the user (p21read's output or the
        # reader's error text), not only a severity
        aname = c03.attr_list(c.lib.schema, c.pop.by_id()[c.k], c.pi)[c.j][1].name.lower()
        text = msgs.get(mode, '').lower()
        if 'missing and required' not in text or aname not in text:
            found.append(('lenient substitution|%s|no user message names the substituted attribute' % c.shape(),
                          'attribute %s: neither p21read nor the reader\'s error text mentions it' % aname, dict(files, messages=msgs.get(mode, '')[-3000:])))
        try:
            hdr, insts, kind = ref_p21.parse(out or '')
        except ref_p21.P21Error as e:
            found.append(('lenient substitution|%s|written file invalid' % c.shape(), str(e), dict(files, out=out or '')))
            continue
        gi = [i for i in insts if i.id == c.k]
        want_kw = [p for p in c.pop.by_id()[c.k].parts][c.pi][0]
        val = None
        if gi:
            for kw, vals in gi[0].parts:
                if kw == want_kw and c.j < len(vals):
                    val = vals[c.j]
        exp = LENIENT_KINDS[c.kind]
        okv = False
        if val is not None:
            if exp[0] == 'str':
                okv = val == ('str', '')
            elif exp[0] == 'int':
                okv = val == ('int', 0)
            else:
                okv = (val[0] == 'real' and val[1] == 0.0) or (c.kind == 'NUMBER' and val == ('int', 0))
        if not okv:
            found.append(('lenient substitution|%s|written value is not the documented filler' % c.shape(),
                          'written value %r, documented filler %r' % (val, exp), dict(files, out=out or '')))
    return found


def matrix(chk):
    s = c03.matrix_schema()
    lib = p21fam.build_libs([s])[0]
    if lib.fail is not None:
        chk.inconc('matrix schema library could not be built')
        return []
    rng = random.Random('c15-matrix')
    pg = gen_p21.PopGen(s, rng, avoid=AVOID_POP | {'complex', 'array_optional_null'}, strs=['a', "it''s"])
    pop = pg.population(n_extra=0, with_complex=False)
    insts = []
    for i in pop.insts:
        i = copy.deepcopy(i)
        kw = i.parts[0][0].lower()
        for j, (o, a, d) in enumerate(s.all_attrs(kw)):
            if i.parts[0][1][j] == ('null',):
                i.parts[0][1][j] = pg.value(a.type, i.id)
        insts.append(i)
    nid = max(i.id for i in insts) + 1
    from ..ref_p21 import Inst
    insts.append(Inst(nid, [('CX', [('int', 1)]), ('CX1', [('real', 1.5, '1.5'), ('str', 's')]), ('CX2', [('enum', 'RED'), ('int', 4)]),
                            ('CX3', [('typed', 'LABEL', ('str', 'q')), ('enum', 'T')])], True))
    pop = gen_p21.Population(s, insts)
    out = []
    for c in cases_for(lib, pop, random.Random(1)):
        out.append(c)
        if c.form == '$':
            out.append(Case(c.lib, c.pop, c.k, c.pi, c.j, c.kind, c.optional, c.where, 'empty'))
    chk.count('matrix_cases', len(out))
    return out


def main(chk):
    quick = chk.tier == 'quick'
    n_schemas, n_pops, limit = (8, 1, 40) if quick else (80, 3, 120)
    schemas = p21fam.std_corpus(chk.seed, n_schemas, AVOID_SCHEMA)
    libs = p21fam.report_build_failures(chk, p21fam.build_libs(schemas))
    cases = matrix(chk)
    for li, lib in enumerate(libs):
        for pi in range(n_pops):
            rng = random.Random('c15/%d/%s/%d' % (chk.seed, lib.schema.name, pi))
            pg = gen_p21.PopGen(lib.schema, rng, avoid=AVOID_POP, strs=['a', 'hello world', "it''s"])
            pop = pg.population(n_extra=rng.randint(0, 3), with_complex=True)
            if 'unfillable' in pop.tags:
                continue
            cases += cases_for(lib, pop, rng, limit)

    def work(c):
        return c, judge(chk, c)
    for c, found in run.pmap(work, cases):
        chk.seen(c.shape())
        chk.tag(('OPTIONAL ' if c.optional else 'required ') + c.kind)
        for key, what, files in found:
            chk.violation(key, what, files, dict(schema=c.lib.schema.name, instance=c.k, part=c.pi, attr=c.j))
        if not found and len(chk.samples) < 4:
            line = [l for l in render_case(c).splitlines() if l.startswith('#%d=' % c.k)]
            chk.sample(dict(case=c.shape(), instance=line[:1], verdict='matrix entry as documented in both modes'))
    return chk.finish(
        rule='every non-derived attribute position of a fixed matrix population (all kinds x required/OPTIONAL x own/complex part) and of seeded generated '
             'populations replaced by `$` or left empty, read in lenient and strict mode; distinct_nontrivial = distinct (optionality, kind, own/inherited/complex part, form)',
        assumptions=['documented matrix as stated in the property', 'masks inherited from C01'])
