"""C09 - Part 21 literals are read to their value and written in conforming form.

Executions: harness/litmon.cc (linked to the fixed schema below) calls STEPattribute::STEPread on `token ++ context`
for every (kind, token, context) and reports severity, is_null(), the typed value, the stream position after the call,
STEPwrite and asStr; for writer probes it sets a value through the typed pointer, prints STEPwrite/asStr and reads the
written text back.

Oracle: vf/c09_ref.py (independent lexer for the Part 21 token grammar of each kind):
  (a) valid & representable  -> no error (severity >= USERMSG), not unset, value exact
  (b) valid, not representable -> error severity; never silently unset / some value
  (c) invalid -> error severity, or (deliberate leniency) no error with exactly the lenient value
  (d) always: the reader stops at or before the delimiter (`,` / `)`), and an accepted valid token is consumed whole
  writer: STEPwrite output is a token of the kind's grammar, denotes the value set (reals: to the library's documented
  15 significant digits), and reading it back gives exactly what it denotes.
The token enumeration is exhaustive for the stated length bound (not sampled), so the key set does not depend on
the seed; the seed only permutes batch order and picks the samples shown in the evidence.
"""
import itertools, math
from decimal import Decimal
import os
import random
import re
from concurrent.futures import ProcessPoolExecutor

from .. import build, run
from .. import c09_ref as R

SCHEMA_TEXT = """SCHEMA lit;
TYPE en = ENUMERATION OF (a, at, t1, u_f, ta, taft); END_TYPE;
ENTITY tgt; x : OPTIONAL INTEGER; END_ENTITY;
ENTITY e;
  i : OPTIONAL INTEGER;
  r : OPTIONAL REAL;
  n : OPTIONAL NUMBER;
  s : OPTIONAL STRING;
  b : OPTIONAL BINARY;
  bo : OPTIONAL BOOLEAN;
  lo : OPTIONAL LOGICAL;
  en : OPTIONAL en;
  rf : OPTIONAL tgt;
  li : OPTIONAL LIST OF INTEGER;
  lr : OPTIONAL LIST OF REAL;
  ln : OPTIONAL LIST OF NUMBER;
  ls : OPTIONAL LIST OF STRING;
  lb : OPTIONAL LIST OF BINARY;
  lbo : OPTIONAL LIST OF BOOLEAN;
  llo : OPTIONAL LIST OF LOGICAL;
  len : OPTIONAL LIST OF en;
END_ENTITY;
END_SCHEMA;
"""

# ids for which a `tgt` instance exists: every number spelled with the digits 0 1 9 (up to 5 digits) that does not
# contain "90" - so the reference alphabet reaches both resolvable and unresolvable grammar-valid names
REF_IDS = frozenset(v for n in range(1, 6) for t in itertools.product('019', repeat=n)
                    for v in [int(''.join(t))] if v > 0 and '90' not in str(v)) | frozenset([2147483647, 2147483646, 32767, 65535])
# (the largest representable instance name exists too: an unrepresentable name must not silently resolve to it)

CONTEXTS = [(',', 'comma'), (')', 'paren'), (' ,', 'space'), ('/*c*/,', 'comment')]
CTX_NAMES = [c[1] for c in CONTEXTS]

ALPHABET = {                       # DESIGN.md C09 (W)
    'INTEGER': '019+-.E ',
    'REAL': '019+-.Ee ',
    'NUMBER': '019+-.Ee ',
    'STRING': "'\\SX204A ",
    'BINARY': '"013FG',
    'BOOLEAN': '.TFUA_1t',
    'LOGICAL': '.TFUA_1t',
    'ENUMERATION': '.TFUA_1t',
    'REFERENCE': '#@019-',
}
UNION = "019+-.Ee'\\\"$*#@TFUASXt_ 234"   # every kind also meets every short token over the union of the alphabets

BOUNDARY = {
    'INTEGER': ['2147483647', '2147483648', '-2147483648', '-2147483649', '4294967296', '9223372036854775806', '9223372036854775807',
                '9223372036854775808', '-9223372036854775807', '-9223372036854775808', '-9223372036854775809', '+9223372036854775806',
                '18446744073709551616', '99999999999999999999999999', '-99999999999999999999999999', '000000000000000000000000001',
                '1E5', '1.0', '0x10', '1e1', "'1'", '$1', '1$', '*', '-0', '+0', '007'],
    'REAL': ['1.0E308', '1.7976931348623157E308', '1.7976931348623159E308', '1.8E308', '1.0E309', '-1.0E309', '1.0E400', '1.0E+400',
             '1.0E4000000000', '1E400', '1.0e400', '.5E400', '1e400', '4.9E-324', '2.4E-324', '2.5E-324', '1.0E-400', '-1.0E-400', '2.2250738585072014E-308', '1.0E',
             '1.0E+', '1.0E-', '1.0e5', '1.0e', '1.E5', '.5', '5', '1E5', '+.5E1', '0.1', '0.30000000000000004', '9007199254740993.',
             '123456789012345678901234567890.', '0.000000000000000000000000000001', '1.1754943508222875E-38', '1.17549435E-38',
             '1.1754943508222874E-38', '-0.', '0.0E0', '1.0E+05', '1.0E-05', '00001.5', '1.5.', '1..5', '1.5E1.5', 'INF.', 'NAN.', '1.0D5',
             '1,5', '0x1.8p1', '1.' + '0' * 70, '1' * 70 + '.', '0.' + '0' * 70 + '1', "'1.0'", '$1.0', '*'],
    'NUMBER': ['1', '1.', '-1', '+1.5E2', '1E5', '1e5', '.5', '1.0E', '1E', '1.0E400', '1E400', '-1E400', '1e400', '.5E400', '1.0e400', '1.0E-400', '4.9E-324',
               '1.7976931348623157E308', '9223372036854775807', '9223372036854775808', '18446744073709551616', '9007199254740993',
               '1.1754943508222875E-38', 'inf', 'nan', 'INF', '0x10', '1.5.', '1' * 70, "'1'", '$1', '*', '-0', '-0.'],
    'STRING': ["''", "'a'", "'a''b'", "''''", "''''''", "'\\\\'", "'\\S\\A'", "'\\S\\''", "'\\S\\'''", "'\\S\\\\'", "'\\\\S\\\\'", "'a\\\\S\\\\'",
               "'\\\\S\\\\''a'", "'\\X\\4A'", "'\\X\\4'", "'\\X\\4G'", "'\\X\\'", "'\\X2\\00410042\\X0\\'", "'\\X2\\0041\\X0\\'", "'\\X2\\004\\X0\\'",
               "'\\X2\\0041'", "'\\X2\\\\X0\\'", "'\\X4\\00000041\\X0\\'", "'\\X4\\0041\\X0\\'", "'\\X0\\'", "'\\PA\\'", "'\\Pa\\'", "'\\P\\'", "'\\A'",
               "'\\'", "'\\''", "'\\N\\'", "'a", "a'", "'a'b", "'a' 'b'", "'a'''", "'''", "'", "a", '"a"', "'it''s'", "'a,b'", "'a)b'", "'/*c*/'",
               "'a/*'", "'#1'", "'$'", "'.T.'", "' '", "'  a  '", "'" + 'x' * 300 + "'", "'" + "''" * 40 + "'", "$'a'", "'a'$", "*"],
    'BINARY': ['"0"', '"1"', '"2"', '"3"', '"4"', '"9"', '"A"', '"F"', '""', '"0F"', '"3FF"', '"0f"', '"0G"', '"00"', '"0123456789ABCDEF"',
               '"0' + 'A5' * 100 + '"', '0F', '"0F', '0F"', '"0" "1"', '"0""1"', '" 0"', '"0 "', "'0F'", '$"0"', '"0"$', '*', '"', '" "'],
    'BOOLEAN': ['.T.', '.F.', '.U.', '.t.', '.f.', '.TRUE.', '.FALSE.', '.UNSET.', '.UNKNOWN.', '.unset.', 'T', 'F', '.T', 'T.', '..', '.', '. T.', '.T .',
                '.T.F.', '.T..', '.0.', '.1.', '1', '0', "'T'", '$.T.', '.T.$', '*', '.TF.', '._.', '._T.', '.T_.'],
    'LOGICAL': ['.T.', '.F.', '.U.', '.t.', '.f.', '.u.', '.TRUE.', '.FALSE.', '.UNSET.', '.UNKNOWN.', '.unset.', '.Unset.', 'U', '.U', 'U.', '..', '.',
                '.T.F.', '.1.', '.2.', '.3.', '1', "'U'", '$.U.', '.U.$', '*', '.UU.', '._.'],
    'ENUMERATION': ['.A.', '.AT.', '.T1.', '.U_F.', '.TA.', '.TAFT.', '.a.', '.at.', '.At.', '.t1.', '.u_f.', '.taft.', '.TAF.', '.TAFTA.', '.T.', '.U.', '.U_.',
                    '.UNSET.', '.unset.', 'A', 'AT', '.A', 'A.', '.A.T.', '.A..', '..A.', '.1A.', '._A.', '.A_.', '.A T.', '.0.', '.1.', '0', '1', "'A'",
                    '$.A.', '.A.$', '*', '.A' + 'A' * 300 + '.', '.AT', '.T1', '.-A.', '.A-.'],
    'REFERENCE': ['#1', '#9', '#10', '#11', '#19', '#91', '#99', '#101', '#90', '#901', '#2', '#0', '#00', '#01', '#001', '#0000000001', '#2147483647',
                  '#2147483648', '#4294967297', '#4294967296', '#99999999999', '#18446744073709551617', '#-1', '#+1', '# 1', '#  1', '#1 1', '#1#', '#1.',
                  '#1.0', '#1E1', '#0x1', '##1', '#', '@', '@1', '@9', '1', '-1', '#A', '#1A', "'#1'", '$#1', '#1$', '*', '#-0', '#+0', '#-'],
}

NOERR = 2      # SEVERITY_USERMSG; SEVERITY_NULL is 3; anything below is an error on the attribute


# ------------------------------------------------------------------------------------------------ workload
def tokens_over(alpha, maxlen, prefix=''):
    for n in range(0 if prefix else 1, maxlen - len(prefix) + 1):
        for t in itertools.product(alpha, repeat=n):
            yield prefix + ''.join(t)


def tier_bounds(tier):
    L, U = (5, 2) if tier == 'quick' else (7, 3)
    return int(os.environ.get('VERIF_C09_LEN') or L), U


def read_units(tier, tail=4):
    """Work units (kind, source, prefix): small specs, the worker expands them with unit_tokens().

    Every token is probed once per kind: the fixed boundary tokens, then every token of length <= U over the union
    alphabet, then every token of length <= L over the kind's alphabet not already covered by the first two."""
    L, U = tier_bounds(tier)
    units = []
    for kind in R.KINDS:
        units.append((kind, 'boundary', ''))
        for c in UNION:
            units.append((kind, 'union', c))
        p = max(1, L - tail)
        if p > 1:
            units.append((kind, 'short', ''))                     # tokens shorter than the prefix length
        for t in itertools.product(ALPHABET[kind], repeat=p):
            units.append((kind, 'alpha', ''.join(t)))
    return units, L, U


def unit_tokens(unit, tier):
    kind, src, prefix = unit
    L, U = tier_bounds(tier)
    bset = set(BOUNDARY[kind])
    uni = set(UNION)
    if src == 'boundary':
        return list(dict.fromkeys(BOUNDARY[kind]))
    if src == 'union':
        return [t for t in tokens_over(UNION, U, prefix) if t not in bset]

    def fresh(t):
        return t not in bset and not (len(t) <= U and uni.issuperset(t))
    if src == 'short':
        return [t for t in tokens_over(ALPHABET[kind], max(1, L - 4) - 1) if fresh(t)]
    return [t for t in tokens_over(ALPHABET[kind], L, prefix) if fresh(t)]


def writer_values(kind, tier):
    """Values set through the typed pointer, as the text the harness parses."""
    quick = tier == 'quick'
    if kind == 'INTEGER':
        vs = set()
        for k in range(0, 64):
            for b in (2 ** k, 10 ** k if k < 19 else 1):
                for d in (-1, 0, 1):
                    for s in (1, -1):
                        v = s * (b + d)
                        if R.INT_MIN <= v <= R.INT_MAX and v != R.INT_SENTINEL:
                            vs.add(v)
        return [str(v) for v in sorted(vs)]
    if kind in ('REAL', 'NUMBER'):
        ms = [1.0, 1.0 - 2.0 ** -53, 1.0 + 2.0 ** -52, 1.5, 9.99999999999999, 9.999999999999998, 0.1, 2.0 ** -52, 1.2345678901234567, 5.0, 2.5, 123456.789]
        vs = set([0.0, -0.0, 1.7976931348623157e308, -1.7976931348623157e308, 2.2250738585072014e-308, 4.9e-324, -4.9e-324, 2.2250738585072009e-308,
                  1e15, 1e16, 999999999999999.0, 9999999999999998.0, 1e22, 1e23, 123456789012345678.0, 0.001, 0.0001, 0.00001, 1.0 / 3.0, 2.0 / 3.0,
                  1.17549435e-38, 3.4028234663852886e38, 100000.0, 1000000.0, 0.5, 0.30000000000000004, 4503599627370496.5, 9007199254740992.0])
        fm = R.REAL_SENTINEL                                       # neighbours of the in-band null marker are ordinary values
        vs.update([math.nextafter(fm, 1.0), math.nextafter(fm, 0.0), fm * (1 + 2.0 ** -24), fm * (1 - 2.0 ** -24), fm * (1 + 2.0 ** -30), -fm])
        step = 1
        for e in range(-300, 301, step):
            for m in ms:
                for s in (1.0, -1.0):
                    v = s * float(Decimal(m).scaleb(e))            # correctly rounded m * 10^e
                    vs.add(v)
        out = ['-0.0']                                              # (a set holds only one of 0.0 / -0.0)
        for v in sorted(vs, key=lambda x: (abs(x), repr(x))):
            if v != v or v in (float('inf'), float('-inf')) or v == R.REAL_SENTINEL:
                continue
            out.append(repr(v))
        return out
    if kind == 'STRING':
        n = 4 if quick else 6
        out = []
        for t in itertools.chain(BOUNDARY['STRING'], tokens_over(ALPHABET['STRING'], n)):
            if t[:1] == "'" and len(t) < 200:
                end, bad = R.lex_string(t)
                if end == len(t) and not bad:
                    out.append(t)
        return sorted(set(out))
    if kind == 'BINARY':
        return sorted(set(a + ''.join(b) for a in '0123' for n in range(0, 3 if quick else 4) for b in itertools.product('019AF', repeat=n)))
    if kind in R.ORDINALS:
        return [str(v) for v in sorted(R.ORDINALS[kind].values())]
    if kind == 'REFERENCE':
        return [str(v) for v in sorted(REF_IDS) if v < 200 or v > 90000]
    raise ValueError(kind)


# ------------------------------------------------------------------------------------------------ running
_CTX = {}


def _setup():
    """(binary, env) - built once per process; workers inherit it through fork."""
    if 'bin' not in _CTX:
        d, fail = build.schema_lib('san', SCHEMA_TEXT, ['litmon.cc'], tag='c09')
        if d is None:
            raise build.BuildError('litmon/schema library failed: %s' % (fail,))
        _CTX['bin'] = os.path.join(d, 'litmon')
        _CTX['env'] = build.env(build.core('san'))
        _CTX['ids'] = ','.join(str(v) for v in sorted(REF_IDS))
    return _CTX['bin'], _CTX['env'], _CTX['ids']


def _hex(s):
    return s.encode('latin-1').hex()


def _unhex(h):
    return '' if h == '-' else bytes.fromhex(h).decode('latin-1')


def run_probes(lines):
    """lines: ['R 0 <hex>', ...] -> (outputs aligned with lines (None where the process died), crashes)

    crashes: list of (index, Result) - the probe announced by the last `B n` marker of a process that died.
    After a crash the remaining probes are run in a new process, so every probe gets a verdict or an attribution.
    """
    exe, env, ids = _setup()
    outs = [None] * len(lines)
    crashes = []
    start = 0
    guard = 0
    while start < len(lines) and guard < 50:
        guard += 1
        r = run.run([exe, ids], env=env, timeout=600, stdin=('\n'.join(lines[start:]) + '\n'), maxout=1 << 30)
        last = -1
        ended = False
        pend = None
        for ln in r.out.split('\n'):
            if not ln:
                continue
            c = ln[0]
            if c == 'B':
                pend = int(ln[2:])
                last = pend
            elif c in 'RW' and pend is not None:
                outs[start + pend] = ln
                pend = None
            elif c == 'E':
                ended = True
        if ended and not r.crashed():
            break
        if r.timed_out and not r.crashed():
            crashes.append((None, r))
            break
        bad = start + max(last, 0)
        outs[bad] = None
        crashes.append((bad, r))
        start = bad + 1
    return outs, crashes


def ctx_label(names):
    s = set(names)
    if s == set(CTX_NAMES):
        return 'any context'
    if s == set(CTX_NAMES) - {'comment'}:
        return 'delimiter directly or after a space'
    if s == {'comment'}:
        return 'comment before the delimiter'
    if s <= {'comma', 'paren'}:
        return 'delimiter directly'
    if s == {'space'}:
        return 'space before the delimiter'
    return '+'.join(n for n in CTX_NAMES if n in s)


def values_equal(kind, got, want):
    if kind in ('REAL', 'NUMBER'):
        try:
            return R.same_real(float(got), want)
        except ValueError:
            return False
    return got == want


def judge_read(exp, ctx, obs):
    """One read probe -> list of symptoms (empty = conforms).  obs = (sev, null, value, pos, written, asstr)."""
    sev, null, val, pos, wr, _as = obs
    kind = exp.kind
    err = sev < NOERR
    out = []
    st = exp.status
    accepted = False
    if st == 'valid':
        if err:
            out.append('error on valid token')
        elif null:
            out.append('no error & unset')
        elif not values_equal(kind, val, exp.value):
            out.append('no error & wrong value')
        else:
            accepted = True
    elif st == 'unrep':
        if not err:
            out.append('no error & unset' if null else 'no error & wrong value')
    elif st == 'invalid':
        if not err:
            if null:
                out.append('no error & unset')
            elif exp.lenient is not None and values_equal(kind, val, exp.lenient):
                accepted = True
            else:
                out.append('no error & value accepted')
    elif st == 'null':
        if err:
            out.append('error on valid token')
        elif not null:
            out.append('no error & wrong value')
    if not exp.open_string:
        stream_delim = len(exp.token) + len(ctx) - 1
        if pos > stream_delim or pos < 0:
            out.append('delimiter consumed')
        elif accepted and pos < len(exp.token.rstrip(' ')):
            out.append('token not consumed whole')
    if accepted and not R.written_token_ok(kind, wr):
        out.append('writer token non-conforming')
    return out


def work_read(unit, tier):
    """Worker: run one unit of read probes and judge it.  Returns a picklable summary."""
    kind = unit[0]
    toks = unit_tokens(unit, tier)
    if not toks:
        return dict(ev=0, seen=set(), tags={}, viol={}, crashes=[], samples=[], lenient=0, noverdict=0)
    ai = R.ATTR_INDEX[kind]
    lines = []
    for t in toks:
        for c, _n in CONTEXTS:
            lines.append('R %d %s' % (ai, _hex(t + c)))
    outs, crashes = run_probes(lines)
    res = dict(ev=0, seen=set(), tags={}, viol={}, crashes=[], samples=[], lenient=0, noverdict=0)
    tags = res['tags']
    crashed_idx = set(i for i, _r in crashes if i is not None)
    for i, r in crashes:
        if i is None:
            res['crashes'].append((kind, None, 'timeout', r.symptom(), r.err[-3000:]))
            continue
        t = toks[i // 4]
        exp = R.classify(kind, t, REF_IDS)
        res['crashes'].append((kind, t + CONTEXTS[i % 4][0], exp.cls, r.symptom(), r.err[-3000:]))
    for ti, t in enumerate(toks):
        exp = R.classify(kind, t, REF_IDS)
        per = {}
        for ci, (c, cname) in enumerate(CONTEXTS):
            ln = outs[ti * 4 + ci]
            if ln is None:
                if (ti * 4 + ci) not in crashed_idx:
                    res['noverdict'] += 1
                continue
            f = ln.split(' ')
            obs = (int(f[1]), f[2] == '1', _unhex(f[3]), int(f[4]), _unhex(f[5]), _unhex(f[6]))
            res['ev'] += 1
            syms = judge_read(exp, c, obs)
            for s in syms:
                per.setdefault(s, []).append((cname, obs))
            if not syms and exp.status == 'invalid' and obs[0] >= NOERR:
                res['lenient'] += 1
                tags['lenient reading accepted: %s %s' % (kind, exp.cls)] = tags.get('lenient reading accepted: %s %s' % (kind, exp.cls), 0) + 1
            res['seen'].add((kind, exp.cls, cname))
            if len(res['samples']) < 2 and exp.status == 'valid' and not syms and len(t) > 2:
                res['samples'].append(dict(kind=kind, stream=t + c, expected=str(exp.value), severity=obs[0], is_null=obs[1], value=obs[2],
                                           position_after=obs[3], written=obs[4], verdict='conforms'))
        tk = 'read %s: %s' % (kind, exp.status)
        tags[tk] = tags.get(tk, 0) + 1
        for s, hits in per.items():
            who = 'any' if (exp.shared or (s == 'error on valid token' and [h[0] for h in hits] == ['comment'])) else kind
            cls = exp.cls if who != 'any' or exp.shared else 'valid token'
            key = '%s|%s|%s|%s' % (who, cls, ctx_label(h[0] for h in hits), s)
            v = res['viol'].get(key)
            ex = dict(kind=kind, token=t, contexts=[h[0] for h in hits], status=exp.status, token_class=exp.cls, expected=repr(exp.value if exp.status == 'valid' else exp.lenient),
                      observed=[dict(context=h[0], severity=h[1][0], is_null=h[1][1], value=h[1][2], position_after=h[1][3], written=h[1][4]) for h in hits])
            if v is None:
                res['viol'][key] = [1, ex]
            else:
                v[0] += 1
                if (len(t), t, kind) < (len(v[1]['token']), v[1]['token'], v[1]['kind']):
                    v[1] = ex
    return res


def real_class(v):
    a = abs(v)
    if a == 0.0:
        return 'zero'
    if R.rounds_out_of_range(v):
        return 'largest doubles whose 15-digit rounding exceeds the double range'
    if a < 2.2250738585072014e-308:
        return 'subnormal'
    if a < 1e-4:
        return 'magnitude below 1E-4'
    if a >= 1e15:
        return 'magnitude from 1E15'
    if v == int(v):
        return 'integral value'
    return 'fraction'


def int_class(v):
    a = abs(v)
    return 'magnitude up to 2^31' if a <= 2 ** 31 else 'magnitude above 2^31'


def work_write(unit):
    kind, vals = unit
    ai = R.ATTR_INDEX[kind]
    lines = ['W %d %s' % (ai, _hex(v)) for v in vals]
    outs, crashes = run_probes(lines)
    res = dict(ev=0, seen=set(), tags={}, viol={}, crashes=[], samples=[], lenient=0, noverdict=0)
    crashed_idx = set(i for i, _r in crashes if i is not None)
    for i, r in crashes:
        res['crashes'].append((kind, None if i is None else 'write ' + vals[i], 'writer probe', r.symptom(), r.err[-3000:]))
    for i, v in enumerate(vals):
        ln = outs[i]
        if ln is None:
            if i not in crashed_idx:
                res['noverdict'] += 1
            continue
        f = ln.split(' ')
        wr, asr, null0, sev, null, back, pos = _unhex(f[1]), _unhex(f[2]), f[3] == '1', int(f[4]), f[5] == '1', _unhex(f[6]), int(f[7])
        res['ev'] += 1
        syms = []
        if kind == 'INTEGER':
            vc = int_class(int(v))
        elif kind in ('REAL', 'NUMBER'):
            vc = real_class(float(v))
        elif kind == 'STRING':
            vc = R.classify(kind, v).cls
        else:
            vc = 'value'
        res['seen'].add((kind, 'write', vc, len(wr) if kind in ('REAL', 'NUMBER', 'INTEGER') else 0))
        tk = 'write %s: %s' % (kind, vc)
        res['tags'][tk] = res['tags'].get(tk, 0) + 1
        if null0:
            syms.append(('value set through the typed pointer counts as unset', ''))
        elif not R.written_token_ok(kind, wr):
            syms.append(('writer token non-conforming', 'wrote %r' % wr))
        else:
            # what the written token denotes
            if kind == 'INTEGER':
                den_ok, want_back = (int(wr) == int(v)), str(int(wr))
            elif kind in ('REAL', 'NUMBER'):
                d = float(wr)
                den_ok, want_back = R.real_close(wr, float(v)), d
            elif kind == 'STRING':
                den_ok, want_back = (wr == v), wr
            elif kind == 'BINARY':
                den_ok, want_back = (wr == '"%s"' % v), wr[1:-1]
            elif kind in R.ORDINALS:
                inv = {o: n for n, o in R.ORDINALS[kind].items()}
                den_ok, want_back = (wr == '.%s.' % inv[int(v)]), v
            else:
                den_ok, want_back = (wr == '#%d' % int(v)), v
            if not den_ok:
                syms.append(('write-read mismatch', 'value %s written as %r' % (v, wr)))
            elif sev < NOERR or null or not values_equal(kind, back, want_back) or pos != len(wr):
                syms.append(('write-read mismatch', 'value %s written as %r reads back severity %d is_null %s value %r position %d' % (v, wr, sev, null, back, pos)))
            # the same token as the only element of a LIST OF <kind>: the element writer must render it identically
            if not syms and kind != 'REFERENCE' and len(f) > 9 and f[8] != '-':
                aggw, aggsev = _unhex(f[8]), int(f[9])
                res['seen'].add((kind, 'write as aggregate element', vc, len(aggw)))
                if aggsev < NOERR or aggw != '(' + wr + ')':
                    syms.append(('aggregate element written differently from the scalar', 'value %s: scalar %r, LIST element read severity %d written %r' % (v, wr, aggsev, aggw)))
            # asStr is the display form: it must still denote the value
            if kind == 'INTEGER':
                as_ok = asr == str(int(v))
            elif kind in ('REAL', 'NUMBER'):
                as_ok = R.real_close(asr, float(v))
            elif kind == 'STRING':
                as_ok = asr == v
            elif kind == 'BINARY':
                as_ok = asr == '"%s"' % v
            elif kind in R.ORDINALS:
                as_ok = asr == {o: n for n, o in R.ORDINALS[kind].items()}[int(v)]
            else:
                as_ok = asr == '#%d' % int(v)
            if not as_ok:
                syms.append(('asStr denotes another value', 'value %s asStr %r' % (v, asr)))
        if not syms and len(res['samples']) < 1 and len(wr) > 4:
            res['samples'].append(dict(kind=kind, value_set=v, written=wr, asStr=asr, read_back=back, verdict='conforms'))
        for s, det in syms:
            key = '%s|%s|writer|%s' % (kind, vc, s)
            ex = dict(kind=kind, token=v, value_set=v, written=wr, asStr=asr, read_back=dict(severity=sev, is_null=null, value=back, position_after=pos), detail=det)
            e = res['viol'].get(key)
            if e is None:
                res['viol'][key] = [1, ex]
            else:
                e[0] += 1
                if (len(v), v) < (len(e[1]['token']), e[1]['token']):
                    e[1] = ex
    return res


def _work(job):
    return work_read(job[1], job[2]) if job[0] == 'r' else work_write(job[1])


def replay_text(ex):
    """Input lines for harness/litmon that reproduce one recorded example."""
    ai = R.ATTR_INDEX[ex['kind']]
    if 'value_set' in ex:
        return 'W %d %s\n' % (ai, _hex(ex['value_set']))
    cs = dict((n, c) for c, n in CONTEXTS)
    return ''.join('R %d %s\n' % (ai, _hex(ex['token'] + cs[c])) for c in ex['contexts'])


def main(chk):
    _setup()
    units, L, U = read_units(chk.tier)
    jobs = [('r', u, chk.tier) for u in units]
    for kind in R.KINDS:
        vals = writer_values(kind, chk.tier)
        for i in range(0, len(vals), 4000):
            jobs.append(('w', (kind, vals[i:i + 4000])))
    random.Random('c09/%d/order' % chk.seed).shuffle(jobs)       # order only; the set of probes is the same for every seed
    nproc = min(run.NCPU, 16, max(1, len(jobs)))
    merged = {}
    samples = []
    with ProcessPoolExecutor(nproc) as ex:
        for res in ex.map(_work, jobs, chunksize=2):
            chk.ev(res['ev'])
            for s in res['seen']:
                chk.seen(*s)
            for t, n in res['tags'].items():
                chk.tag(t, n)
            chk.count('lenient_readings_accepted', res['lenient'])
            if res['noverdict']:
                chk.inconc('%d probes got no verdict (harness output missing)' % res['noverdict'])
            samples += res['samples']
            for kind, stream, cls, sym, err in res['crashes']:
                if stream is None:
                    chk.inconc('litmon batch for %s hit the watchdog (%s)' % (kind, sym))
                    continue
                key = 'crash|%s|%s|%s' % (kind, cls, sym)
                fr = ['%s %s' % (m.group(1).split('(')[0], os.path.basename(m.group(2))) for m in re.finditer(r'#\d+ 0x[0-9a-f]+ in (.+?) (\S+?):\d+', err)][:2]
                stdin = ('W %d %s\n' % (R.ATTR_INDEX[kind], _hex(stream[6:]))) if cls == 'writer probe' else ('R %d %s\n' % (R.ATTR_INDEX[kind], _hex(stream)))
                chk.violation(key, 'litmon died on probe %r: %s %s' % (stream[:80], sym, fr), {'stderr.txt': err, 'schema.exp': SCHEMA_TEXT, 'litmon.stdin': stdin},
                              dict(kind=kind, stream=stream))
            for key, (n, exm) in res['viol'].items():
                m = merged.get(key)
                if m is None:
                    merged[key] = [n, exm]
                else:
                    m[0] += n
                    if (len(exm['token']), exm['token'], exm['kind']) < (len(m[1]['token']), m[1]['token'], m[1]['kind']):
                        m[1] = exm
    for key in sorted(merged):
        n, exm = merged[key]
        chk.count('divergent_probes_or_tokens', n)
        what = '%d tokens/values; smallest: %s' % (n, _describe(exm))
        chk.violation(key, what, {'litmon.stdin': replay_text(exm), 'schema.exp': SCHEMA_TEXT,
                                  'README.txt': 'litmon <ids> < litmon.stdin   (ids: comma separated REF_IDS of vf/props/c09.py)\n'}, exm)
    rng = random.Random('c09/%d/samples' % chk.seed)
    samples.sort(key=lambda d: (d['kind'], str(d)))
    rng.shuffle(samples)
    shown = {}
    for s in samples:                                            # one sample per (kind, reader/writer), seed-chosen
        shown.setdefault((s['kind'], 'value_set' in s), s)
    picks = sorted(shown.values(), key=lambda d: (d['kind'], str(d)))
    rng.shuffle(picks)
    for s in picks[:5]:
        chk.sample(s)
    return chk.finish(
        rule='reader: every token string of length <= %d over each kind\'s alphabet %s, every token of length <= %d over the union alphabet %r and %d fixed '
             'boundary tokens, each for all 9 kinds where applicable and in the 4 delimiter contexts %s (exhaustive, no sampling); writer: integers '
             '+-(2^k, 10^k, +-1), reals m*10^e for e in -300..300 with 12 boundary mantissas, every valid string literal over the string alphabet, binaries, '
             'every enumeration item, references.  distinct_nontrivial = distinct (kind, token class computed by the reference lexer, delimiter context) '
             'triples judged, plus distinct (kind, value class, written length) for the writer'
             % (L, dict(ALPHABET), U, UNION, sum(len(v) for v in BOUNDARY.values()), [c for c, _n in CONTEXTS]),
        assumptions=['vf/c09_ref.py implements the token grammar of doc/iso-10303-21--2002.bnf; Python float() is correctly rounded',
                     'all attributes are OPTIONAL so that `$` is a legal value; the substitution done for missing mandatory values is C15\'s subject',
                     'documented in-band null sentinels are excluded: integer LONG_MAX and real FLT_MIN read/written as unset',
                     'real underflow (1.0E-400) is judged against the correctly rounded value 0.0, only overflow counts as unrepresentable',
                     'stepcode stores STRING values as the undecoded literal including the apostrophes; the value compared is that raw text',
                     'lenient readings tolerated without an error: case-folded enumeration/boolean/logical items, a C-locale decimal spelling of the '
                     'whole number token, `#` followed by what strtol reads as the id',
                     'skipping white space or a comment before the delimiter is not "consuming the delimiter"; an unterminated apostrophe string owns the rest of the stream',
                     'gcc ASan/UBSan runtimes (san flavour)'],
        exhaustive=True)


def _describe(ex):
    if 'value_set' in ex:
        return '%s value %s: %s' % (ex['kind'], ex['value_set'], ex.get('detail'))
    o = ex['observed'][0]
    return '%s stream %r (%s, class %r, expected %s) -> severity %d is_null %s value %r position %d' % (
        ex['kind'], ex['token'] + dict((n, c) for c, n in CONTEXTS)[o['context']], ex['status'], ex['token_class'], ex['expected'],
        o['severity'], o['is_null'], o['value'], o['position_after'])


def replay(chk, d):
    """Re-run the recorded example against the current tree: exit 1 when it still diverges, 0 when it conforms now."""
    import json
    case = json.load(open(os.path.join(d, 'case.json')))
    exe, env, ids = _setup()
    print('recorded: %s\n  %s' % (case['key'], case['what']))
    r = run.run([exe, ids], env=env, timeout=120, stdin=open(os.path.join(d, 'litmon.stdin')).read())
    for ln in r.out.splitlines():
        f = ln.split(' ')
        if f[0] == 'R':
            print('  read : severity=%s is_null=%s value=%r position_after=%s STEPwrite=%r asStr=%r' % (f[1], f[2], _unhex(f[3]), f[4], _unhex(f[5]), _unhex(f[6])))
        elif f[0] == 'W':
            print('  write: STEPwrite=%r asStr=%r is_null_after_set=%s | read back: severity=%s is_null=%s value=%r position_after=%s'
                  % (_unhex(f[1]), _unhex(f[2]), f[3], f[4], f[5], _unhex(f[6]), f[7]))
    if r.crashed():
        print('  litmon: %s' % r.symptom())
        print('VIOLATION property=C09 replay=%s (still crashes)' % d)
        return 1
    ex = case.get('case') or {}
    found = {}
    if 'value_set' in ex:
        found = work_write((ex['kind'], [ex['value_set']]))['viol']
    elif 'token' in ex:
        exp = R.classify(ex['kind'], ex['token'], REF_IDS)
        cs = dict((n, c) for c, n in CONTEXTS)
        lines = ['R %d %s' % (R.ATTR_INDEX[ex['kind']], _hex(ex['token'] + cs[c])) for c in ex['contexts']]
        outs, _cr = run_probes(lines)
        for c, ln in zip(ex['contexts'], outs):
            if ln:
                f = ln.split(' ')
                for sy in judge_read(exp, cs[c], (int(f[1]), f[2] == '1', _unhex(f[3]), int(f[4]), _unhex(f[5]), _unhex(f[6]))):
                    found.setdefault(sy, []).append(c)
    if found:
        print('VIOLATION property=C09 replay=%s still diverges: %s' % (d, sorted(found)))
        return 1
    print('replayed example conforms on the current tree')
    return 0
