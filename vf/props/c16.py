"""C16 - working-session files round-trip populations with per-instance state.

p21mon: read X (exchange); dump B; states sigma; writews W1; fresh; readws W1; dump D; writews W2; fresh; readws W2; writews W3.
Oracle: instances of D == instances of B minus exactly those marked deleted, same ids/order/STEPwrite text; state of each
survivor == sigma; W2 == W1 with the `D#..` records removed (time stamp masked); W3 == W2.
"""
import copy
import random
import re
from .. import gen_p21, p21fam, ref_p21, run, probes
from . import c03

AVOID_SCHEMA = probes.masked_schema_features('C01')
AVOID_POP = probes.masked_pop_features('C01')
STATE_AFTER_READ = {True: 'C', False: 'I'}


def strip_deleted(ws_text):
    """Remove the records of instances marked deleted (`D [comments] #id = ... ;`) from a working-session file text,
    using the reference tokenizer (comments between the state letter and the id, `;` inside strings)."""
    try:
        toks = ref_p21.tokenize(ws_text, keep_comments=True)
    except ref_p21.P21Error:
        return ws_text
    cuts = []
    i = 0
    n = len(toks)
    while i < n:
        k, t, pos = toks[i]
        if k == 'kw' and t == 'D':
            j = i + 1
            while j < n and toks[j][0] == 'cmt':
                j += 1
            if j < n and toks[j][0] == 'ref':
                while j < n and not (toks[j][0] == 'p' and toks[j][1] == ';'):
                    j += 1
                if j < n:
                    endp = toks[j][2] + 1
                    while endp < len(ws_text) and ws_text[endp] in ' \t\r':
                        endp += 1
                    if endp < len(ws_text) and ws_text[endp] == '\n':
                        endp += 1
                    cuts.append((pos, endp))
                    i = j + 1
                    continue
        i += 1
    out, last = [], 0
    for a, b in cuts:
        out.append(ws_text[last:a])
        last = b
    out.append(ws_text[last:])
    return ''.join(out)


def make_incomplete(schema, pop, rng, frac=.3, strict=False):
    """Blank some REQUIRED attributes whose kind gets no lenient substitution -> those instances are incomplete."""
    insts, incomplete = [], set()
    refd = set()
    for i in pop.insts:
        refd.update(ref_p21.inst_refs(i))
    for i in pop.insts:
        if rng.random() < frac and not i.complex:
            kw = i.parts[0][0].lower()
            cands = [j for j, (o, a, d) in enumerate(schema.all_attrs(kw))
                     if not d and not a.optional and c03.kind_of(schema, a.type) in (('enum', 'BOOLEAN', 'LOGICAL', 'entity', 'aggregate', 'BINARY') + (('STRING',) if strict else ()))
                     and i.parts[0][1][j] != ('null',)]
            if cands:
                i = copy.deepcopy(i)
                i.parts[0][1][rng.choice(cands)] = ('null',)
                incomplete.add(i.id)
        insts.append(i)
    return gen_p21.Population(schema, insts, pop.header), incomplete


RELOADS = ('fresh', 'purge', 'clear', 'purge after another file', 'clear after another file')
# how the session is emptied before the saved file is read back; "after another file": the same session object has meanwhile
# read an unrelated exchange file whose header has five entities (edition-2 SECTION_LANGUAGE / SECTION_CONTEXT)


def judge(chk, lib, pop, sigma, tagset, reload='fresh', strict=False):
    # instance comments are stored with the instance and written between the state letter and '#id' in working-session files
    variant = 'cmt_between' if 'instance comments' in tagset else 'compact'
    text = gen_p21.render(pop, variant, random.Random('c16r/%s/%d' % (lib.schema.name, len(pop.insts))))
    files = {'schema.exp': lib.schema.text(), 'in.p21': text, 'states.txt': ','.join('%d:%s' % kv for kv in sorted(sigma.items()))}
    found = []
    shape = ('+'.join(sorted(tagset)) or 'plain') + ('' if reload == 'fresh' else ', reloaded into the same session (%s)' % reload) + (', strict session' if strict else '')
    other = None
    if reload.endswith('after another file'):
        reload = reload.split()[0]
        other = gen_p21.render(gen_p21.Population(pop.schema, pop.insts[:1], pop.header), 'compact')
        other = other.replace('ENDSEC;\nDATA;', "SECTION_LANGUAGE($,'en');\nSECTION_CONTEXT($,('other context'));\nENDSEC;\nDATA;", 1)
        other = other.replace("FILE_DESCRIPTION((", "FILE_DESCRIPTION(('the other file',", 1)
        files['other.p21'] = other
    with p21fam.Scratch('c16') as sc:
        inp = sc.write('in.p21', text)
        between = [reload] if other is None else [reload, 'read', sc.write('other.p21', other), reload]
        spec = ','.join('%d:%s' % kv for kv in sorted(sigma.items()))
        # history: an append of something that is not a STEP file is refused and leaves the population alone - and must not
        # change what the next save writes (the error it leaves in the session object is not the save's error)
        rej = []
        if 'refused append before each save' in tagset:
            files['notes.txt'] = 'shopping list: eggs, milk\n'
            rej = ['appendws' if len(pop.insts) % 2 else 'append', sc.write('notes.txt', files['notes.txt'])]
        ops = (['strict'] if strict else []) + ['read', inp, 'dump', sc.path('b.txt')] + (['states', spec] if spec else []) + rej + \
              ['writews', sc.path('w1.ws')] + between + ['readws', sc.path('w1.ws'), 'dump', sc.path('d.txt')] + rej + ['writews', sc.path('w2.ws')] + \
              between + ['readws', sc.path('w2.ws'), 'writews', sc.path('w3.ws')]
        r = p21fam.mon(lib, ops, sc.d)
        chk.ev()
        if r.crashed() or r.timed_out:
            return [('crash|%s|%s' % (shape, r.symptom()), '%s %s' % (r.symptom(), run.san_frames(r.err)), dict(files, stderr=r.err[-4000:]))]
        nb, hb, base = p21fam.parse_dump(sc.read('b.txt'))
        nd, hd, after = p21fam.parse_dump(sc.read('d.txt'))
        w1, w2, w3 = sc.read('w1.ws'), sc.read('w2.ws'), sc.read('w3.ws')
        files.update({'w1.ws': w1 or '', 'w2.ws': w2 or '', 'dump_before.txt': sc.read('b.txt') or '', 'dump_after.txt': sc.read('d.txt') or ''})
        if w1 is None or w2 is None or w3 is None:
            return [('write|%s|working-session file not written' % shape, r.out[-600:], files)]
        try:
            ref_p21.parse(w1)
        except ref_p21.P21Error as e:
            found.append(('syntax|%s|working-session file is not well-formed' % shape, str(e), files))
        state0 = {iid: st for (iid, st, name, idx, sfid, txt) in base}
        want_state = dict(state0)
        want_state.update(sigma)
        deleted = set(i for i, s in want_state.items() if s == 'D')
        want = [(iid, txt) for (iid, st, name, idx, sfid, txt) in base if iid not in deleted]
        got = [(iid, txt) for (iid, st, name, idx, sfid, txt) in after]
        if [i for i, _t in want] != [i for i, _t in got]:
            wi, gi = [i for i, _t in want], [i for i, _t in got]
            missing = [i for i in wi if i not in gi]
            extra = [i for i in gi if i not in wi]
            if extra and set(extra) <= deleted:
                found.append(('population|%s|deleted instances present after reload' % shape, 'ids %s' % extra[:6], files))
            elif missing:
                sts = sorted(set(want_state[i] for i in missing))
                found.append(('population|%s|instances in state %s lost by save+reload' % (shape, '/'.join(sts)), 'ids %s' % missing[:6], files))
            else:
                found.append(('population|%s|instance order changed by save+reload' % shape, 'want %s got %s' % (wi[:8], gi[:8]), files))
        else:
            for (iid, wt), (_i, gt) in zip(want, got):
                if wt != gt:
                    found.append(('value|%s|instance differs after save+reload (state %s)' % (shape, want_state[iid]),
                                  '#%d before %r after %r' % (iid, wt[:200], gt[:200]), files))
                    break
            st_after = {iid: st for (iid, st, name, idx, sfid, txt) in after}
            bad = [(i, want_state[i], st_after[i]) for i, _t in want if st_after.get(i) != want_state[i]]
            if bad:
                kinds = sorted(set('%s->%s' % (a, b) for _i, a, b in bad))
                found.append(('state|%s|editing state not restored (%s)' % (shape, ', '.join(kinds)), 'first: #%d saved %s reloaded %s' % bad[0], files))
        m = p21fam.mask_timestamp
        if m(strip_deleted(w1)) != m(w2):
            a, b = m(strip_deleted(w1)).splitlines(), m(w2).splitlines()
            dl = [(x, y) for x, y in zip(a, b) if x != y][:1]
            found.append(('stability|%s|second save differs from first (deleted records aside)' % shape, 'first differing line %r; lines %d vs %d' % (dl, len(a), len(b)), files))
        if m(w3) != m(w2):
            found.append(('stability|%s|third save differs from second' % shape, '', dict(files, **{'w3.ws': w3})))
    return found


def main(chk):
    quick = chk.tier == 'quick'
    n_schemas, n_pops, n_sig = (10, 6, 6) if quick else (200, 12, 10)
    schemas = p21fam.std_corpus(chk.seed, n_schemas, AVOID_SCHEMA)
    libs = p21fam.report_build_failures(chk, p21fam.build_libs(schemas))
    cases = []
    for li, lib in enumerate(libs):
        for pi in range(n_pops):
            rng = random.Random('c16/%d/%s/%d' % (chk.seed, lib.schema.name, pi))
            pg = gen_p21.PopGen(lib.schema, rng, avoid=AVOID_POP, strs=['', 'a', "it''s", 'x\\\\y', '#12', 'p; q', ";'';", 'ENDSEC;'])
            pop = pg.population(n_extra=rng.randint(0, 4), with_complex=True)
            if 'unfillable' in pop.tags:
                continue
            tags0 = set()
            strict = pi % 4 == 3       # a strict session keeps unset required attributes unset (no lenient filler): so must the reload
            if pi % 3 == 2 or strict:
                pop, inc = make_incomplete(lib.schema, pop, rng, strict=strict)
                if inc:
                    tags0.add('partially filled')
            if any(i.complex for i in pop.insts):
                tags0.add('complex')
            if pi % 2 == 1:
                tags0.add('instance comments')
            refd = set()
            for i in pop.insts:
                refd.update(ref_p21.inst_refs(i))
            ids = [i.id for i in pop.insts]
            for si in range(n_sig):
                sigma = {}
                tags = set(tags0)
                if si > 0:
                    for iid in ids:
                        x = rng.random()
                        if x < .2:
                            sigma[iid] = 'N'
                        elif x < .35:
                            sigma[iid] = 'I'
                        elif x < .5:
                            sigma[iid] = 'C'
                        elif x < .65 and iid not in refd and si % 2 == 1:
                            sigma[iid] = 'D'
                    for v in set(sigma.values()):
                        tags.add({'N': 'new', 'I': 'incomplete', 'C': 'complete', 'D': 'deleted'}[v])
                if (pi + 2 * si) % 3 == 0:
                    tags.add('refused append before each save')
                cases.append((lib, pop, sigma, tags | ({'strict session'} if strict else set()), RELOADS[(pi + si) % len(RELOADS)], strict))

    def work(c):
        return c, judge(chk, *c)
    for (lib, pop, sigma, tags, reload, strict), found in run.pmap(work, cases):
        chk.seen(tuple(sorted(tags)), len(pop.insts) > 5, reload)
        chk.tag('reload:' + reload)
        for t in tags:
            chk.tag(t)
        for key, what, files in found:
            chk.violation(key, what, files, dict(schema=lib.schema.name))
        if not found and len(chk.samples) < 3:
            chk.sample(dict(schema=lib.schema.name, states=','.join('%d:%s' % kv for kv in sorted(sigma.items())), n=len(pop.insts),
                            verdict='reload equals exchange round trip minus deleted, states restored, re-save stable'))
    return chk.finish(
        rule='seeded populations (some partially filled) x state assignments sigma over {complete, incomplete, new, deleted}; deleted only where no survivor references it; '
             'distinct_nontrivial = distinct (set of states used + complex/partially-filled tags, population size class)',
        assumptions=['masks inherited from C01', 'W2 is compared with W1 minus its D# records (the property leaves deleted instances out on reload)',
                     'severity reported by ReadWorkingFile is not judged (the property does not state it)'])
