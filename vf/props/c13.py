"""C13 - the instance manager stays consistent under any sequence of operations.

E  harness/instmon.cc interprets operation scripts against the real InstMgr (sanitizer build, hook H2 inside every
   mutator) and prints the operation's return value and the full public view after every operation.
O  vf/c13_ref.py (ordered list + dict): view equality after every step + the statement's clauses on automatic ids,
   MaxFileId and name look-up; no INV_FAIL from the hook; no sanitizer report; no crash.
W  exhaustive: every sequence of length <= 4 (quick) / <= 5 (thorough) over the 12-symbol abstract alphabet EXH,
   for an owning and a non-owning manager; random: 2 000 / 50 000 abstract sequences of length 50..400 (selectors
   random, biased towards deletes and id reuse); two 1 000+-instance scripts that make the node array grow.
Abstract operations are resolved against the model state (e.g. "delete the first node", "append again the most
recently appended instance"), so every sub-sequence of a sequence is again a valid script: a diverging sequence is
shrunk (ops removed, query bundle split, selectors lowered, ownership flipped) to a minimal abstract sequence, which
is the shape component of the violation key.
"""
import hashlib
import itertools
import os
import random
import re
import time
from concurrent.futures import ProcessPoolExecutor
import multiprocessing

from .. import build, run
from .. import c13_ref as ref
NN = len(ref.NAMES)

# --------------------------------------------------------------------------------------------- abstract alphabet
EXH = ['An', 'Ae', 'Ah', 'Ad', 'As', 'Df', 'Dl', 'Cs', 'Cl', 'Dx', 'Nx', 'Q']
MEANING = {
    'An': 'Append(new instance, automatic id)', 'Ae': 'Append(new, explicit id = a small id no live instance carries)',
    'Ah': 'Append(new, explicit id above every id used)', 'Ad': 'Append(new, id of a live instance)',
    'As': 'Append(a live instance again)', 'Df': 'Delete(node by index)', 'Dl': 'Delete(instance)',
    'Cs': 'ChangeState(node)', 'Cl': 'ClearInstances', 'Dx': 'DeleteInstances', 'Nx': 'NextFileId',
    'Q': 'bundle of all look-ups', 'Ff': 'FindFileId(k)', 'Gi': 'GetApplication_instance(i)',
    'Gn': 'GetApplication_instance(name, start)', 'Ix': 'GetIndex', 'Kc': 'EntityKeywordCount', 'Mx': 'MaxFileId'}
CS_STATES = [3, 1, 2, 4, 0]

# masks tied to open findings: (key, probe).  A mask is active only while its key is listed as an open finding; the
# masked feature is then exercised by the probe alone (same resolver, harness, oracle, shrinker).
K_REAPPEND0 = 'seq|own=any: An As|crash: invariant hook after Append: node not found under its file id'
K_PASTEND = 'seq|own=any: An Dx Gi|crash: asan:heap-use-after-free'
PROBES = [('reappend0', K_REAPPEND0, 0, [('An', 0), ('As', 0)],
           'second Append of an instance whose id is 0 (first automatic id of an empty manager)'),
          ('pastend', K_PASTEND, 1, [('An', 0), ('Dx', 0), ('Gi', 0)],
           'GetApplication_instance(i) with i >= count over a slot emptied by DeleteInstances')]


def q_bundle(m):
    """The look-up bundle as abstract (sym, sel) ops for the current model state."""
    n = len(m.live)
    ks = set([-1, m.hi + 1])
    if m.live:
        ks |= set([m.live[0].id, m.live[-1].id, max(o.id for o in m.live)])
    dead = [k for k in range(0, m.hi + 1) if k not in m.byid]
    if dead:
        ks.add(dead[0])
    ops = [('Ff', k + 1) for k in sorted(ks)]
    ops += [('Gi', i) for i in sorted(set([0, max(n - 1, 0), n]))]
    ops += [('Gn', nm) for nm in range(NN)] + [('Gn', 0 + NN * 1), ('Gn', 1 + NN * max(n - 1, 0)), ('Gn', 2 + NN * n), ('Gn', 7 + NN * 1)]
    if n:
        ops += [('Ix', i) for i in sorted(set([0, n - 1]))]
    ops += [('Kc', i) for i in range(NN)] + [('Mx', 0)]
    return ops


def resolve_one(m, sym, sel, masks, note):
    """-> list of concrete tokens for one abstract op in model state m ([] = precondition not met / masked)."""
    n = len(m.live)
    created = len(m.objs)
    cls = (created + sel) % 3
    st = 1 + (created + sel // 3) % 4
    if sym == 'An':
        return ['A%d,0,%d' % (cls, st)]
    if sym == 'Ae':
        want, k = sel % 4, 0
        while True:
            k += 1
            if k not in m.byid:
                if want == 0:
                    return ['A%d,%d,%d' % (cls, k, st)]
                want -= 1
    if sym == 'Ah':
        return ['A%d,%d,%d' % (cls, max(m.hi, m.max_pred, 0) + 2 + sel % 5, st)]
    if sym == 'Ad':
        return ['A%d,%d,%d' % (cls, m.live[sel % n].id, st)] if n else []
    if sym == 'As':
        if not n:
            return []
        o = m.live[(n - 1 - sel) % n]
        if o.id == 0 and 'reappend0' in masks:
            note('masked:second Append of an instance with id 0')
            return []
        return ['R%d,%d' % (o.uid, st)]
    if sym == 'Df':
        return ['DN%d' % (sel % n)] if n else []
    if sym == 'Dl':
        return ['DI%d' % m.live[(n - 1 - sel) % n].uid] if n else []
    if sym == 'Cs':
        return ['CS%d,%d' % (sel % n, CS_STATES[(sel // 7) % 5])] if n else []
    if sym == 'Cl':
        return ['CL']
    if sym == 'Dx':
        return ['DA']
    if sym == 'Nx':
        return ['NX']
    if sym == 'Mx':
        return ['MX']
    if sym == 'Ff':
        return ['FF%d' % (sel - 1)]
    if sym == 'Gi':
        i = sel % (n + 2)
        if i >= n and i in m.stale and 'pastend' in masks:
            note('masked:index past the end over a slot emptied by DeleteInstances')
            return []
        return ['GI%d' % i]
    if sym == 'Gn':
        return ['GN%d,%d' % (sel % NN, (sel // NN) % (n + 2))]
    if sym == 'Ix':
        return ['IX%d' % (sel % n)] if n else []
    if sym == 'Kc':
        return ['KC%d' % (sel % NN)]
    raise ValueError(sym)


def resolve(own, aseq, masks=(), owners=None):
    """Abstract sequence -> (concrete tokens, notes).  The model runs in prediction mode.
    `owners` (a list) receives, per concrete operation, the index of the abstract op it came from."""
    m = ref.RefMgr()
    toks = ['O%d' % own]
    notes = {}

    def note(t):
        notes[t] = notes.get(t, 0) + 1
    for ai, (sym, sel) in enumerate(aseq):
        subs = q_bundle(m) if sym == 'Q' else [(sym, sel)]
        for s2, sel2 in subs:
            for t in resolve_one(m, s2, sel2, masks, note):
                code, a = ref.parse_op(t)
                m.step(code, a, None)
                toks.append(t)
                if owners is not None:
                    owners.append(ai)
    return toks, notes


def show(aseq):
    """'An*3 Df+2 Q': run-length compressed abstract sequence."""
    out = []
    for t in (s if not sel else '%s+%d' % (s, sel) for s, sel in aseq):
        if out and out[-1][0] == t:
            out[-1][1] += 1
        else:
            out.append([t, 1])
    return ' '.join(t if n == 1 else '%s*%d' % (t, n) for t, n in out)


# --------------------------------------------------------------------------------------------- running scripts
_H = {}


def setup():
    if 'exe' not in _H:
        _H['exe'] = build.simple_harness('san', 'instmon.cc')
        _H['env'] = build.env(build.core('san'))
        # batches: no symbolization (a report costs ~150 ms with it); the script a report is attributed to is run
        # again alone with symbolization when it is written out (run_alone)
        _H['env_batch'] = dict(_H['env'], ASAN_OPTIONS=_H['env']['ASAN_OPTIONS'] + ':symbolize=0',
                               UBSAN_OPTIONS=_H['env']['UBSAN_OPTIONS'] + ':symbolize=0')
    return _H


def _split_out(out):
    """-> {n: (lines, status|None)}"""
    res, cur, lines = {}, None, []
    for ln in out.split('\n'):
        if ln.startswith('S '):
            cur, lines = int(ln[2:]), []
            res[cur] = (lines, None)
        elif ln.startswith('X '):
            f = ln.split(' ', 2)
            if cur is not None and int(f[1]) == cur:
                res[cur] = (lines, f[2])
            cur = None
        elif cur is not None and ln:
            lines.append(ln)
    return res


def _split_err(err):
    res = {}
    for m in re.finditer(r'@@S (\d+)\n(.*?)(?=@@X \1\n|@@S |\Z)', err, re.S):
        res[int(m.group(1))] = m.group(2)
    return res


def _text(scripts):
    return '\n'.join(' '.join(t) for t in scripts) + '\n'


def run_alone(tokens, timeout=60):
    h = setup()
    r = run.run([h['exe']], env=h['env'], stdin=_text([tokens]), timeout=timeout, steplog=True, maxout=1 << 28)
    lines, status = _split_out(r.out).get(0, ([], None))
    if r.timed_out:
        status = 'timeout'
    elif status is None:
        status = 'signal %d' % r.sig if r.sig else 'exit %s (no end marker)' % r.rc
    return lines, status, r.err


def run_scripts(scripts, timeout=900, fork=False):
    """Run token lists through instmon.  -> list of (lines, status, stderr) per script, each attributed to its script:
    a script during which the batch process died is run again alone in a fresh process and that run is what is judged."""
    h = setup()
    out = [None] * len(scripts)
    start, deaths = 0, 0
    while start < len(scripts):
        r = run.run([h['exe']] + (['--fork'] if fork or deaths >= 3 else []), env=h['env_batch'], stdin=_text(scripts[start:]), timeout=timeout,
                    steplog=True, maxout=1 << 30)
        so, se = _split_out(r.out), _split_err(r.err)
        j = 0
        while j in so and so[j][1] is not None:
            out[start + j] = (so[j][0], so[j][1], se.get(j, '') if so[j][1] != 'exit 0' else '')
            j += 1
        if start + j >= len(scripts):
            break
        # the process died (or hung) while running script start+j
        lines, status, err = run_alone(scripts[start + j], timeout=60)
        if status == 'exit 0' and not r.timed_out:
            status = 'batch-only %s' % ('signal %d' % r.sig if r.sig else 'exit %s' % r.rc)
            err = r.err[-6000:]
        out[start + j] = (lines, status, err)
        deaths += 1
        start += j + 1
    return out


def symptom(status, err):
    m = re.search(r'SC_VERIF: INV_FAIL InstMgr after (\w+): ([^\n]*)', err)
    if m:
        return 'invariant hook after %s: %s' % (m.group(1), m.group(2).strip())
    k = run.san_kind(err)
    if k and k != 'asan:ABRT':
        return k
    return status


def judge_one(tokens, res):
    """-> (judgement dict from the model, first divergence (step, kind, detail) | None, inconclusive reason | None)."""
    lines, status, err = res
    j = ref.judge(tokens, lines)
    div = j['divs'][0] if j['divs'] else None
    if status == 'timeout':
        return j, div, 'watchdog fired on one script'
    if status.startswith('exit 3') or (div and div[1] == 'harness'):
        return j, None, 'harness/script error: %s %s' % (status, (lines or [''])[-1][:200])
    if div is None and status != 'exit 0':
        div = (j['steps'] + 1, 'crash: ' + symptom(status, err), status)
    elif div is None and not j['complete']:
        div = (j['steps'] + 1, 'output ends early', status)
    return j, div, None


def evaluate(cases, masks=(), fork=False):
    """cases: [(own, aseq)] -> [(tokens, notes, judgement, div, inconc, raw result)]"""
    rs = [resolve(own, aseq, masks) for own, aseq in cases]
    raw = run_scripts([t for t, _n in rs], fork=fork)
    out = []
    for (toks, notes), res in zip(rs, raw):
        j, div, inc = judge_one(toks, res)
        out.append((toks, notes, j, div, inc, res))
    return out


# --------------------------------------------------------------------------------------------- shrinking and keys
FAMILIES = [['An', 'Ae', 'Ah', 'Ad'], ['Df', 'Dl'], ['Cl', 'Dx']]
QUERIES = ('Ff', 'Gi', 'Gn', 'Ix', 'Kc', 'Mx')
SHRINK_BYTES = 200 << 20


def shrink(own, aseq, kind, masks=(), step=None):
    """Reduce (own, aseq) while the first divergence keeps the same kind.  -> (own flag 'any'|'0'|'1', aseq).
    Candidates of one round run in one `instmon --fork` process (a candidate that crashes does not end the round)."""
    spent = [0]

    def failing(cands, o=own):
        # effort bound: 200 MB of harness output per shrink (long scripts over large populations print O(n^2));
        # when it is used up the current sequence is taken as it is
        if spent[0] > SHRINK_BYTES:
            return [False] * len(cands)
        ev = evaluate([(o, c) for c in cands], masks, fork=True)
        spent[0] += sum(sum(len(l) for l in e[5][0]) for e in ev)
        return [bool(e[3]) and e[3][1] == kind for e in ev]

    def remove_pass(seq):
        c = max(len(seq) // 2, 1)
        while True:
            cands = [seq[:i] + seq[i + c:] for i in range(0, len(seq), c)] if len(seq) > 1 else []
            hit = None
            if cands:
                for cand, f in zip(cands, failing(cands)):
                    if f and cand:
                        hit = cand
                        break
            if hit is not None:
                seq = hit
                c = max(min(c, len(seq) // 2), 1)
                continue
            if c == 1:
                return seq
            c = max(c // 2, 1)

    seq = list(aseq)
    if step is not None:
        # nothing after the operation at which the divergence was observed is needed
        owners = []
        resolve(own, seq, masks, owners)
        if 0 < step <= len(owners) and failing([seq[:owners[step - 1] + 1]])[0]:
            seq = seq[:owners[step - 1] + 1]
    seq = remove_pass(seq)
    if any(s == 'Q' for s, _ in seq):
        # split every bundle into its look-ups (resolved in the state the bundle saw) and reduce again
        m = ref.RefMgr()
        flat = []
        for sym, sel in seq:
            subs = q_bundle(m) if sym == 'Q' else [(sym, sel)]
            for s2, sel2 in subs:
                flat.append((s2, sel2))
                for t in resolve_one(m, s2, sel2, masks, lambda _t: None):
                    m.step(*ref.parse_op(t), ret=None)
        if failing([flat])[0]:
            seq = remove_pass(flat)
    changed = True
    while changed:
        changed = False
        for i, (s, sel) in enumerate(seq):
            cands = []
            for fam in FAMILIES:        # the first member of the symbol's family that still fails, selector 0
                if s in fam:
                    cands += [seq[:i] + [(x, 0)] + seq[i + 1:] for x in fam[:fam.index(s)]]
            if sel:                     # then a lower selector
                cands += [seq[:i] + [(s, v)] + seq[i + 1:] for v in sorted(set([0, sel // 2, sel - 1]))]
            if not cands:
                continue
            for cand, f in zip(cands, failing(cands)):
                if f:
                    seq, changed = cand, True
                    break
    spent[0] = min(spent[0], SHRINK_BYTES)     # the ownership question is always asked
    flag = 'any' if failing([seq], 1 - own)[0] else str(own)
    return flag, seq


def make_key(flag, seq, kind):
    return 'seq|own=%s: %s|%s' % (flag, show(seq), kind)


def _subseq(small, big):
    """small (symbols of a minimal sequence) embeds in big; a bundle Q in big stands for any look-ups."""
    def same(x, y):
        return x == y or (y == 'Q' and x in QUERIES) or any(x in fam and y in fam for fam in FAMILIES)
    j = 0
    for y in big:
        while j < len(small) and same(small[j], y):
            j += 1
            if y != 'Q':
                break
    return j == len(small)


def _shrink_job(job):
    own, aseq, kind, masks, step = job
    return shrink(own, aseq, kind, masks, step)


# --------------------------------------------------------------------------------------------- workload
PROFILES = {
    'balanced': dict(An=10, Ae=10, Ah=3, Ad=6, As=5, Df=12, Dl=10, Cs=5, Cl=1, Dx=1, Nx=3, Ff=6, Gi=5, Gn=6, Ix=3, Kc=3, Mx=2, Q=1),
    'deletes': dict(An=9, Ae=8, Ah=2, Ad=5, As=4, Df=16, Dl=14, Cs=3, Cl=1, Dx=1, Nx=2, Ff=6, Gi=5, Gn=5, Ix=3, Kc=2, Mx=1, Q=1),
    'reuse': dict(An=4, Ae=18, Ah=2, Ad=12, As=6, Df=12, Dl=12, Cs=2, Cl=1, Dx=1, Nx=4, Ff=8, Gi=3, Gn=4, Ix=2, Kc=2, Mx=2, Q=1),
    'grow': dict(An=20, Ae=8, Ah=5, Ad=6, As=4, Df=5, Dl=5, Cs=4, Cl=0, Dx=0, Nx=3, Ff=5, Gi=5, Gn=6, Ix=3, Kc=3, Mx=2, Q=1),
    'resets': dict(An=10, Ae=8, Ah=3, Ad=5, As=4, Df=8, Dl=8, Cs=3, Cl=6, Dx=6, Nx=4, Ff=5, Gi=6, Gn=5, Ix=2, Kc=2, Mx=3, Q=1),
}


def random_case(seed, i):
    rng = random.Random('c13/%d/rand/%d' % (seed, i))
    prof = rng.choice(sorted(PROFILES))
    w = PROFILES[prof]
    syms = sorted(w)
    weights = [w[s] for s in syms]
    n = rng.randint(50, 400)
    picks = rng.choices(syms, weights, k=n)
    seq = [(s, 0 if s in ('Cl', 'Dx', 'Nx', 'Mx', 'Q') else rng.choice([0, 0, 1, 2, 3, rng.randint(0, 40)])) for s in picks]
    return rng.randint(0, 1), seq, prof


def growth_case(own):
    seq = [('An', 0)] * 1030 + [('Df', 0), ('Df', 500), ('Dl', 0), ('Gi', 1028), ('Ae', 0), ('Ah', 0), ('Q', 0), ('Df', 3)] \
        + [('An', 0)] * 5 + [('Dl', 7), ('Q', 0)]
    return own, seq, 'growth'


def _digest(toks):
    return hashlib.md5(' '.join(toks).encode()).hexdigest()[:12]


def _work(task):
    """One batch in a worker process.  task = (label, [(own, aseq, profile)], masks) -> summary dict."""
    label, cases, masks = task
    ev = evaluate([(o, s) for o, s, _p in cases], masks)
    s = dict(label=label, scripts=0, ops=0, events=0, flags={}, soft={}, notes={}, distinct=[], fails=[], inconc=[], samples=[], masked_scripts=0)
    for (own, aseq, prof), (toks, notes, j, div, inc, res) in zip(cases, ev):
        s['scripts'] += 1
        s['ops'] += j['steps']
        s['events'] += j['events']
        for f in j['flags']:
            s['flags'][f] = s['flags'].get(f, 0) + 1
        for k, v in j['soft'].items():
            s['soft'][k] = s['soft'].get(k, 0) + v
        for k, v in notes.items():
            s['notes'][k] = s['notes'].get(k, 0) + v
        s['masked_scripts'] += 1 if notes else 0
        if any(t[0] in 'ARDC' for t in toks[1:]):
            s['distinct'].append(_digest(toks))
        if inc:
            s['inconc'].append('%s: %s' % (label, inc))
            continue
        if div:
            s['fails'].append(dict(own=own, aseq=aseq, tokens=toks, div=div, out='\n'.join(res[0][-40:]), err=res[2][-6000:], label=label))
        elif not s['samples'] and len(toks) > 4:
            s['samples'].append(dict(kind=label, abstract=show(aseq)[:300], script=' '.join(toks)[:400],
                                     last_views=[l[:300] for l in res[0][-2:]], verdict='every view equal to the model, hook ok, exit 0'))
    return s


def chunks(lst, n):
    for i in range(0, len(lst), n):
        yield lst[i:i + n]


def main(chk):
    quick = chk.tier == 'quick'
    setup()
    masks = tuple(name for name, key, _o, _s, _w in PROBES if chk.is_known(key))
    if os.environ.get('VERIF_C13_UNMASK'):      # debugging / validating a proposed fix: exercise the masked sub-spaces too
        masks = ()
    maxlen, nrand = (4, 2000) if quick else (5, 400000)

    tasks = []
    exh = []
    for L in range(1, maxlen + 1):
        for tup in itertools.product(EXH, repeat=L):
            seq = [(s, 0) for s in tup]
            exh.append((0, seq, 'exh'))
            exh.append((1, seq, 'exh'))
    for c in chunks(exh, 1500):
        tasks.append(('exhaustive', c, masks))
    rnd = [random_case(chk.seed, i) for i in range(nrand)]
    for c in chunks(rnd, 60):
        tasks.append(('random', c, masks))
    tasks.append(('growth', [growth_case(0)], masks))
    tasks.append(('growth', [growth_case(1)], masks))
    tasks.sort(key=lambda t: -sum(len(c[1]) for c in t[1]))     # long batches first

    fails, distinct = [], set()
    ctx = multiprocessing.get_context('fork')
    with ProcessPoolExecutor(max_workers=min(run.NCPU, 16), mp_context=ctx) as ex:
        for s in ex.map(_work, tasks):
            chk.ev(s['scripts'])
            chk.count('scripts_' + s['label'], s['scripts'])
            chk.count('operations_judged', s['ops'])
            chk.count('hook_events_ok', s['events'])
            for f, v in s['flags'].items():
                chk.tag(f, v)
            for k, v in s['soft'].items():
                chk.count('soft:' + k, v)
            for k, v in s['notes'].items():
                chk.count(k, v)
            chk.count('scripts_with_a_masked_operation', s['masked_scripts'])
            distinct.update(s['distinct'])
            fails += s['fails']
            for r in s['inconc'][:3]:
                chk.inconc(r)
            for smp in s['samples']:
                if sum(1 for x in chk.samples if x.get('kind') == smp['kind']) < 2:
                    chk.sample(smp)
    for d in distinct:
        chk.seen(d)
    if chk.counters.get('operations_judged') and not chk.counters.get('hook_events_ok'):
        chk.inconc('hook H2 (InstMgr::VerifCheck) wrote no event: the build has no STEPCODE_VERIF hooks')

    t1 = time.time()
    report(chk, fails, masks)
    t2 = time.time()
    run_probes(chk)
    if os.environ.get('VERIF_DBG'):
        print('[c13] workload %.1fs report %.1fs probes %.1fs' % (t1 - chk.t0, t2 - t1, time.time() - t2))
    return chk.finish(
        rule='a case = one operation script run against the real InstMgr and judged after every operation; exhaustive part: all '
             'sequences of length <= %d over %s (owning and non-owning); random part: %d seeded sequences of length 50..400 with '
             'selectors; distinct_nontrivial = distinct resolved concrete scripts that contain at least one mutator' % (maxlen, EXH, nrand),
        assumptions=['reference model vf/c13_ref.py', 'gcc ASan/UBSan runtimes; hook H2 compiled in (san flavour)',
                     'ids stay far below INT_MAX; indexes passed to look-ups are in [0, count+1]; Delete is only called on members',
                     'masks active (open findings, each exercised by its probe): %s' % (list(masks) or 'none')],
        exhaustive=True,
        extra=dict(unmasked_fraction=round(1.0 - chk.counters.get('scripts_with_a_masked_operation', 0) / float(max(chk.evaluations, 1)), 4)))


def report(chk, fails, masks):
    """Shrink the diverging scripts (in parallel, at most 3 rounds of 16) and report them by key.  A script whose
    abstract sequence embeds an already minimal sequence of the same divergence kind is attributed to that key."""
    if not fails:
        return
    chk.count('diverging_scripts', len(fails))
    todo = sorted(fails, key=lambda f: len(f['tokens']))
    minimal = {}       # kind -> [(flag, seq, key)]
    ctx = multiprocessing.get_context('fork')

    def attribute(f):
        syms = [s for s, _ in f['aseq']]
        for flag, seq, key in minimal.get(f['div'][1], []):
            if flag in ('any', str(f['own'])) and _subseq([s for s, _ in seq], syms):
                return key
        return None
    for _round in range(3):
        rest = []
        for f in todo:
            k = attribute(f)
            if k is None:
                rest.append(f)
            else:
                emit(chk, k, f, masks)
        todo = rest
        if not todo:
            return
        picked, kinds = [], {}
        for f in todo:      # shortest first, at most 4 per kind and round
            if len(picked) < 16 and kinds.get(f['div'][1], 0) < 4:
                kinds[f['div'][1]] = kinds.get(f['div'][1], 0) + 1
                picked.append(f)
        with ProcessPoolExecutor(max_workers=len(picked), mp_context=ctx) as ex:
            got = list(ex.map(_shrink_job, [(f['own'], f['aseq'], f['div'][1], masks, f['div'][0]) for f in picked]))
        for f, (flag, seq) in zip(picked, got):
            key = make_key(flag, seq, f['div'][1])
            minimal.setdefault(f['div'][1], []).append((flag, seq, key))
            f['min'] = (flag, seq)
            emit(chk, key, f, masks)
        todo = [f for f in todo if 'min' not in f]
    for f in todo:
        k = attribute(f) or 'seq|unshrunk (more than 48 failing shapes)|%s' % f['div'][1]
        emit(chk, k, f, masks)


def emit(chk, key, f, masks):
    files = {'original_script.txt': ' '.join(f['tokens']) + '\n', 'original_abstract.txt': show(f['aseq']) + '\n',
             'output_tail.txt': f['out'] + '\n', 'stderr.txt': f['err']}
    what = '%s at step %d (%s)' % (f['div'][1], f['div'][0], f['div'][2])
    if 'min' in f:
        flag, seq = f['min']
        own = f['own'] if flag != 'any' else 0
        toks, _n = resolve(own, seq, masks)
        files['script.txt'] = ' '.join(toks) + '\n'
        if key not in chk.violations and not chk.is_known(key):
            lines, status, err = run_alone(toks)      # symbolized report of the minimal script
            files['min_output.txt'] = '\n'.join(lines) + '\n' + status + '\n'
            files['min_stderr.txt'] = err[-8000:]
            fr = run.san_frames(err)
            if fr:
                what += '; frames: %s' % fr
        files['abstract.txt'] = 'own=%s: %s\n' % (flag, show(seq)) + ''.join('  %s = %s\n' % (s, MEANING[s]) for s in sorted(set(x for x, _ in seq)))
        what += '; minimal script: %s' % ' '.join(toks)[:300]
    chk.violation(key, what, files, dict(source=f['label'], own=f['own']))


def run_probes(chk):
    """Fixed scripts for the masked sub-spaces; same oracle, same shrinker, masks off."""
    for name, key, own, seq, what in PROBES:
        chk.count('probes_run')
        toks, notes, j, div, inc, res = evaluate([(own, seq)], ())[0]
        chk.ev()
        if inc:
            chk.inconc('probe %s: %s' % (name, inc))
        elif div:
            flag, mseq = shrink(own, seq, div[1], (), div[0])
            f = dict(own=own, aseq=seq, tokens=toks, div=div, out='\n'.join(res[0][-40:]), err=res[2][-6000:], label='probe:' + name,
                     min=(flag, mseq))
            emit(chk, make_key(flag, mseq, div[1]), f, ())
        else:
            chk.count('probes_clean')


def replay(chk, d):
    p = os.path.join(d, 'script.txt')
    if not os.path.exists(p):
        p = os.path.join(d, 'original_script.txt')
    toks = open(p).read().split()
    res = run_alone(toks)
    j, div, inc = judge_one(toks, res)
    print('\n'.join(res[0][-12:]))
    print(res[2][-3000:])
    print('status: %s; first divergence: %s; inconclusive: %s' % (res[1], div, inc))
    return 1 if div else 2 if inc else 0
