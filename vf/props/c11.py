"""C11 - inverse attributes resolved on load contain exactly the real referrers.

lazymon --inverse: after loadInstance(x) every INVERSE attribute of x (own or inherited) is read the way the generated
accessor reads it (by its DECLARED type: aggregate or single).  Oracle from the population:
  inv(x, `name : [SET OF] E FOR a`) == { y : type(y) is E or a subtype, x in refs(y.a) }   (each once).
"""
import random
from .. import gen_p21, p21fam, ref_p21, run, probes
from .. import model as M
from ..ref_p21 import Inst
from . import c10

HARN = ['lazymon.cc']
MASK = probes.masked_schema_features('C11')


def gen_inv_schema(rng, name, avoid=()):
    """Small schemas around INVERSE: targets with 1-3 inverse attributes, inherited inverses (one and two levels),
    two inverses onto the same entity through different attributes, aggregate and single inverted attributes, single-valued inverses."""
    ents = []
    n_t = rng.randint(1, 2)
    for ti in range(n_t):
        t = M.Entity('t%d' % ti, attrs=[M.Attr('t%d_n' % ti, M.INT())])
        ents.append(t)
    if 'inherited' not in avoid and rng.random() < .7:
        ents.append(M.Entity('t0s', supers=['t0'], attrs=[M.Attr('t0s_n', M.INT())]))
        if 'inherited two levels' not in avoid and rng.random() < .5:
            ents.append(M.Entity('t0ss', supers=['t0s'], attrs=[M.Attr('t0ss_n', M.INT())]))
    if 'diamond target' not in avoid and rng.random() < .5:
        # diamond below t0: the common ancestor's inverse attributes are reached along two paths
        ents.append(M.Entity('t0a', supers=['t0'], attrs=[M.Attr('t0a_n', M.INT())]))
        ents.append(M.Entity('t0b', supers=['t0'], attrs=[M.Attr('t0b_n', M.INT())]))
        ents.append(M.Entity('t0d', supers=['t0a', 't0b'], attrs=[M.Attr('t0d_n', M.INT())]))
    targets = [e.name for e in ents]
    n_r = rng.randint(1, 3)
    for ri in range(n_r):
        r = M.Entity('r%d' % ri)
        k = rng.randint(1, 3)
        for j in range(k):
            tgt = rng.choice(['t%d' % x for x in range(n_t)])
            if 'aggregate inverted attribute' not in avoid and rng.random() < .4:
                ty = M.AGG(rng.choice(['LIST', 'SET']), M.ENT(tgt), 0, None)
            else:
                ty = M.ENT(tgt)
            r.attrs.append(M.Attr('r%d_a%d' % (ri, j), ty, optional=True))
        r.attrs.append(M.Attr('r%d_v' % ri, M.INT()))
        ents.append(r)
        if 'referrer subtype' not in avoid and rng.random() < .4:
            ents.append(M.Entity('r%ds' % ri, supers=['r%d' % ri], attrs=[M.Attr('r%ds_v' % ri, M.INT())]))
        if 'referrer with another attribute layout' not in avoid and rng.random() < .5:
            # a referrer type in which the inverted entity is NOT the first supertype: its attributes sit at other positions,
            # and one of the leading ones is entity-valued too
            ents.append(M.Entity('x%d' % ri, attrs=[M.Attr('x%d_e' % ri, M.ENT(rng.choice(['t%d' % x for x in range(n_t)])), True),
                                                        M.Attr('x%d_v' % ri, M.INT())]))
            ents.append(M.Entity('r%dm' % ri, supers=['x%d' % ri, 'r%d' % ri], attrs=[M.Attr('r%dm_v' % ri, M.INT())]))
            if rng.random() < .6:
                # ... and one in which it is the first of two supertypes (each supertype must know this subtype)
                ents.append(M.Entity('r%dn' % ri, supers=['r%d' % ri, 'x%d' % ri], attrs=[M.Attr('r%dn_v' % ri, M.INT())]))
    s = M.Schema(name, [], ents)
    # inverse declarations on the target named by the inverted attribute
    for e in list(ents):
        if not e.name.startswith('r') or e.supers:
            continue
        for a in e.attrs:
            t = a.type
            tgt = t.name if t.kind == 'entity' else (t.elem.name if t.kind == 'aggr' else None)
            if tgt is None or rng.random() < .25:
                continue
            te = s.entity(tgt)
            single = ('single-valued inverse' not in avoid) and rng.random() < .25
            if 'single-valued inverse of aggregate' in avoid and t.kind == 'aggr':
                single = False
            if 'aggregate inverse of single attribute' in avoid and t.kind == 'entity' and not single:
                # keep declared kind aligned with the inverted attribute's kind
                single = True
            te.inverse.append(M.Inverse('inv_%s' % a.name, e.name, a.name, None if single else rng.choice(['SET', 'BAG']), 0, None))
    if not any(e.inverse for e in ents):
        e = s.entity('r0')
        a = e.attrs[0]
        tgt = a.type.name if a.type.kind == 'entity' else a.type.elem.name
        s.entity(tgt).inverse.append(M.Inverse('inv_%s' % a.name, 'r0', a.name, 'SET', 0, None))
    return s


def gen_pop(s, rng, single_ok):
    insts = []
    iid = 1
    tids = {}
    for e in s.entities:
        if e.name.startswith('t'):
            for _ in range(rng.randint(1, 3)):
                vals = [('int', rng.randint(0, 9)) for _x in s.all_attrs(e.name)]
                insts.append(Inst(iid, [(e.name.upper(), vals)]))
                tids.setdefault(e.name, []).append(iid)
                iid += 1

    def conforming(tgt):
        return [i for n, ids in tids.items() if s.is_a(n, tgt) for i in ids]
    # single-valued inverses allow at most one referrer per target: track usage
    used_single = set()
    single_attrs = set()
    for e in s.entities:
        for inv in e.inverse:
            if inv.akind is None:
                single_attrs.add((inv.entity, inv.attr))
    for e in s.entities:
        if not e.name.startswith(('r', 'x')):
            continue
        for _ in range(rng.randint(1, 4)):
            vals = []
            for (owner, a, d) in s.all_attrs(e.name):
                t = a.type
                if t.kind == 'INTEGER':
                    vals.append(('int', rng.randint(0, 9)))
                    continue
                tgt = t.name if t.kind == 'entity' else t.elem.name
                cands = conforming(tgt)
                if (owner, a.name) in single_attrs:
                    cands = [c for c in cands if (owner, a.name, c) not in used_single]
                if not cands or rng.random() < .2:
                    vals.append(('null',))
                    continue
                if t.kind == 'entity':
                    c = rng.choice(cands)
                    used_single.add((owner, a.name, c))
                    vals.append(('ref', c))
                else:
                    k = rng.randint(0, min(3, len(cands)))
                    ch = rng.sample(cands, k)
                    for c in ch:
                        used_single.add((owner, a.name, c))
                    vals.append(('agg', [('ref', c) for c in ch]))
            insts.append(Inst(iid, [(e.name.upper(), vals)]))
            iid += 1
    return gen_p21.Population(s, insts)


def expected_inverse(s, pop):
    """{(target id, inverse attr name): (declared 'agg'|'single', sorted referrer ids)} for own and inherited inverses."""
    exp = {}
    for x in pop.insts:
        xe = x.parts[0][0].lower()
        for anc in s.ancestors(xe) + [xe]:
            for inv in s.entity(anc).inverse:
                refs = []
                for y in pop.insts:
                    ye = y.parts[0][0].lower()
                    if not s.is_a(ye, inv.entity):
                        continue
                    for (owner, a, d), v in zip(s.all_attrs(ye), y.parts[0][1]):
                        if a.name == inv.attr and x.id in ref_p21.value_refs(v):
                            refs.append(y.id)
                exp[(x.id, inv.name)] = ('agg' if inv.akind else 'single', sorted(set(refs)), anc != xe)
    return exp


def judge(chk, lib, pop, order):
    s = lib.schema
    text = gen_p21.render(pop, 'compact')
    files = {'schema.exp': s.text(), 'in.p21': text, 'order.txt': ','.join(map(str, order))}
    r = c10.run_lazy(lib, text, order, inverse=True, sc_prefix='c11')
    chk.ev()
    if r.crashed() or r.timed_out:
        o = c10.parse_out(r.out)
        last = o['began'][-1] if o['began'] else None
        shape = 'n/a'
        if last is not None:
            e = pop.by_id()[last].parts[0][0].lower()
            inh = [i for a in s.ancestors(e) for i in s.entity(a).inverse]
            own = s.entity(e).inverse
            depth = 0
            for a in s.ancestors(e):
                if s.entity(a).inverse:
                    depth = max(depth, len(s.ancestors(e)) - s.ancestors(e).index(a))
            shape = 'loading instance with %s' % ('inverse inherited over %d level(s)' % depth if inh and not own else
                                                  ('own inverse' if own else 'no inverse (referrer)'))
        return [('crash|%s|%s' % (shape, r.symptom()), '%s %s' % (r.symptom(), run.san_frames(r.err)), dict(files, stderr=r.err[-5000:], stdout=r.out[-2000:]))]
    o = c10.parse_out(r.out)
    if not o['done']:
        return [('harness|lazymon did not finish', r.err[-400:], files)]
    files['lazymon.txt'] = r.out[-20000:]
    exp = expected_inverse(s, pop)
    found = []
    got = {}
    for (iid, name, declared, vals) in o['V']:
        got[(iid, name)] = (declared, vals)    # last report for that id wins (loads are repeated)
    loaded = set(l[1] for l in o['L'] if l[3] is not None)
    for (iid, name), (decl, refs, inherited) in sorted(exp.items()):
        if iid not in loaded:
            continue
        tag = ('inherited ' if inherited else 'own ') + ('aggregate' if decl == 'agg' else 'single-valued') + ' inverse'
        chk.seen(s.name, name, len(refs), inherited)
        chk.tag(tag + ', %s referrers' % ('no' if not refs else ('one' if len(refs) == 1 else 'several')))
        g = got.get((iid, name))
        if g is None:
            found.append(('missing|%s|inverse attribute not present on the loaded instance' % tag, '#%d %s expected %s' % (iid, name, refs), files))
            continue
        gd, gv = g
        if gd != decl:
            found.append(('declared kind|%s|descriptor says %s' % (tag, gd), '#%d %s' % (iid, name), files))
            continue
        ids = [] if gv in ([], ['null']) else [int(v) for v in gv]
        if sorted(ids) != refs:
            if len(ids) != len(set(ids)):
                sym = 'referrer listed twice'
            elif set(ids) - set(refs):
                sym = 'extra instance (does not refer through the inverted attribute)'
            else:
                sym = 'referrer missing'
            found.append(('content|%s|%s' % (tag, sym), '#%d %s: loader %s, population %s' % (iid, name, sorted(ids), refs), files))
    return found


def main(chk):
    quick = chk.tier == 'quick'
    n_schemas, n_pops = (10, 12) if quick else (120, 16)
    schemas = []
    for k in range(n_schemas):
        rng = random.Random('c11/%d/%d' % (chk.seed, k))
        schemas.append(gen_inv_schema(rng, 'i%d_%d' % (chk.seed, k), MASK))
    pr = [p.prepare() for p in probes.PROBES.get('C11', [])]
    libs = p21fam.report_build_failures(chk, p21fam.build_libs(schemas + [p.schema for p in pr], harnesses=HARN, lazy=True))
    cases = []
    bys = dict((l.schema.name, l) for l in libs)
    for k, s in enumerate(schemas):
        lib = bys.get(s.name)
        if not lib:
            continue
        for pi in range(n_pops):
            rng = random.Random('c11p/%d/%d/%d' % (chk.seed, k, pi))
            pop = gen_pop(s, rng, True)
            # order of the instances in the file: ascending names, descending, one high name in the middle, shuffled
            how = ('asc', 'shuffled', 'desc', 'high-in-middle')[pi % 4]
            fi = sorted(pop.insts, key=lambda i: i.id)
            if how == 'desc':
                fi.reverse()
            elif how == 'shuffled':
                rng.shuffle(fi)
            elif how == 'high-in-middle' and len(fi) > 2:
                fi.insert(len(fi) // 2, fi.pop())
            pop = gen_p21.Population(pop.schema, fi, pop.header)
            chk.tag('file order:' + how)
            ids = sorted(i.id for i in pop.insts)
            tgt_ids = [i.id for i in pop.insts if i.parts[0][0].lower().startswith('t')]
            orders = [ids, list(reversed(ids)), tgt_ids]
            o = list(ids)
            rng.shuffle(o)
            orders.append(o)
            for order in orders[:(3 if quick else 4)]:
                cases.append((lib, pop, order, None))
    for p in pr:
        lib = bys.get(p.schema.name)
        if lib:
            pop = p.population()
            ids = [i.id for i in pop.insts]
            cases.append((lib, pop, ids, p.name))
            cases.append((lib, pop, list(reversed(ids)), p.name))

    def work(c):
        return c, judge(chk, c[0], c[1], c[2])
    for (lib, pop, order, pname), found in run.pmap(work, cases):
        for key, what, files in found:
            chk.violation(key + ('|probe:' + pname if pname else ''), what, files, dict(schema=lib.schema.name))
        if not found and len(chk.samples) < 3:
            chk.sample(dict(schema=lib.schema.text()[:600], instances=[str(i) for i in pop.insts][:8], order=order[:10], verdict='every inverse attribute holds exactly the referrers'))
    return chk.finish(
        rule='generated schemas around INVERSE (own and inherited, several inverses per target, aggregate and single inverted attributes, referrer subtypes) x populations x load orders '
             '(forward, reverse, targets only, shuffled); distinct_nontrivial = distinct (schema, inverse attribute, number of referrers, inherited?) judged on a loaded instance',
        assumptions=['the slot is read by the DECLARED kind of the inverse attribute, as the generated accessor does', 'populations keep single-valued inverses to at most one referrer'])
