"""C06 - EXPRESS tools are memory-safe and terminate on any input.

Subjects: check-express, exppp, exp2cxx, exp2python of the 'san' build (gcc ASan+UBSan, fatal), run OUT OF PROCESS, one
process per (input, tool), each in an empty scratch directory under /dev/shm.

Oracle per run (vf/c06_run.judge):
  no sanitizer report; no death by signal (the tools' own SIGSEGV/SIGABRT handler re-raises: still a signal);
  exit status 0 or 1..3 together with >= 1 diagnostic line on stderr/stdout;
  H1 step total <= STEP_A + STEP_B * bytes (the process is stopped with status 97 when it exceeds it -> `hang`);
  CPU time <= CPU_A + bytes / CPU_BYTES_PER_S seconds (RLIMIT_CPU -> SIGXCPU -> `hang (cpu limit)`; second net for loops
  without an H1 site);  wall-clock watchdog: its firing alone is inconclusive and the case is re-run once, alone.

Workload: (1) every shipped schema (data/*/*.exp, test/unitary_schemas, test/buggy) x 4 tools; (2) generated valid schemas
(vf/gen_schema data schemas + vf/c06_gen.Rich algorithmic schemas); (3) token-level (delete / duplicate / swap / keyword) and
byte-level (NUL, 0x80-0xFF, no final newline, truncation, bit flip, punctuation insert) mutants of small valid schemas;
(4) pathological shapes and option values (vf/c06_shapes) and a deterministic grid of classified identifier replacements
(vf/c06_gen.ident_grid).

Keys: `<mutation operator or shape> x <construct it hit>|<tool>|<symptom>`.
Open findings: the randomized workload (2)(3) stays out of the sub-space where an open finding triggers (MASKS below: a
generator feature mask or a predicate on the input; masked cases are counted, not run) and each masked sub-space is exercised by
fixed shapes in (4) that go through the same oracle, so the key set does not depend on the seed.
"""
import glob
import os
import random
import re

from .. import build, gen_schema, run
from .. import c06_gen as G
from .. import c06_run as R
from .. import c06_shapes as S

LEVEL = 'exploration'

# ---------------------------------------------------------------------------------------------------------------
# masks of the randomized workload; every one names the fixed shape(s) in c06_shapes that exercise the masked sub-space

RICH_AVOID = ('repeat_bare',      # exp2python: REPEAT without control -> shape 'REPEAT without control'
              'rename_as')        # exp2python: USE/REFERENCE ... AS -> shape 'interface item renamed with AS'


def _ends_in_open_token(data):
    """File ends inside a tail remark / string / embedded remark (no newline / quote / `*)` before end of file)."""
    if not data:
        return False
    text = data.decode('latin-1')
    depth = 0
    i, n = 0, len(text)
    while i < n:
        c = text[i]
        if depth:
            if text.startswith('(*', i):
                depth += 1
                i += 2
            elif text.startswith('*)', i):
                depth -= 1
                i += 2
            else:
                i += 1
            continue
        if text.startswith('(*', i):
            depth = 1
            i += 2
        elif text.startswith('--', i):
            j = text.find('\n', i)
            if j < 0:
                return True
            i = j + 1
        elif c == "'" or c == '"':
            j = i + 1
            while j < n and text[j] != c and text[j] != '\n':
                j += 1
            if j >= n:
                return True
            i = j + 1
        else:
            i += 1
    return depth > 0


_LONG_TAIL = re.compile(rb';[ \t]*--[^\n]{253,}')
_BARE_REPEAT = re.compile(rb'\bREPEAT\s*;', re.I)
_AS_RENAME = re.compile(rb'\b(?:USE|REFERENCE)\s+FROM\b[^;]*\bAS\b', re.I)
_SUPER_SELF = re.compile(rb'\bSUPERTYPE\s+OF\s*\([^;]*\bSELF\b', re.I)
_UNIQUE_QUAL = re.compile(rb'\bUNIQUE\b(?:(?!END_ENTITY)[^\\])*\\[^;]*;\s*(?!END_ENTITY|WHERE)\S', re.I)

_INCLUDE = re.compile(rb"\bINCLUDE\s*'", re.I)
_NVL = re.compile(rb'\bNVL\s*\(', re.I)


def _nvl_wrong_count(d):
    """Some NVL( ... ) call does not have exactly two top-level arguments."""
    for m in _NVL.finditer(d):
        depth, commas, i, empty = 1, 0, m.end(), True
        while i < len(d) and depth:
            c = d[i:i + 1]
            if c in b'([{':
                depth += 1
            elif c in b')]}':
                depth -= 1
            elif c == b',' and depth == 1:
                commas += 1
            if depth and not c.isspace():
                empty = False
            i += 1
        if depth or commas != 1 or empty:
            return True
    return False


_STR = re.compile(rb"'[^'\n]*'|\"[^\"\n]*\"")
_GROUP_NOT_SELF = re.compile(rb'(?<!SELF)(?<!SELF )\\', re.I)


def _group_on_non_self(d):
    """A group qualifier `x\\e` whose operand is not SELF (outside string literals)."""
    return bool(_GROUP_NOT_SELF.search(_STR.sub(b"''", d)))


MASKS = (
    ('token cut by end of file', lambda d, tool: _ends_in_open_token(d)),
    ('tail remark of 255 chars or more x after semicolon', lambda d, tool: bool(_LONG_TAIL.search(d))),
    ('SELF in a SUPERTYPE OF expression', lambda d, tool: bool(_SUPER_SELF.search(d))),
    ('UNIQUE rule on SELF\\super.attr followed by a plain attribute rule', lambda d, tool: bool(_UNIQUE_QUAL.search(d))),
    ('NVL with other than two arguments', lambda d, tool: _nvl_wrong_count(d)),
    ('group qualifier on a non-entity expression', lambda d, tool: _group_on_non_self(d)),
    ('INCLUDE directive', lambda d, tool: bool(_INCLUDE.search(d))),
    ('REPEAT without control (exp2python)', lambda d, tool: tool == 'exp2python' and bool(_BARE_REPEAT.search(d))),
    ('interface item renamed with AS (exp2python)', lambda d, tool: tool == 'exp2python' and bool(_AS_RENAME.search(d))),
)


def masked(data, tool):
    for name, pred in MASKS:
        if pred(data, tool):
            return name
    return None


# ---------------------------------------------------------------------------------------------------------------

def shipped_files():
    rp = build.REPO
    return (sorted(glob.glob(rp + '/data/*/*.exp')), sorted(glob.glob(rp + '/test/unitary_schemas/*.exp')),
            sorted(glob.glob(rp + '/test/buggy/*.exp')),
            sorted(glob.glob(rp + '/src/*/test/*.exp') + glob.glob(rp + '/test/misc/*.exp')))


def outcome_class(c):
    if c.symptom:
        return c.symptom
    return 'accepted' if c.r.rc == 0 else 'rejected with diagnostic'


def cpu_limit(nbytes):
    return R.CPU_A + nbytes // R.CPU_BYTES_PER_S


def main(chk):
    quick = chk.tier == 'quick'
    seed = chk.seed
    R.tools_dir()
    warn = R.warning_names()
    cases = []          # deterministic part first, randomized after (order does not matter for verdicts)

    # (1) shipped schemas: every tier, every file, every tool
    big, unit, buggy, tooltests = shipped_files()
    for grp, fs in (('shipped application-protocol schema', big), ('shipped unit schema', unit), ('shipped buggy schema', buggy),
                    ('shipped tool test schema', tooltests)):
        for f in fs:
            stem = os.path.splitext(os.path.basename(f))[0]
            for tool in R.TOOLS:
                cases.append(R.Case(None, tool, 'unchanged input', '%s %s' % (grp, stem), path=f, note=grp))
    n_shipped = len(cases)
    chk.count('shipped_files', len(big) + len(unit) + len(buggy) + len(tooltests))

    # (4) pathological shapes + fixed probes of open findings
    shapes = S.shapes(chk.tier, warn)
    for label, cons, text, tools, args, name in shapes:
        for tool in tools:
            cases.append(R.Case(text, tool, label, cons, args=args, note='shape', cls=name))
    chk.count('shapes', len(shapes))

    # (4b) classified identifier replacement: fixed base, every kind of name at every kind of site replaced by every other kind
    # (deterministic; the random token operators do not replace identifiers, so look-ups that fail or find the wrong kind of
    # object are exercised here and their open findings have seed-independent keys)
    gbase, grid = G.ident_grid(1 if quick else 3)
    for tool in R.TOOLS:
        cases.append(R.Case(gbase, tool, 'unchanged input', 'identifier grid base schema', note='grid'))
    for text, site, rk, ctx in grid:
        for tool in R.TOOLS:
            cases.append(R.Case(text, tool, 'identifier replaced', '%s by %s' % (site, rk), note='grid', cls='in ' + ctx))
    chk.count('identifier_grid_mutants', len(grid))

    # (2) generated valid schemas
    n_data, n_rich = (12, 16) if quick else (200, 400)
    gen_inputs = []
    for s in gen_schema.corpus(seed, n_data, prefix='d'):
        gen_inputs.append(('generated data schema', s.text(), ()))
    rng = random.Random('c06/%d/rich' % seed)
    for text, tags in G.rich_corpus(rng, n_rich, avoid=RICH_AVOID):
        gen_inputs.append(('generated algorithmic schema', text, tags))
    n_masked = 0
    for kind, text, tags in gen_inputs:
        for t in tags:
            chk.tag('gen:' + t)
        d = text.encode()
        for tool in R.TOOLS:
            m = masked(d, tool)
            if m:
                n_masked += 1
                chk.count('masked: ' + m)
                continue
            cases.append(R.Case(d, tool, 'unchanged input', kind, note='generated'))

    # (3) mutants of small valid schemas (generated ones + the shipped unit schemas; thorough: + shipped big ones, few each)
    rng = random.Random('c06/%d/mut' % seed)
    n_bases, per_tok, per_byte = (14, 50, 24) if quick else (80, 50, 40)
    bases = [t for k, t, _ in gen_inputs if len(t) < 20000]
    rng.shuffle(bases)
    bases = bases[:n_bases]
    ufiles = list(unit)
    rng.shuffle(ufiles)
    for f in ufiles[:n_bases // 2 if quick else len(ufiles)]:
        with open(f, 'rb') as fh:
            bases.append(fh.read().decode('latin-1'))
    big_bases = []
    if not quick:
        for f in big:
            if os.path.getsize(f) < 700000:
                with open(f, 'rb') as fh:
                    big_bases.append(fh.read().decode('latin-1'))
    n_random = 0
    for bi, b in enumerate(bases + big_bases):
        isbig = bi >= len(bases)
        toks = G.tokenize(b)
        data = b.encode('latin-1')
        muts = []
        for k in range(6 if isbig else per_tok):
            text, op, cons, cls = G.token_mutant(rng, toks, G.TOKEN_OPS[k % len(G.TOKEN_OPS)])
            muts.append((text.encode('latin-1'), 'token ' + op, cons, cls))
        for k in range(6 if isbig else per_byte):
            d, op, det = G.byte_mutant(rng, data, G.BYTE_OPS[k % len(G.BYTE_OPS)])
            muts.append((d, 'byte ' + op, det, ''))
        for d, op, cons, cls in muts:
            for tool in (R.TOOLS if not isbig else ('check-express', 'exppp')):
                n_random += 1
                m = masked(d, tool)
                if m:
                    n_masked += 1
                    chk.count('masked: ' + m)
                    continue
                cases.append(R.Case(d, tool, op, cons, cls=cls, note='mutant'))

    # ---- run: long ones first
    # (fixed shapes / grid early: the hang findings among them occupy a worker for the whole CPU limit)
    cases.sort(key=lambda c: (0 if c.size() > 100000 else 1 if c.note in ('shape', 'grid') else 2, -c.size()))
    R.run_cases(cases, timeout=400 if not quick else 240)

    # ---- judge
    max_ratio, max_case = 0.0, None
    sites = {}
    viol = {}           # key -> [cases]
    for c in cases:
        chk.ev()
        oc = outcome_class(c)
        chk.tag('tool:' + c.tool)
        chk.tag('outcome:' + oc)
        chk.tag('workload:' + c.note)
        if c.note == 'mutant':
            chk.tag('op:' + c.op)
        # distinct non-trivial: the process really processed the input (parser steps > 0 or a diagnostic) and the triple
        # (operator/shape x construct, tool, outcome) is new
        if (c.r.steps or 0) > 0 or c.symptom or c.r.rc != 0:
            chk.seen(c.op, c.construct, c.tool, oc)
        if c.r.steps is not None:
            ratio = c.r.steps / float(max(c.size(), 1))
            if c.size() >= 64 and ratio > max_ratio:
                max_ratio, max_case = ratio, c
            for k, v in c.r.step_sites.items():
                sites[k] = sites.get(k, 0) + v
        if c.symptom == 'timeout':
            chk.inconc('watchdog fired twice without the step budget or the cpu limit being exceeded: %s x %s|%s' % (c.op, c.construct, c.tool))
            continue
        if c.symptom:
            viol.setdefault(c.key(), []).append(c)
    shrunk = 0
    for key in sorted(viol):
        cs = viol[key]
        c = min(cs, key=lambda x: x.size())
        if key in chk.open_keys:
            for _ in cs:
                chk.violation(key, '')
            continue
        data = c.data
        if c.path:
            with open(c.path, 'rb') as f:
                data = f.read()
        nruns = 0
        if c.note in ('mutant', 'generated') or c.path:
            if shrunk < 6:
                shrunk += 1
                data, nruns = R.shrink(c, max_tests=4000)
        sig = R.signature(c.r)
        what = ('%s on %s [%s] -> %s%s; exit %s; %d such runs; input %d bytes%s; stderr tail: %s'
                % (c.tool + (' ' + ' '.join(c.args) if c.args else ''), c.cls or c.construct, c.op, c.symptom, ' at ' + sig if sig else '', c.r.rc,
                   len(cs), c.size(), ' (shrunk to %d in %d runs)' % (len(data or b''), nruns) if nruns else '', c.r.err[-600:]))
        files = {'in.exp': data if data is not None else b'', 'stderr.txt': c.r.err[-20000:],
                 'tool_cmd.txt': '%s %s <in.exp>\n' % (c.tool, ' '.join(c.args))}
        for _ in cs:
            chk.violation(key, what, files, dict(tool=c.tool, args=list(c.args), op=c.op, construct=c.construct, symptom=c.symptom, signature=sig))

    # ---- evidence
    for c in cases:
        if c.note == 'mutant' and len(chk.samples) < 3 and c.size() < 1500:
            chk.sample(dict(workload=c.note, op=c.op, construct=c.construct, tool=c.tool, outcome=outcome_class(c), exit=c.r.rc, steps=c.r.steps,
                            bytes=c.size(), input=c.data.decode('latin-1')))
    for c in cases:
        if c.note == 'shape' and c.symptom is None and c.data and len(c.data) < 800 and len(chk.samples) < 5:
            chk.sample(dict(workload=c.note, shape=c.cls, construct=c.construct, tool=c.tool, args=list(c.args), outcome=outcome_class(c),
                            exit=c.r.rc, steps=c.r.steps, input=c.data.decode('latin-1')))
    total_random = n_random + len(gen_inputs) * len(R.TOOLS)
    extra = dict(step_bound=dict(A=R.STEP_A, B=R.STEP_B, calibrated_max_ratio=R.CALIBRATED_MAX_RATIO,
                                 observed_max_steps_per_byte=round(max_ratio, 4),
                                 observed_at=('%s x %s|%s (%d bytes, %s steps)' % (max_case.op, max_case.construct, max_case.tool, max_case.size(),
                                                                                   max_case.r.steps)) if max_case else None),
                 cpu_limit=dict(A_s=R.CPU_A, bytes_per_s=R.CPU_BYTES_PER_S),
                 h1_sites_reached=dict(sorted(sites.items())),
                 h1_sites_never_reached=[s for s in ('s40', 's41', 's42', 's43', 's44', 's45') if s not in sites],
                 shipped_runs=n_shipped, masked_runs=n_masked, unmasked_fraction=round(1.0 - n_masked / float(max(total_random, 1)), 4),
                 masks=[m for m, _ in MASKS] + ['generator feature ' + a for a in RICH_AVOID])
    return chk.finish(
        rule='one evaluation = one (input, tool, options) process of the sanitizer build. Inputs: every shipped .exp file; %d+%d generated '
             'valid schemas; per base schema %d token mutants (delete/duplicate/swap/keyword at a random significant token) and %d byte '
             'mutants (NUL, 0x80-0xFF, strip final newline, truncate, bit flip, punctuation insert); %d fixed pathological shapes / option '
             'values. distinct non-trivial = distinct (operator or shape, construct hit, tool, outcome class) among runs in which the tool '
             'really consumed the input (>= 1 parser step, a diagnostic or a symptom).' % (n_data, n_rich, per_tok, per_byte, len(shapes)),
        assumptions=['red-zone sanitizers miss intra-object overflows and non-adjacent wild accesses',
                     'H1 sites cover the token loop and the resolve passes only; loops elsewhere are bounded by the CPU limit '
                     '(%d s + 1 s per %d bytes), not by the step budget' % (R.CPU_A, R.CPU_BYTES_PER_S),
                     'a wall-clock watchdog firing twice is reported inconclusive, never as a violation',
                     'inputs inside a masked sub-space (see masks) are not run in the randomized workload; fixed shapes cover them'],
        extra=extra)


def replay(chk, d):
    """./check C06 --replay <replay dir>: re-run the saved witness through the same runner and oracle."""
    import json
    with open(os.path.join(d, 'case.json')) as f:
        case = json.load(f)
    info = case.get('case', {})
    with open(os.path.join(d, 'in.exp'), 'rb') as f:
        data = f.read()
    R.tools_dir()
    c = R.Case(data, info.get('tool', 'check-express'), info.get('op', 'replay'), info.get('construct', 'witness'), args=info.get('args', ()))
    R.run_cases([c])
    chk.ev()
    chk.seen(c.op, c.construct, c.tool, outcome_class(c))
    chk.seen('replay', d)
    chk.sample(dict(tool=c.tool, args=list(c.args), outcome=outcome_class(c), exit=c.r.rc, steps=c.r.steps, stderr_tail=c.r.err[-1500:]))
    print('replay: %s %s -> %s (exit %s, signal %s, steps %s)' % (c.tool, ' '.join(c.args), c.symptom or 'no symptom', c.r.rc, c.r.sig, c.r.steps))
    if c.symptom == 'timeout':
        chk.inconc('watchdog fired')
    elif c.symptom:
        chk.violation(c.key(), '%s -> %s at %s; stderr tail: %s' % (c.tool, c.symptom, R.signature(c.r), c.r.err[-600:]), {'in.exp': data})
    return chk.finish(rule='replay of one saved witness', assumptions=['same runner and oracle as the full check'])
