"""C14 - appending a file keeps both populations whole and their references separate.

p21mon: read A; append B [; append C]; dump; write.  Oracle: all of A with its ids and values; for each appended file
ONE offset d with ids == {i + d}, every shifted id above every earlier id, and every reference inside the appended
file shifted by the same d (plain attributes, aggregates, selects, aggregates of selects, complex parts).
"""
import copy
import os
import random
import re
from .. import gen_p21, p21fam, ref_p21, run, probes
from . import c03
from ..ref_p21 import Inst

SEV_USERMSG = 2
AVOID_SCHEMA = probes.masked_schema_features('C01')
AVOID_POP = probes.masked_pop_features('C01')


def shift_value(v, d):
    if v[0] == 'ref':
        return ('ref', v[1] + d)
    if v[0] == 'agg':
        return ('agg', [shift_value(x, d) for x in v[1]])
    if v[0] == 'typed':
        return ('typed', v[1], shift_value(v[2], d))
    return v


def shift_inst(i, d):
    return Inst(i.id + d, [(kw, [shift_value(v, d) for v in vals]) for kw, vals in i.parts], i.complex)


def renumber(pop, mode, rng):
    """Re-id a population according to an id-range mode; references follow."""
    ids = [i.id for i in pop.insts]
    n = len(ids)
    if mode == 'from1':
        new = list(range(1, n + 1))
    elif mode == 'sparse':
        cur, new = rng.choice([1, 5, 50]), []
        for _ in ids:
            new.append(cur)
            cur += rng.choice([1, 2, 7, 100])
    elif mode == 'near1000':
        base = rng.choice([998, 999, 1000, 1998, 1999, 2000])
        new = [base + k for k in range(n)]
    elif mode == 'high':
        base = rng.choice([5000, 123456, 10 ** 6])
        new = [base + 3 * k for k in range(n)]
    else:
        new = ids
    m = dict(zip(ids, new))

    def mv(v):
        if v[0] == 'ref':
            return ('ref', m[v[1]])
        if v[0] == 'agg':
            return ('agg', [mv(x) for x in v[1]])
        if v[0] == 'typed':
            return ('typed', v[1], mv(v[2]))
        return v
    insts = [Inst(m[i.id], [(kw, [mv(v) for v in vals]) for kw, vals in i.parts], i.complex) for i in pop.insts]
    return gen_p21.Population(pop.schema, insts, pop.header)


def reorder(pop, how, rng):
    """Order of the instances in the file (Part 21 allows any order, forward references included)."""
    insts = list(pop.insts)
    if how == 'desc':
        insts.sort(key=lambda i: -i.id)
    elif how == 'max-first':
        insts.sort(key=lambda i: i.id)
        insts = insts[-1:] + insts[:-1]
    elif how == 'max-middle':
        insts.sort(key=lambda i: i.id)
        if len(insts) > 2:
            insts = insts[:-1]
            insts.insert(len(insts) // 2, sorted(pop.insts, key=lambda i: i.id)[-1])
    elif how == 'shuffled':
        rng.shuffle(insts)
    return gen_p21.Population(pop.schema, insts, pop.header)


ORDERS = ['asc', 'asc', 'desc', 'max-first', 'max-middle', 'shuffled']


def ref_shapes(schema, inst):
    out = set()
    for pi, (kw, vals) in enumerate(inst.parts):
        for j, v in enumerate(vals):
            if ref_p21.value_refs(v):
                out.add(p21fam.attr_shape(schema, inst, pi, j))
    return out


def judge(chk, lib, pops, modes):
    found = []
    texts = [gen_p21.render(p, 'compact') for p in pops]
    files = {'schema.exp': lib.schema.text()}
    for n, t in enumerate(texts):
        files['file%d.p21' % n] = t
    with p21fam.Scratch('c14') as sc:
        if sum(len(t) for t in texts) % 3 == 0:
            # the files share their base name and differ only in the directory (dirA/part.p21, dirB/part.p21 ...)
            paths = []
            for n, t in enumerate(texts):
                os.makedirs(sc.path('dir%d' % n), exist_ok=True)
                paths.append(sc.write(os.path.join('dir%d' % n, 'part.p21'), t))
            chk.tag('files with the same base name in different directories')
        else:
            paths = [sc.write('f%d.p21' % n, t) for n, t in enumerate(texts)]
        ops = ['read', paths[0]]
        for p in paths[1:]:
            ops += ['append', p]
        ops += ['dump', sc.path('dump.txt'), 'write', sc.path('out.p21')]
        r = p21fam.mon(lib, ops, sc.d)
        chk.ev()
        shape = 'ids:' + '+'.join(modes)
        if r.crashed() or r.timed_out:
            return [('crash|%s|%s' % (shape, r.symptom()), '%s %s' % (r.symptom(), run.san_frames(r.err)), dict(files, stderr=r.err[-4000:]))]
        mops = p21fam.mon_ops(r.out)
        for (op, kv), nm in zip(mops, ['read'] + ['append'] * (len(pops) - 1)):
            if kv.get('sev', -9) < SEV_USERMSG:
                found.append(('error|%s of conforming file reports severity %s' % (nm, kv.get('sev')), 'modes %s: %s' % (modes, ' '.join(p21fam.mon_msgs(r.out))[:400]), files))
                return found
        n, hdr, dump = p21fam.parse_dump(sc.read('dump.txt'))
        files['dump.txt'] = sc.read('dump.txt') or ''
        got = []
        for (iid, st, name, idx, sfid, txt) in dump:
            try:
                got.append(p21fam.parse_inst_text(txt))
            except ref_p21.P21Error:
                got.append(None)
        total = sum(len(p.insts) for p in pops)
        if len(got) != total:
            found.append(('count|%s|instances after append %s than the files hold' % (shape, 'fewer' if len(got) < total else 'more'),
                          'have %d, files hold %d' % (len(got), total), files))
            return found
        pos = 0
        max_earlier = None
        for fi, p in enumerate(pops):
            seg = got[pos:pos + len(p.insts)]
            pos += len(p.insts)
            if any(g is None for g in seg):
                found.append(('syntax|dumped instance does not parse', 'file %d' % fi, files))
                return found
            ds = set(g.id - w.id for g, w in zip(seg, p.insts))
            if fi == 0:
                if ds != {0} and p.insts:
                    found.append(('first file|ids changed', 'offsets %s' % sorted(ds)[:5], files))
                    return found
                d = 0
            else:
                if len(ds) != 1:
                    found.append(('offset|%s|appended instances are not shifted by one common offset' % shape, 'offsets %s' % sorted(ds)[:6], files))
                    return found
                d = ds.pop()
                if min(g.id for g in seg) <= max_earlier:
                    found.append(('offset|%s|shifted ids collide with / lie below earlier ids' % shape, 'offset %d, min new id %d, max earlier id %d'
                                  % (d, min(g.id for g in seg), max_earlier), files))
            for g, w in zip(seg, p.insts):
                want = shift_inst(w, d)
                if ref_p21.canon_inst(c03._numnorm(lib.schema, g)) == ref_p21.canon_inst(c03._numnorm(lib.schema, want)):
                    continue
                # every differing attribute is reported under its own (shape, kind) key
                keyed = False
                wparts = sorted(want.parts) if want.complex else want.parts
                gparts = sorted(g.parts) if g.complex else g.parts
                if [k for k, _v in wparts] == [k for k, _v in gparts]:
                    for (kw, wv), (_k, gv) in zip(wparts, gparts):
                        for j, (a, b) in enumerate(zip(wv, gv)):
                            dd = ref_p21.diff_values(ref_p21.canon_value(ref_p21.number_norm(a)), ref_p21.canon_value(ref_p21.number_norm(b)))
                            if not dd:
                                continue
                            pidx = [x[0] for x in w.parts].index(kw)
                            shp = p21fam.attr_shape(lib.schema, w, pidx, j)
                            if re.match(r'^(OPTIONAL )?\w+ OF (OPTIONAL )?\w+ OF .*entity', shp) or \
                                    (re.match(r'^(OPTIONAL )?\w+ OF (OPTIONAL )?\w+ OF ', shp) and dd[1].startswith('ref')):
                                # an entity reference anywhere below an aggregate of aggregates (element type entity or a select with an
                                # entity member): one root cause, the generic aggregate node keeps nested elements as text
                                shp = 'nested aggregate of entity' + (' in complex part' if 'complex part' in shp else '')
                            kindd = 'reference not shifted by the file offset' if dd[1].startswith('ref') else dd[1]
                            found.append(('%s|%s|%s' % ('appended file' if fi else 'first file', shp, kindd),
                                          'file %d #%d (offset %d) %s attr %d%s: got %r want %r' % (fi, w.id, d, kw, j, dd[0], str(b)[:200], str(a)[:200]), files))
                            keyed = True
                if not keyed:
                    found.append(('%s|instance|differs' % ('appended file' if fi else 'first file'),
                                  'file %d #%d (offset %d): got %r want %r' % (fi, w.id, d, str(g)[:300], str(want)[:300]), files))
            mx = max(g.id for g in seg)
            max_earlier = mx if max_earlier is None else max(max_earlier, mx)
    return found


def matrix_case():
    """Fixed schema + population in which a reference occurs in every position the property names:
    plain attribute, aggregate, nested aggregate, select (entity member), select (typed aggregate-of-entity member),
    aggregate of selects, complex part."""
    from .. import model as M
    types = [M.TypeDef('label', 'simple', base=M.STR()),
             M.TypeDef('pset', 'simple', base=M.AGG('SET', M.ENT('pt'), 0, None)),
             M.TypeDef('psel', 'select', members=['pt', 'pset', 'label'])]
    ents = [M.Entity('pt', attrs=[M.Attr('n', M.STR())]),
            M.Entity('holder', attrs=[M.Attr('r', M.ENT('pt')), M.Attr('lr', M.AGG('LIST', M.ENT('pt'))), M.Attr('llr', M.AGG('LIST', M.AGG('LIST', M.ENT('pt')))),
                                      M.Attr('s', M.NAMED('psel')), M.Attr('ss', M.NAMED('psel')), M.Attr('ls', M.AGG('LIST', M.NAMED('psel'))),
                                      M.Attr('ps', M.NAMED('pset')), M.Attr('opt', M.ENT('holder'), True)]),
            M.Entity('cx', sexpr=('andor', ('leaf', 'cx1'), ('leaf', 'cx2')), attrs=[M.Attr('c0', M.ENT('pt'))]),
            M.Entity('cx1', supers=['cx'], attrs=[M.Attr('c1', M.AGG('LIST', M.ENT('pt')))]),
            M.Entity('cx2', supers=['cx'], attrs=[M.Attr('c2', M.NAMED('psel'))])]
    s = M.Schema('c14_matrix', types, ents)

    def pop(tag):
        R = lambda k: ('ref', k)
        insts = [Inst(1, [('PT', [('str', tag + '1')])]), Inst(2, [('PT', [('str', tag + '2')])]), Inst(3, [('PT', [('str', tag + '3')])]),
                 Inst(4, [('HOLDER', [R(1), ('agg', [R(2), R(3)]), ('agg', [('agg', [R(1)]), ('agg', [R(3), R(2)])]), R(2),
                                      ('typed', 'PSET', ('agg', [R(1), R(3)])), ('agg', [R(3), ('typed', 'LABEL', ('str', 'x')), ('typed', 'PSET', ('agg', [R(2)]))]),
                                      ('agg', [R(3), R(1)]), ('null',)])]),
                 Inst(5, [('HOLDER', [R(3), ('agg', []), ('agg', []), ('typed', 'LABEL', ('str', 'y')), R(1), ('agg', []), ('agg', []), R(4)])]),
                 Inst(6, [('CX', [R(2)]), ('CX1', [('agg', [R(1), R(2)])]), ('CX2', [('typed', 'PSET', ('agg', [R(3)]))])], True)]
        return gen_p21.Population(s, insts)
    return s, [pop('a'), pop('b'), pop('c')]


def redecl_case():
    """Fixed schema with attributes the written form does not show: an inherited entity-valued attribute re-declared in a subtype
    (to a subtype of its entity, to a select member) - the value lives in the re-declaring attribute object and is written as `*`."""
    from .. import model as M
    ents = [M.Entity('pt', attrs=[M.Attr('n', M.STR())]),
            M.Entity('spt', supers=['pt'], attrs=[M.Attr('w', M.REAL())]),
            M.Entity('link', attrs=[M.Attr('nm', M.STR()), M.Attr('tail', M.ENT('pt')), M.Attr('tails', M.AGG('LIST', M.ENT('pt'), 0, None))]),
            M.Entity('slink', supers=['link'], attrs=[M.Attr('SELF\\link.tail', M.ENT('spt'))]),
            M.Entity('sslink', supers=['slink'], attrs=[M.Attr('extra', M.ENT('pt'), True)]),
            M.Entity('llink', supers=['link'], attrs=[M.Attr('SELF\\link.tails', M.AGG('LIST', M.ENT('spt'), 1, None))])]
    s = M.Schema('c14_redecl', [], ents)

    def text(tag):
        body = ["#1=SPT('%s1',1.);" % tag, "#2=SPT('%s2',2.);" % tag, "#3=PT('%s3');" % tag,
                "#4=LINK('%sl',#3,(#1,#3));" % tag, "#5=SLINK('%ss',#2,(#3));" % tag, "#6=SSLINK('%sx',#1,(),#3);" % tag,
                "#7=LLINK('%sy',#3,(#2,#1));" % tag]
        empty = gen_p21.render(gen_p21.Population(s, []), 'compact')
        head, tail = empty.split('DATA;\n')
        return head + 'DATA;\n' + '\n'.join(body) + '\n' + tail
    return s, [text('a'), text('b'), text('c')]


_AT = re.compile(r'^@@A (\d+) (\d+) (\S+) ?(.*)$')


def attr_objects(txt):
    """dumpattrs output -> [(instance id, [(index, attribute name, value text)])] in manager order"""
    out, cur = [], None
    for l in (txt or '').splitlines():
        m = _AT.match(l)
        if not m:
            continue
        iid = int(m.group(1))
        if cur is None or cur[0] != iid:
            cur = (iid, [])
            out.append(cur)
        cur[1].append((int(m.group(2)), m.group(3), m.group(4)))
    return out


def judge_attr_objects(chk, lib, texts, label):
    """Differential oracle on attribute OBJECTS (not the written form): the attribute values of file B read alone, with every
    reference shifted by the offset, must equal the values B's instances have after `read A; append B [; append C]`."""
    found = []
    files = {'schema.exp': lib.schema.text()}
    for n, t in enumerate(texts):
        files['file%d.p21' % n] = t
    with p21fam.Scratch('c14a') as sc:
        paths = [sc.write('f%d.p21' % n, t) for n, t in enumerate(texts)]
        alone = []
        for n, pth in enumerate(paths):
            r = p21fam.mon(lib, ['read', pth, 'dumpattrs', sc.path('a%d.txt' % n)], sc.d)
            chk.ev()
            if r.crashed() or r.timed_out:
                return [('crash|%s|attribute objects of a file read alone|%s' % (label, r.symptom()), run.san_frames(r.err).__str__(), dict(files, stderr=r.err[-3000:]))]
            alone.append(attr_objects(sc.read('a%d.txt' % n)))
        ops = ['read', paths[0]]
        for pth in paths[1:]:
            ops += ['append', pth]
        r = p21fam.mon(lib, ops + ['dumpattrs', sc.path('all.txt')], sc.d)
        chk.ev()
        if r.crashed() or r.timed_out:
            return [('crash|%s|attribute objects after append|%s' % (label, r.symptom()), run.san_frames(r.err).__str__(), dict(files, stderr=r.err[-3000:]))]
        allo = attr_objects(sc.read('all.txt'))
        files['attrs_after_append.txt'] = sc.read('all.txt') or ''
    pos = 0
    for fi, objs in enumerate(alone):
        seg = allo[pos:pos + len(objs)]
        pos += len(objs)
        if len(seg) != len(objs) or not objs:
            found.append(('count|%s|instances after append differ from the files' % label, 'file %d: %d alone, %d after append' % (fi, len(objs), len(seg)), files))
            return found
        ds = set(g[0] - w[0] for g, w in zip(seg, objs))
        if len(ds) != 1:
            found.append(('offset|%s|appended instances are not shifted by one common offset' % label, 'offsets %s' % sorted(ds)[:6], files))
            return found
        d = ds.pop()
        for (gid, gat), (wid, wat) in zip(seg, objs):
            for (gi, gn, gv), (wi, wn, wv) in zip(gat, wat):
                want = re.sub(r'#(\d+)', lambda m: '#%d' % (int(m.group(1)) + d), wv)
                chk.seen('attribute object', label, gn, 'ref' if '#' in wv else 'plain', fi > 0)
                if gv != want:
                    kind = 're-declaring attribute' if '.' in gn or gn != wn else 'attribute'
                    found.append(('appended file|%s object %s of %s|%s' % (kind, gn, label, 'reference not shifted by the file offset' if '#' in wv else 'value differs'),
                                  'file %d #%d attribute %d (%s): after append %r, alone %r, offset %d' % (fi, wid, gi, gn, gv, wv, d), files))
    return found


def main(chk):
    quick = chk.tier == 'quick'
    n_schemas, n_pairs = (10, 16) if quick else (200, 48)
    schemas = p21fam.std_corpus(chk.seed, n_schemas, AVOID_SCHEMA)
    libs = p21fam.report_build_failures(chk, p21fam.build_libs(schemas))
    MODES = ['from1', 'sparse', 'near1000', 'high']
    cases = []
    for li, lib in enumerate(libs):
        for k in range(n_pairs):
            rng = random.Random('c14/%d/%s/%d' % (chk.seed, lib.schema.name, k))
            nfiles = 3 if k % 4 == 3 else 2
            pops, modes = [], []
            for f in range(nfiles):
                pg = gen_p21.PopGen(lib.schema, rng, avoid=AVOID_POP, strs=['', 'a', "it''s", '#12'])
                p = pg.population(n_extra=rng.randint(0, 4), with_complex=True)
                if 'unfillable' in p.tags or not p.insts:
                    p = None        # (an empty population has no ids to judge)
                    break
                mode = 'from1' if (f == 0 and k % 2 == 0) or (k % 5 == 0) else rng.choice(MODES)
                order = ORDERS[(k + f) % len(ORDERS)]
                pops.append(reorder(renumber(p, mode, rng), order, rng))
                modes.append(mode if order == 'asc' else mode + '/' + order)
            if p is None:
                continue
            cases.append((lib, pops, modes))

    ms, mpops = matrix_case()
    mlib = p21fam.build_libs([ms])[0]
    if mlib.fail is None:
        cases.append((mlib, mpops[:2], ['matrix', 'matrix']))
        cases.append((mlib, mpops, ['matrix', 'matrix', 'matrix']))
        cases.append((mlib, [renumber(mpops[0], 'near1000', random.Random(1)), mpops[1]], ['matrix-near1000', 'matrix']))
        for how in ('desc', 'max-first', 'max-middle'):
            cases.append((mlib, [reorder(renumber(mpops[0], 'high', random.Random(2)), how, random.Random(3)), mpops[1]], ['matrix-high/' + how, 'matrix']))
            cases.append((mlib, [reorder(mpops[0], how, random.Random(3)), reorder(mpops[1], how, random.Random(4)), mpops[2]], ['matrix/' + how, 'matrix/' + how, 'matrix']))
    else:
        chk.inconc('matrix schema could not be built: %s' % str(mlib.fail)[:300])

    # attribute objects the written form hides (re-declared attributes), and the matrix once more at attribute-object level
    rs, rtexts = redecl_case()
    rlib = p21fam.build_libs([rs])[0]
    extra = []
    if rlib.fail is None:
        extra.append((rlib, rtexts[:2], 're-declaration schema, two files'))
        extra.append((rlib, rtexts, 're-declaration schema, three files'))
    else:
        chk.inconc('re-declaration schema could not be built: %s' % str(rlib.fail)[:300])
    for elib, etexts, elabel in extra:
        for key, what, files in judge_attr_objects(chk, elib, etexts, elabel):
            chk.violation(key, what, files, dict(schema=elib.schema.name))

    def work(c):
        return c, judge(chk, *c)
    for (lib, pops, modes), found in run.pmap(work, cases):
        chk.tag('files:%d' % len(pops))
        for p in pops[1:]:
            for i in p.insts:
                for s in ref_shapes(lib.schema, i):
                    chk.seen(s, '+'.join(modes))
                    chk.tag('ref in ' + s)
        for key, what, files in found:
            chk.violation(key, what, files, dict(schema=lib.schema.name, modes=modes))
        if not found and len(chk.samples) < 3:
            chk.sample(dict(schema=lib.schema.name, id_modes=modes, first_ids=[[i.id for i in p.insts][:6] for p in pops],
                            verdict='all instances present, one common offset per appended file, references shifted'))
    return chk.finish(
        rule='seeded populations of one schema renumbered into id-range modes (from 1 / sparse / near multiples of 1000 / high) read then appended (2 or 3 files); '
             'distinct_nontrivial = distinct (shape of a reference-carrying attribute in an appended file, id-mode combination)',
        assumptions=['masks inherited from C01', 'offset clause read as: every shifted id lies above every earlier id'])
