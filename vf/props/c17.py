"""C17 - the build-time scanner predicts exactly the files the C++ generator writes.

For every accepted schema file `schema_scanner f.exp` and `exp2cxx f.exp` (flavour 'plain') are run in two
separate scratch directories.  The scanner's CMakeLists.txt files are parsed (entity/type header and
implementation lists, misc lists, unity file names, PROJECT / short name / directory, SCHEMA_TARGETS) and
compared with the recursive listing of what exp2cxx wrote:
  * set equality of entity/*.{h,cc} and type/*.{h,cc} (union over the schemas of the file);
  * every fixed per-schema file the scanner names (misc headers, misc impls, unity impls) exists as named, and
    every top-level .cc exp2cxx wrote is named by some CMakeLists;
  * one CMakeLists per schema of the file (a schema = one Sdai<NAME>.init.cc written by exp2cxx); the schemas of one file
    get pairwise distinct directories, PROJECT (library) names and short names, every announced directory holds the
    CMakeLists of a different schema;
  * multi-schema files: each schema's entity/type lists equal the files exp2cxx created FOR THAT SCHEMA (the includes it
    records in Sdai<S>_unity_{entities,types}.{cc,h} while creating the files), so every generated file is listed by
    exactly the schema(s) it is generated for;
  * directory == PROJECT == short name == prefix of every list variable; SCHEMA_TARGETS schema name == the
    name exp2cxx used in its file names; SCHEMA_TARGETS path == the input path given.
Workload beyond shipped/unit/random files: vf/c17_multi.py - file-name x schema-name matrix for 1/2/3 schemas (directory and
library naming) and a single-schema family varying the generation order of select / renamed enumeration (a single schema
must never be split into numbered passes).
Keys:  <program pair>|<schema feature>|<symptom> with symptom 'file predicted not written' / 'file written not
predicted' / ... ; the schema feature is derived from the EXPRESS text of the declaration the file belongs to.
"""
import os
import re

from .. import build, run
from .. import c12_util as U

LEVEL = 'exploration'

SIMPLE_KW = ('INTEGER', 'REAL', 'NUMBER', 'STRING', 'BINARY', 'BOOLEAN', 'LOGICAL')


# ---------------------------------------------------------------------------------------------- EXPRESS text -> declaration kinds
def strip_remarks(text):
    text = re.sub(r'\(\*.*?\*\)', ' ', text, flags=re.S)
    text = re.sub(r'--[^\n]*', ' ', text)
    return text


def declarations(text):
    """-> (schemas [lower names], types {lower name: kind string}, entities set(lower)).  Text based, rough but
    independent of both programs; used only to NAME the feature of a mismatch, never to decide one."""
    t = strip_remarks(text)
    schemas = [m.group(1).lower() for m in re.finditer(r'(?im)^\s*SCHEMA\s+(\w+)', t)]
    ents = set(m.group(1).lower() for m in re.finditer(r'(?i)\bENTITY\s+(\w+)', t))
    raw = {}
    for m in re.finditer(r'(?is)\bTYPE\s+(\w+)\s*=\s*(.*?);', t):
        raw[m.group(1).lower()] = ' '.join(m.group(2).split())
    kinds = {}

    def kind(n, depth=0):
        if n in kinds:
            return kinds[n]
        rhs = raw.get(n)
        if rhs is None:
            return 'entity reference' if n in ents else 'unknown'
        u = rhs.upper()
        if re.match(r'(EXTENSIBLE\s+)?(GENERIC_ENTITY\s+)?ENUMERATION', u):
            k = 'enumeration'
        elif re.match(r'(EXTENSIBLE\s+)?(GENERIC_ENTITY\s+)?SELECT', u):
            k = 'select'
        elif re.match(r'(LIST|SET|BAG|ARRAY)\b', u):
            base = re.sub(r'(?i)\b(LIST|SET|BAG|ARRAY)\b\s*(\[[^\]]*\])?\s*OF\s*(OPTIONAL\s+)?(UNIQUE\s+)?', '', rhs).strip().lower()
            bw = base.split('(')[0].split()[0] if base else ''
            bk = bw.upper() if bw.upper() in SIMPLE_KW else (kind(bw, depth + 1) if depth < 10 else 'unknown')
            k = 'aggregate of ' + ('simple type' if bk in SIMPLE_KW else bk)
        elif u.split('(')[0].split()[0] in SIMPLE_KW:
            k = 'defined simple type'
        else:
            ref = rhs.split()[0].lower()
            rk = kind(ref, depth + 1) if depth < 10 else 'unknown'
            k = rk if rk.startswith('renamed ') else 'renamed ' + rk
        kinds[n] = k
        return k
    for n in raw:
        kind(n)
    return schemas, kinds, ents


def feature_of(path, kinds, ents):
    """Schema feature of the declaration that entity/<x> or type/<x> belongs to."""
    d, b = os.path.dirname(path), os.path.basename(path)
    stem = b.rsplit('.', 1)[0]
    if stem.startswith('Sdai'):
        stem = stem[4:]
    n = stem.lower()
    if d == 'entity':
        return 'entity' if n in ents else 'entity file of an undeclared name'
    for cand in (n, n[:-4] if n.endswith('_var') else None, n[:-4] if n.endswith('_agg') else None, n[:-4] if n.endswith('_ptr') else None):
        if cand and cand in kinds:
            return kinds[cand]
    # a file named after a run-time library class means a declaration that generates no code was given a file
    if stem.startswith('SDAI_') or b.startswith('SDAI_'):
        return 'defined simple type (file named after a run-time class)'
    if stem.endswith('Aggregate') or stem in ('LOGICALS', 'BOOLEANS') or b.split('.')[0] in ('LOGICALS', 'BOOLEANS') or b.split('.')[0].endswith('Aggregate'):
        return 'aggregate type (file named after a run-time class)'
    return 'type file of an undeclared name'


# ---------------------------------------------------------------------------------------------- CMakeLists parser
class Lists(object):
    pass


def parse_cmakelists(text):
    L = Lists()
    L.text = text
    m = re.search(r'^# schema name: (\S+)', text, re.M)
    L.schema = m.group(1) if m else None
    m = re.search(r'^# \(short name: (\S+)\)', text, re.M)
    L.short = m.group(1) if m else None
    L.project = re.findall(r'^PROJECT\((\S+)\)', text, re.M)
    m = re.search(r'SCHEMA_TARGETS\("([^"]*)"\s+"([^"]*)"', text)
    L.target_path, L.target_schema = (m.group(1), m.group(2)) if m else (None, None)
    L.sets = {}
    for m in re.finditer(r'\bset\(\s*([^\s()]+)\s+([^()]*?)\)', text, re.S):
        L.sets.setdefault(m.group(1), []).append(m.group(2).split())
    m = re.search(r'^set\((\S+)_file_count (\d+)\)', text, re.M)
    L.count_var, L.file_count = (m.group(1), int(m.group(2))) if m else (None, None)
    return L


def list_of(L, suffix, which=-1):
    """The value list of set(<short><suffix> ...); for *_impls there are two (unity, then explicit)."""
    v = L.sets.get('%s%s' % (L.short, suffix))
    if not v:
        return None
    return v[which]


# ---------------------------------------------------------------------------------------------- one case
def judge(g, name, text, fname):
    """-> dict(status, findings=[(key, what)], stats...)"""
    root = os.path.join(g.scratch, 'c%d' % g.next_id())
    ind = os.path.join(root, 'in')
    sdir, gdir = os.path.join(root, 'scan'), os.path.join(root, 'gen')
    for d in (ind, sdir, gdir):
        os.makedirs(d)
    inp = os.path.join(ind, fname)          # fname may place the file in sub-directories (data/<dir>/x.exp)
    os.makedirs(os.path.dirname(inp), exist_ok=True)
    rescan = (sum(map(ord, name)) % 3 == 0) and text.rstrip().endswith('END_SCHEMA;')
    if rescan:
        # history: the same build tree was scanned before for ANOTHER version of this file (one more entity); the version judged
        # is put back with an OLDER time stamp than the lists of the first scan (cp -p / rsync -t / tar restore an old file)
        cut = text.rstrip().rfind('END_SCHEMA;')
        with open(inp, 'w') as f:
            f.write(text[:cut] + 'ENTITY zz_only_in_the_other_version;\n  zz : INTEGER;\nEND_ENTITY;\n' + text[cut:])
        run.run([g.tools['schema_scanner'], inp], cwd=sdir, env=g.env, timeout=g.timeout)
    with open(inp, 'w') as f:
        f.write(text)
    if rescan:
        old = os.path.getmtime(inp) - 7200
        os.utime(inp, (old, old))
    # the input is named the way cmake / a user may name it: canonical absolute path, relative to the working directory, with a
    # `dir/..` detour, through a symbolic link
    spelling = ('absolute', 'relative', 'dotted', 'symlink')[sum(map(ord, name)) % 4]
    sinp = inp
    if spelling == 'relative':
        sinp = os.path.relpath(inp, sdir)
    elif spelling == 'dotted':
        sinp = os.path.join(os.path.dirname(inp), '..', os.path.basename(os.path.dirname(inp)), os.path.basename(inp))
    elif spelling == 'symlink':
        lnk = os.path.join(root, 'lnk')
        os.symlink(os.path.dirname(inp), lnk)
        sinp = os.path.join(lnk, os.path.basename(inp))
    rs = run.run([g.tools['schema_scanner'], sinp], cwd=sdir, env=g.env, timeout=g.timeout)
    rg = run.run([g.tools['exp2cxx'], inp], cwd=gdir, env=g.env, timeout=g.timeout)
    res = dict(name=name, findings=[], runs=2, status='judged', nschemas=0, nfiles=0, tags=set())
    res['tags'].add('input path spelling: ' + spelling)
    if rescan:
        res['tags'].add('history: build tree scanned before for another version of the file')
    if rs.timed_out or rg.timed_out:
        res['status'] = 'timeout'
        return res
    if rs.rc != 0 or rg.rc != 0 or rs.sig or rg.sig:
        res['status'] = 'not accepted (scanner %s, exp2cxx %s)' % (rs.symptom(), rg.symptom())
        res['accept'] = (rs.rc == 0 and not rs.sig, rg.rc == 0 and not rg.sig)
        return res
    schemas, kinds, ents = declarations(text)
    stree, gtree = U.tree(sdir), U.tree(gdir)
    written = set(p for p in gtree if not p.endswith('/'))
    res['nfiles'] = len(written)
    F = res['findings']

    def feat(p):
        return feature_of(p, kinds, ents)
    multi = 'multi-schema file' if len(schemas) > 1 else 'single-schema file'
    res['tags'].add(multi)

    # ---- what exp2cxx says the schemas are
    gen_schemas = sorted(m.group(1) for m in (re.match(r'^Sdai(.+)\.init\.cc$', p) for p in written) if m)
    res['nschemas'] = len(gen_schemas)
    # ---- scanner output
    cm_paths = sorted(p for p in stree if p.endswith('CMakeLists.txt'))
    other = sorted(p for p in stree if not p.endswith('/') and not p.endswith('CMakeLists.txt'))
    if other:
        F.append(('scanner|%s|scanner wrote an unexpected file' % multi, 'scanner wrote %s' % other[:5]))
    lists = []
    for p in cm_paths:
        L = parse_cmakelists(U.read_text(os.path.join(sdir, p)))
        L.dir = os.path.dirname(p)
        lists.append(L)
    printed_dirs = [l.strip() for l in rs.out.splitlines() if l.strip()]
    res['nannounced'] = len(printed_dirs)
    stem = os.path.basename(fname).rsplit('.', 1)[0].lower()
    if len(schemas) > 1:
        res['tags'].add('multi: %d schemas' % len(schemas))
        res['tags'].add('multi: file name %s' % ('equals a schema name' if stem in schemas else 'is a prefix of a schema name' if any(x.startswith(stem) for x in schemas)
                                                 else 'extends a schema name' if any(stem.startswith(x) for x in schemas) else 'unrelated to the schema names'))
    if len(printed_dirs) != len(set(printed_dirs)):
        # several schemas of the file were given the same short name: each CMakeLists.txt overwrote the previous one
        F.append(('scanner|multi-schema file whose schemas get the same short name|schemas share one directory, CMakeLists.txt overwritten',
                  'exp2cxx generated schemas %s; scanner announced %s and left %s' % (gen_schemas, [os.path.basename(d) for d in printed_dirs], cm_paths)))
        res['partial'] = 'directory collision'
        res['sample'] = dict(schema_file=name, schemas=gen_schemas, cmakelists=cm_paths)
        return res
    if len(lists) != len(gen_schemas):
        F.append(('scanner vs exp2cxx|%s|number of CMakeLists differs from number of schemas generated' % multi,
                  'exp2cxx generated schemas %s; scanner wrote %s (announced %d directories)' % (gen_schemas, cm_paths, len(printed_dirs))))
    if sorted(printed_dirs) != sorted(os.path.join(sdir, L.dir) for L in lists):
        F.append(('scanner|%s|announced directories differ from directories written' % multi, 'stdout %s vs %s' % (printed_dirs, cm_paths)))
    # ---- every schema of the file: a directory, a library (PROJECT) name and a build description of its own
    for what, vals in (('schema', [(L.schema or '').lower() for L in lists]), ('library (PROJECT) name', [' '.join(L.project) for L in lists]),
                       ('short name', [L.short for L in lists])):
        if len(set(vals)) != len(vals):
            F.append(('scanner|%s|two build descriptions with the same %s' % (multi, what), '%s in %s' % (vals, cm_paths)))
    if len(schemas) > 1 and len(lists) == len(schemas):
        # the order in which the scanner visited the schema dictionary (= order of the directories on stdout)
        by_dir = dict((os.path.join(sdir, L.dir), (L.schema or '').lower()) for L in lists)
        visit = [by_dir.get(d) for d in printed_dirs]
        if None not in visit and sorted(visit) == sorted(schemas):
            res['tags'].add('multi: schemas visited %s' % ('in declaration order' if visit == schemas else 'in reverse declaration order' if visit == schemas[::-1]
                                                           else 'in another order'))
            if stem in schemas:
                res['tags'].add('multi: file named after the schema visited %s' % ('first' if visit[0] == stem else 'last' if visit[-1] == stem else 'in the middle'))
    # a schema that exp2cxx had to generate in several passes is written as Sdai<S>_1.*, Sdai<S>_2.* ... instead of Sdai<S>.*
    split = {}
    for s_ in gen_schemas:
        if 'Sdai%s.cc' % s_ not in written and 'Sdai%s_1.cc' % s_ in written:
            split[s_] = sorted(p for p in written if re.match(r'^Sdai%s_\d+(_unity_(entities|types))?\.(cc|h)$' % re.escape(s_), p))
            # the open finding is about files with several schemas (a schema waits for one that is generated later); a file with ONE schema
            # that exp2cxx splits into passes is a different matter and gets a key of its own
            F.append(('scanner vs exp2cxx|%s, schema generated in several passes|per-schema files predicted not written (numbered files written instead)' % multi,
                      'scanner names Sdai%s.h/.cc and the unity files; exp2cxx wrote %s' % (s_, split[s_][:6])))
            res['tags'].add('schema generated in several passes')
    split_written = set(p for v in split.values() for p in v)
    split_pred = set(x % s_ for s_ in split for x in ('Sdai%s.h', 'Sdai%s.cc', 'Sdai%s_unity_entities.cc', 'Sdai%s_unity_types.cc'))
    # ---- per CMakeLists
    pred = dict(eh=set(), ei=set(), th=set(), ti=set())
    dups = 0
    seen_schema = set()
    owners = {}
    for L in lists:
        if not (L.schema and L.short):
            F.append(('scanner|%s|CMakeLists without schema / short name' % multi, L.text[:300]))
            continue
        seen_schema.add(L.schema.upper())
        # naming agreement inside the scanner's own output
        names = set([L.dir, L.short] + L.project)
        if len(names) != 1 or len(L.project) != 1:
            F.append(('scanner|%s|directory, short name and PROJECT disagree' % multi, 'dir %r short %r PROJECT %r' % (L.dir, L.short, L.project)))
        if L.count_var != L.short:
            F.append(('scanner|%s|file_count variable not named after the project' % multi, '%r vs %r' % (L.count_var, L.short)))
        if L.target_schema is None or L.target_schema != L.schema:
            F.append(('scanner|%s|SCHEMA_TARGETS schema name differs from the schema' % multi, '%r vs %r' % (L.target_schema, L.schema)))
        if L.target_path != inp:
            F.append(('scanner|%s|SCHEMA_TARGETS does not name the input file' % multi, '%r vs %r' % (L.target_path, inp)))
        if L.schema.upper() not in gen_schemas:
            F.append(('scanner vs exp2cxx|%s|schema name unknown to exp2cxx' % multi, 'scanner %r; exp2cxx %s' % (L.schema, gen_schemas)))
        up = L.schema.upper()
        # lists
        eh, th = list_of(L, '_entity_hdrs'), list_of(L, '_type_hdrs')
        ei, ti = list_of(L, '_entity_impls', 1), list_of(L, '_type_impls', 1)
        ue, ut = list_of(L, '_entity_impls', 0), list_of(L, '_type_impls', 0)
        mh, mi = list_of(L, '_misc_hdrs'), list_of(L, '_misc_impls')
        if None in (eh, th, ei, ti, ue, ut, mh, mi) or len(L.sets.get(L.short + '_entity_impls', [])) != 2:
            F.append(('scanner|%s|a file list is missing from CMakeLists' % multi, 'sets present: %s' % sorted(L.sets)))
            continue
        for lst, k, pat in ((eh, 'eh', r'^entity/[^/]+\.h$'), (ei, 'ei', r'^entity/[^/]+\.cc$'), (th, 'th', r'^type/[^/]+\.h$'), (ti, 'ti', r'^type/[^/]+\.cc$')):
            for x in lst:
                if not re.match(pat, x):
                    F.append(('scanner|%s|list entry of the wrong form' % multi, '%r in list %s' % (x, k)))
                if x in pred[k]:
                    dups += 1
                pred[k].add(x)
        if sorted(x[:-2] for x in eh) != sorted(x[:-3] for x in ei) or sorted(x[:-2] for x in th) != sorted(x[:-3] for x in ti):
            F.append(('scanner|%s|header list and implementation list name different stems' % multi, '%s' % L.dir))
        if len(gen_schemas) > 1 and up in gen_schemas and up not in split:
            # files exp2cxx created FOR THIS SCHEMA = what it recorded in the schema's unity files while creating them
            for lst, unity, sub, ext, k in ((ei, 'Sdai%s_unity_entities.cc', 'entity', 'cc', 'entity impl'), (eh, 'Sdai%s_unity_entities.h', 'entity', 'h', 'entity header'),
                                            (ti, 'Sdai%s_unity_types.cc', 'type', 'cc', 'type impl'), (th, 'Sdai%s_unity_types.h', 'type', 'h', 'type header')):
                u = unity % up
                if u not in written:
                    continue        # reported below as a fixed per-schema file
                inc = set(re.findall(r'(?m)^#include "(%s/[^"/]+\.%s)"' % (sub, ext), U.read_text(os.path.join(gdir, u))))
                res['per_schema_lists_compared'] = res.get('per_schema_lists_compared', 0) + 1
                for x in sorted(set(lst) - inc):
                    F.append(('scanner vs exp2cxx|multi-schema file, %s|file listed for a schema that exp2cxx does not generate it for (%s)' % (feat(x), k),
                              '%s/CMakeLists.txt (schema %s) lists %s; exp2cxx generated for that schema: %s' % (L.dir, L.schema, x, sorted(inc)[:12])))
                for x in sorted(inc - set(lst)):
                    F.append(('scanner vs exp2cxx|multi-schema file, %s|file generated for a schema missing from that schema\'s list (%s)' % (feat(x), k),
                              'exp2cxx generated %s for schema %s; %s/CMakeLists.txt lists %s' % (x, L.schema, L.dir, sorted(lst)[:12])))
                owners.setdefault(k, {})
                for x in lst:
                    owners[k].setdefault(x, set()).add(up)
        want_mh = ['Sdaiclasses.h', 'schema.h', 'Sdai%sNames.h' % up, 'Sdai%s.h' % up]
        want_mi = ['SdaiAll.cc', 'compstructs.cc', 'schema.cc', 'Sdai%s.cc' % up, 'Sdai%s.init.cc' % up]
        want_u = ['Sdai%s_unity_entities.cc' % up, 'Sdai%s_unity_types.cc' % up]
        for x in mh + mi + ue + ut:
            if x not in written and x not in split_pred:
                F.append(('scanner vs exp2cxx|fixed per-schema file, %s|file predicted not written' % multi, '%s/CMakeLists.txt names %r; exp2cxx wrote top-level %s'
                          % (L.dir, x, sorted(p for p in written if '/' not in p)[:14])))
        res['fixed_ok'] = sorted(mh) == sorted(want_mh) and sorted(mi) == sorted(want_mi) and ue + ut == want_u
        n_e, n_t = len(eh), len(th)
        if L.file_count != (n_e + n_t) * 2 + 10:
            F.append(('scanner|%s|file_count inconsistent with the lists' % multi, '%s vs %d entities %d types' % (L.file_count, n_e, n_t)))
    for s in gen_schemas:
        if s not in seen_schema:
            F.append(('scanner vs exp2cxx|%s|schema generated by exp2cxx has no CMakeLists' % multi,
                      'exp2cxx wrote Sdai%s.init.cc; scanner described %s in %s' % (s, sorted(seen_schema), cm_paths)))
    # ---- the per-entity / per-type sets
    got = dict(eh=set(p for p in written if re.match(r'^entity/[^/]+\.h$', p)), ei=set(p for p in written if re.match(r'^entity/[^/]+\.cc$', p)),
               th=set(p for p in written if re.match(r'^type/[^/]+\.h$', p)), ti=set(p for p in written if re.match(r'^type/[^/]+\.cc$', p)))
    cls = dict(eh='entity header', ei='entity impl', th='type header', ti='type impl')
    for k in ('eh', 'ei', 'th', 'ti'):
        for p in sorted(pred[k] - got[k]):
            F.append(('scanner vs exp2cxx|%s|file predicted not written (%s)' % (feat(p), cls[k]), '%s listed by the scanner, not written by exp2cxx' % p))
        for p in sorted(got[k] - pred[k]):
            F.append(('scanner vs exp2cxx|%s|file written not predicted (%s)' % (feat(p), cls[k]), '%s written by exp2cxx, not listed by the scanner' % p))
        for p in got[k] & pred[k]:
            res['tags'].add('agreed:' + feat(p))
    # files in entity/ type/ that are neither .h nor .cc, or nested deeper
    for p in sorted(written):
        if (p.startswith('entity/') or p.startswith('type/')) and not re.match(r'^(entity|type)/[^/]+\.(h|cc)$', p):
            F.append(('scanner vs exp2cxx|%s|file written not predicted (unexpected name)' % multi, p))
    # every top-level translation unit must be named by some CMakeLists (else it is silently left out of the library)
    named = set()
    for L in lists:
        for suf in ('_misc_impls', '_entity_impls', '_type_impls', '_misc_hdrs'):
            for v in L.sets.get((L.short or '') + suf, []):
                named.update(v)
    for p in sorted(written - split_written):
        if '/' not in p and p.endswith('.cc') and p not in named:
            F.append(('scanner vs exp2cxx|fixed per-schema file, %s|file written not predicted' % multi, '%s written by exp2cxx, in no list of %s' % (p, cm_paths)))
        if '/' not in p and p.endswith('.h') and p not in named and '_unity_' not in p:
            F.append(('scanner vs exp2cxx|fixed per-schema header, %s|file written not predicted' % multi, '%s written by exp2cxx, in no header list' % p))
    res['duplicates_in_lists'] = dups
    res['listed_by_several_schemas'] = sum(1 for k in owners for x in owners[k] if len(owners[k][x]) > 1)
    res['pred_counts'] = {k: len(v) for k, v in pred.items()}
    res['kinds'] = sorted(set(kinds.values()))
    # the types that (rightly) have no file at all are part of the coverage too
    havefile = set()
    for k in ('th',):
        for p in got[k] | pred[k]:
            havefile.add(feat(p))
    for n, kd in kinds.items():
        res['tags'].add('declared:' + kd)
    res['sample'] = dict(schema_file=name, schemas=gen_schemas, cmakelists=cm_paths, predicted={cls[k]: len(pred[k]) for k in pred},
                         written={cls[k]: len(got[k]) for k in got}, first_type_files=sorted(got['th'])[:4])
    return res


# ---------------------------------------------------------------------------------------------- workload
class Ctx(object):
    def __init__(self):
        self._n = 0
        import threading
        self._lk = threading.Lock()

    def next_id(self):
        with self._lk:
            self._n += 1
            return self._n


def workload(chk):
    quick = chk.tier == 'quick'
    cases = []   # (name, text, fname, tags)
    for p in U.shipped_schemas():
        cases.append((os.path.relpath(p, build.REPO), U.read_text(p), os.path.basename(p), ('shipped',)))
    for p in U.unit_schemas():
        cases.append((os.path.relpath(p, build.REPO), U.read_text(p), os.path.basename(p), ('unit',)))
    from .. import c17_gen
    n = 40 if quick else 2000
    for s in c17_gen.corpus(chk.seed, n):
        cases.append((s.name, s.text(), s.fname, ('generated',) + tuple(sorted(s.tags))))
    for s in c17_gen.probes():
        cases.append(('probe:' + s.name, s.text(), s.fname, ('probe',) + tuple(sorted(s.tags))))
    # multi-schema matrix: number of schemas x schema name sets x declaration order x file-name relation x import relation
    from .. import c17_multi
    for s in c17_multi.fixed_matrix():
        cases.append((s.name, s.text(), s.fname, ('matrix',) + tuple(sorted(s.tags - set(['matrix'])))))
    for s in c17_multi.rename_order_matrix():
        cases.append((s.name, s.text(), s.fname, ('rename_order',) + tuple(sorted(s.tags - set(['rename_order'])))))
    for s in c17_multi.random_matrix(chk.seed, 24 if quick else 800):
        cases.append((s.name, s.text(), s.fname, ('matrix_random',) + tuple(sorted(s.tags - set(['matrix_random'])))))
    cases.sort(key=lambda c: -len(c[1]))
    return cases


def main(chk):
    g = Ctx()
    g.bdir, g.tools = U.tool_paths('plain')
    g.env = build.env(g.bdir)
    g.timeout = 180
    cases = workload(chk)
    with U.Scratch('c17') as sc:
        g.scratch = sc.d
        results = run.pmap(lambda c: (c, judge(g, c[0], c[1], c[2])), cases)
    for (name, text, fname, tags), res in results:
        chk.ev(res['runs'])
        if res['status'] == 'timeout':
            chk.inconc('watchdog fired on %s' % name)
            continue
        if res['status'] != 'judged':
            chk.count('not_accepted:' + tags[0])
            a = res.get('accept')
            if a and a[0] != a[1]:
                chk.count('accepted_by_one_program_only')
                chk.extra.setdefault('accepted_by_one_program_only', []).append('%s: %s' % (name, res['status']))
            continue
        chk.count('schema_files_judged')
        chk.count('schemas_judged', res['nschemas'])
        chk.count('generated_files_compared', res['nfiles'])
        chk.count('duplicate_entries_in_scanner_lists', res.get('duplicates_in_lists', 0))
        chk.count('per_schema_lists_compared_with_unity_files', res.get('per_schema_lists_compared', 0))
        chk.count('files_listed_by_several_schemas', res.get('listed_by_several_schemas', 0))
        if res['nschemas'] > 1:
            chk.count('multi_schema_files_judged')
            chk.count('schema_directories_announced_for_multi_schema_files', res.get('nannounced', 0))
        for t in tags:
            chk.tag('input:' + t)
        for t in res['tags']:
            chk.tag(t)
        pc = res.get('pred_counts', {})
        if pc.get('eh', 0) + pc.get('th', 0) >= 1:
            chk.seen(name)
        if not res['findings'] and 'generated' in tags and len(chk.samples) < 4:
            chk.sample(dict(res['sample'], input_head=text[:600], verdict='scanner lists == files written'))
        for key, what in res['findings']:
            chk.violation(key, '%s: %s' % (name, what), {'input.exp': text if len(text) < 300000 else '(see %s)\n' % name,
                                                        'what.txt': what + '\n'}, dict(schema_file=name, file_name=fname))
    if not chk.samples:
        for (name, text, fname, tags), res in results:
            if res['status'] == 'judged':
                chk.sample(res['sample'])
                break
    return chk.finish(
        rule='schema files: 17 shipped + unit schemas under test/unitary_schemas + seeded generated files from vf/c17_gen.py (renamed enumerations/selects, '
             'aggregates of defined types, defined simple types, colliding identifiers, multi-schema files) + fixed probes + the multi-schema matrix of '
             'vf/c17_multi.py (1/2/3 schemas x name sets x declaration order x file name equal to / upper case of / prefix of / extension of / unrelated to '
             'each schema name, also via data/<dir>/ x independent / importing schemas; fixed, plus 24 random multi-schema files per seed with the file name '
             'relation assigned round-robin) + 144 single-schema files whose select reaches a renamed enumeration/select '
             '(6 shapes x 24 permutations of the type names = generation orders); each accepted file = '
             '1 scanner run + 1 exp2cxx run, lists vs. recursive listing; distinct_nontrivial = distinct accepted schema files for which the scanner '
             'predicted >= 1 entity or type file',
        assumptions=['a file is "accepted" when both programs exit 0 on it (disagreement on acceptance is counted, it belongs to C04)',
                     'the schema feature in a key is derived from the EXPRESS text by a rough declaration classifier (naming only, never decides a verdict)',
                     'the non-unity implementation lists are the ones compared with entity/*.cc and type/*.cc; unity file names are checked for existence',
                     'for multi-schema files "the files the generator creates for that schema" are the entity/ and type/ files exp2cxx records in that '
                     'schema\'s Sdai<S>_unity_{entities,types}.{cc,h} at the moment it creates them; each schema\'s lists are compared with them',
                     'every schema of a file must get a directory, PROJECT (library) name and CMakeLists.txt of its own; HOW the scanner derives the name '
                     '(file, data/ directory or schema name) is not judged'])
