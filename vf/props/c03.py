"""C03 - the reader never reports a schema-violating exchange file as clean; the violation is confined.

For a conforming generated (schema, population) exactly one classified violation is injected at instance k.
Oracle: p21read exits non-zero AND the read severity is worse than USERMSG; every other instance that does not
reference k (and, for unterminated-instance/string faults, is not the textual successor of k) is loaded and its
STEPwrite text denotes the values it has in the file.
"""
LEVEL = 'fault_enumeration'
import copy
import random
from .. import gen_p21, p21fam, ref_p21, run, probes, gen_schema
from ..model import SIMPLE
from ..ref_p21 import Inst

SEV_USERMSG = 2
import os
import re
TEXT_VARIANTS = (os.environ.get('VERIF_DBG_VARIANTS') or 'compact,compact,spaced,lines').split(',')
AVOID_SCHEMA = probes.masked_schema_features('C01') | probes.masked_schema_features('C03')
AVOID_POP = probes.masked_pop_features('C01') | probes.masked_pop_features('C03')


# ------------------------------------------------------------------ attribute kinds
def kind_of(schema, t):
    """Coarse attribute kind used in keys."""
    if t.kind in SIMPLE:
        return t.kind
    if t.kind == 'entity':
        return 'entity'
    if t.kind == 'aggr':
        return 'aggregate'
    td = schema.type(t.name)
    if td.kind == 'enum':
        return 'enum'
    if td.kind == 'select':
        return 'select'
    return kind_of(schema, td.base)


def attr_list(schema, inst, pi):
    kw = inst.parts[pi][0].lower()
    if inst.complex:
        return schema.own_attrs(kw, [p[0].lower() for p in inst.parts])
    return schema.all_attrs(kw)


WRONG = {   # attribute kind -> [(label, replacement value)] : literals of a kind the attribute can never take
    'INTEGER': [('string', ('str', 'x')), ('enum', ('enum', 'RED')), ('aggregate', ('agg', [('int', 1)])), ('real', ('real', 1.5, '1.5'))],
    'REAL': [('string', ('str', 'x')), ('enum', ('enum', 'T')), ('binary', ('bin', '1F')), ('integer', ('int', 2)),
             # digits and an exponent but no decimal point: neither a REAL nor an INTEGER token
             ('exponent without decimal point', ('real', 25.0, '25E0')), ('exponent without decimal point, signed', ('real', -100000.0, '-1E+5'))],
    'NUMBER': [('string', ('str', 'x')), ('enum', ('enum', 'T'))],
    'STRING': [('integer', ('int', 5)), ('real', ('real', 1.5, '1.5')), ('enum', ('enum', 'RED')), ('reference', ('raw', '#REF'))],
    'BINARY': [('integer', ('int', 5)), ('string', ('str', 'x'))],
    'BOOLEAN': [('integer', ('int', 1)), ('string', ('str', 'T')), ('real', ('real', 1.0, '1.'))],
    'LOGICAL': [('integer', ('int', 1)), ('string', ('str', 'U'))],
    'enum': [('integer', ('int', 1)), ('string', ('str', 'red'))],
    'entity': [('integer', ('int', 1)), ('string', ('str', '#1')), ('enum', ('enum', 'T'))],
    'aggregate': [('integer', ('int', 1)), ('string', ('str', '(1)'))],
    'select': [('enum-not-member', ('enum', 'NOSUCHITEM'))],
}


class Mut(object):
    def __init__(self, cls, kind, k, insts, what, exempt=(), raw_edit=None, pos=''):
        self.cls, self.kind, self.k, self.insts, self.what = cls, kind, k, insts, what
        self.exempt = set(exempt)
        self.raw_edit = raw_edit      # function(line_text) -> line_text applied to instance k's rendered line
        self.pos = pos

    def key_shape(self):
        return '%s|%s' % (self.cls, self.kind)


def _replace(insts, k, pi, j, v):
    out = []
    for i in insts:
        if i.id == k:
            i = copy.deepcopy(i)
            i.parts[pi][1][j] = v
        out.append(i)
    return out


def all_mutants(schema, pop, rng, per_class=2):
    """Classified single violations of a conforming population."""
    muts = []
    insts = pop.insts
    ids = [i.id for i in insts]
    member = {}
    for i in insts:
        names = set()
        for kw, _v in i.parts:
            names |= set(schema.ancestors(kw.lower()) + [kw.lower()]) if not i.complex else {kw.lower()}
        member[i.id] = names
    fresh_id = max(ids) + 1000
    order = list(insts)
    rng.shuffle(order)
    order.sort(key=lambda i: i is not insts[-1])   # the last instance of the section first: its faults have their own detection paths
    by_cls = {}

    def add(m):
        lst = by_cls.setdefault(m.key_shape(), [])
        if len(lst) < per_class:
            lst.append(m)
            muts.append(m)

    for inst in order:
        cx = ' in complex part' if inst.complex else ''
        n_parts = len(inst.parts)
        for pi in range(n_parts):
            kw, vals = inst.parts[pi]
            alist = attr_list(schema, inst, pi)
            nvals = len(vals)
            # --- parameter count
            if nvals >= 1:
                i2 = copy.deepcopy(inst)
                i2.parts[pi][1].pop()
                lastk = kind_of(schema, alist[nvals - 1][1].type) if not alist[nvals - 1][2] else 'derived'
                if alist[nvals - 1][1].optional and lastk != 'derived':
                    lastk = 'OPTIONAL'
                if nvals == 1:
                    lastk = 'only attribute ' + lastk
                else:
                    lastk = 'last attribute ' + lastk
                add(Mut('too few parameters', lastk + cx, inst.id, [i2 if x.id == inst.id else x for x in insts],
                        '%s loses its last parameter' % kw))
            i2 = copy.deepcopy(inst)
            i2.parts[pi][1].append(('int', 1))
            add(Mut('too many parameters', 'record' + cx, inst.id, [i2 if x.id == inst.id else x for x in insts], '%s gets an extra parameter' % kw))
            for j, (owner, a, der) in enumerate(alist):
                v = vals[j]
                kd = kind_of(schema, a.type)
                pos = 'first' if j == 0 else ('last' if j == nvals - 1 else 'middle')
                if der:
                    # value where the attribute is derived
                    add(Mut('value on derived attribute', kd + cx, inst.id, _replace(insts, inst.id, pi, j, ('int', 5) if kd == 'INTEGER' else ('str', 'v')),
                            'attribute %d of %s is re-declared DERIVE but given a value' % (j, kw), pos=pos))
                    continue
                # --- * on a non-derived attribute
                add(Mut('* on non-derived attribute', kd + cx, inst.id, _replace(insts, inst.id, pi, j, ('star',)), 'attribute %d of %s' % (j, kw), pos=pos))
                if v == ('null',):
                    continue
                # --- wrong literal kind
                for lab, rep in WRONG.get(kd, []):
                    if rep == ('raw', '#REF'):
                        rep = ('ref', ids[0])
                    add(Mut('wrong literal kind: %s' % lab, kd + cx, inst.id, _replace(insts, inst.id, pi, j, rep), 'attribute %d of %s (%s) given %r' % (j, kw, a.type.text(), rep), pos=pos))
                if kd == 'enum':
                    add(Mut('undeclared enumeration item', kd + cx, inst.id, _replace(insts, inst.id, pi, j, ('enum', 'NOSUCHITEM')), 'attribute %d of %s' % (j, kw), pos=pos))
                    td = schema.underlying(a.type)
                    declared = set(x.upper() for x in td.items)
                    cur = v[1] if v[0] == 'enum' else td.items[0].upper()
                    variants = [('proper prefix of a declared item', cur[:-1]), ('declared item with an extra letter', cur + 'X'),
                                ('declared item with a doubled first letter', cur[:1] + cur), ('suffix of a declared item', cur[1:])]
                    others = [x.upper() for t2 in schema.types if t2.kind == 'enum' and t2 is not td for x in t2.items]
                    if others:
                        variants.append(('item of another enumeration', others[0]))
                    for lab, item in variants:
                        if item and item not in declared and item.replace('_', 'a').isalnum() and not item[0].isdigit():
                            add(Mut('undeclared enumeration item: %s' % lab, kd + cx, inst.id, _replace(insts, inst.id, pi, j, ('enum', item)),
                                    'attribute %d of %s: .%s. (declared: %s)' % (j, kw, item, sorted(declared)), pos=pos))
                if kd in ('BOOLEAN',):
                    add(Mut('undeclared enumeration item', kd + cx, inst.id, _replace(insts, inst.id, pi, j, ('enum', 'U')), '.U. for a BOOLEAN attribute %d of %s' % (j, kw), pos=pos))
                if kd == 'aggregate' and not a.optional:
                    add(Mut('$ for required aggregate', kd + cx, inst.id, _replace(insts, inst.id, pi, j, ('null',)), 'attribute %d of %s (%s)' % (j, kw, a.type.text()), pos=pos))
                if kd == 'entity' and v[0] == 'ref':
                    add(Mut('reference to missing instance', kd + cx, inst.id, _replace(insts, inst.id, pi, j, ('ref', fresh_id)), 'attribute %d of %s -> #%d' % (j, kw, fresh_id), pos=pos))
                    # names no instance can have that are congruent to an existing, type-compatible name modulo 2^32 / 2^64 / 2^31
                    for lab, big in (('2^32 + an existing name', 2 ** 32 + v[1]), ('2^33 + an existing name', 2 ** 33 + v[1]),
                                     ('2^64 + an existing name', 2 ** 64 + v[1]), ('2^31 + an existing name', 2 ** 31 + v[1])):
                        add(Mut('reference to missing instance: name beyond the integer range (%s)' % lab, kd + cx, inst.id,
                                _replace(insts, inst.id, pi, j, ('ref', big)), 'attribute %d of %s -> #%d' % (j, kw, big), pos=pos))
                    bad = [x for x in ids if a.type.name not in member[x] and x != inst.id]
                    # for complex targets member holds the part names only (all of them are listed)
                    bad = [x for x in bad if not any(schema.is_a(n, a.type.name) for n in member[x])]
                    if bad:
                        add(Mut('reference to instance of wrong type', kd + cx, inst.id, _replace(insts, inst.id, pi, j, ('ref', bad[0])),
                                'attribute %d of %s (%s) -> #%d' % (j, kw, a.type.name, bad[0]), pos=pos))
                at = schema.underlying(a.type) if kd == 'aggregate' else None
                if kd == 'aggregate' and v[0] == 'agg' and v[1] and at.elem.kind != 'aggr':
                    # the same classes one level down: every element position (first / middle / last) of an aggregate, by element kind
                    ek = kind_of(schema, at.elem)
                    n_el = len(v[1])
                    for epos, ename in sorted(set([(0, 'first'), (n_el // 2, 'middle'), (n_el - 1, 'last')])):
                        if v[1][epos] == ('null',):
                            continue

                        def at_elem(rep, epos=epos):
                            return _replace(insts, inst.id, pi, j, ('agg', list(v[1][:epos]) + [rep] + list(v[1][epos + 1:])))
                        where = 'element %d (%s of %d) of attribute %d of %s' % (epos, ename, n_el, j, kw)
                        for lab, rep in WRONG.get(ek, []):
                            if rep == ('raw', '#REF'):
                                rep = ('ref', ids[0])
                            if lab == 'aggregate':
                                continue    # an aggregate inside a flat aggregate is a parameter-count matter for some readers: not judged here
                            add(Mut('wrong literal kind: %s' % lab, 'aggregate of %s' % ek + cx, inst.id, at_elem(rep), where + ' given %r' % (rep,), pos=pos))
                        if ek == 'enum':
                            add(Mut('undeclared enumeration item', 'aggregate of enum' + cx, inst.id, at_elem(('enum', 'NOSUCHITEM')), where, pos=pos))
                        if ek == 'entity' and v[1][epos][0] == 'ref':
                            add(Mut('reference to missing instance', 'aggregate of entity' + cx, inst.id, at_elem(('ref', fresh_id)), where, pos=pos))
                            bad = [x for x in ids if at.elem.name not in member[x] and x != inst.id]
                            bad = [x for x in bad if not any(schema.is_a(n, at.elem.name) for n in member[x])]
                            if bad:
                                add(Mut('reference to instance of wrong type', 'aggregate of entity' + cx, inst.id, at_elem(('ref', bad[0])),
                                        where + ' (%s) -> #%d' % (at.elem.name, bad[0]), pos=pos))
                if kd == 'select' and v[0] == 'typed':
                    add(Mut('select keyword outside select list', kd + cx, inst.id, _replace(insts, inst.id, pi, j, ('typed', 'NOSUCHTYPE', v[2])), 'attribute %d of %s' % (j, kw), pos=pos))
        # --- entity keyword faults (simple instances)
        if not inst.complex:
            i2 = copy.deepcopy(inst)
            i2.parts[0] = ('NOSUCHENTITY', i2.parts[0][1])
            add(Mut('unknown entity keyword', 'simple instance', inst.id, [i2 if x.id == inst.id else x for x in insts], inst.parts[0][0]))
            # an ABSTRACT ancestor with the same parameter list shape is not available in general: use own ancestors
            for anc in schema.ancestors(inst.parts[0][0].lower()):
                if schema.entity(anc).abstract:
                    n = len(schema.all_attrs(anc))
                    i3 = copy.deepcopy(inst)
                    i3.parts[0] = (anc.upper(), [('null',) if a.optional else gen_min_value(schema, a.type, ids, member) for (_o, a, d) in schema.all_attrs(anc)])
                    if all(x is not None for x in i3.parts[0][1]):
                        # an abstract entity that is itself a subtype is declared by a different grammar production than an abstract root
                        add(Mut('abstract entity keyword' + (' (abstract entity that is itself a subtype)' if schema.entity(anc).supers else ''),
                                'simple instance', inst.id, [i3 if x.id == inst.id else x for x in insts], anc))
            # duplicate id: a second instance (copy) bearing the same id right after
            dup = copy.deepcopy(inst)
            pos_i = ids.index(inst.id)
            add(Mut('duplicate instance id', 'simple instance', inst.id, insts[:pos_i + 1] + [dup] + insts[pos_i + 1:], '#%d twice' % inst.id))
        # --- unterminated instance / string (raw text edits)
        nxt = ids[ids.index(inst.id) + 1] if ids.index(inst.id) + 1 < len(ids) else None
        where = ', last of the section' if nxt is None else ''
        add(Mut('missing ; (unterminated instance)', ('complex instance' if inst.complex else 'simple instance') + where, inst.id, insts, '#%d' % inst.id,
                exempt=[nxt] if nxt else [], raw_edit=lambda line: line.rstrip()[:-1] if line.rstrip().endswith(';') else line))
        has_str = any(v[0] == 'str' for _kw, vals in inst.parts for v in vals)
        if has_str:
            def drop_quote(line):
                # remove the closing apostrophe of the first string literal
                import re
                m = re.search(r"'(?:[^']|'')*'", line)
                return line[:m.end() - 1] + line[m.end():] if m else line
            add(Mut('unterminated string', 'complex instance' if inst.complex else 'simple instance', inst.id, insts, '#%d' % inst.id,
                    exempt=[x for x in ids if x != inst.id], raw_edit=drop_quote))
    return muts


def gen_min_value(schema, t, ids, member):
    k = kind_of(schema, t)
    if k == 'INTEGER':
        return ('int', 0)
    if k in ('REAL', 'NUMBER'):
        return ('real', 0.0, '0.')
    if k == 'STRING':
        return ('str', '')
    if k == 'BINARY':
        return ('bin', '0')
    if k in ('BOOLEAN', 'LOGICAL'):
        return ('enum', 'T')
    if k == 'enum':
        td = schema.underlying(t)
        return ('enum', td.items[0].upper())
    if k == 'entity':
        for i in ids:
            if any(schema.is_a(n, t.name) for n in member[i]):
                return ('ref', i)
        return None
    return None   # aggregates/selects: give up (mutant not generated)


# ------------------------------------------------------------------ rendering with one raw-edited instance
def render_mut(pop, m, variant, rng):
    p2 = gen_p21.Population(pop.schema, m.insts, pop.header)
    if not m.raw_edit:
        return gen_p21.render(p2, variant, rng)
    lines = []
    for inst in m.insts:
        line = gen_p21.join_tokens(gen_p21.inst_tokens(inst), variant if variant in ('compact', 'spaced', 'lines') else 'compact', rng)
        if inst.id == m.k:
            line = m.raw_edit(line)
        lines.append(line)
    empty = gen_p21.render(gen_p21.Population(pop.schema, [], pop.header), 'compact', rng)
    head, tail = empty.split('DATA;\n')
    return head + 'DATA;\n' + '\n'.join(lines) + '\n' + tail


# ------------------------------------------------------------------ judging
def baseline_ok_ids(chk, lib, pop):
    """Instances of the UNMUTATED population that the reader loads with exactly the model's values.
    Confinement is judged on these only (anything else is C01's business, not a consequence of the violation)."""
    text = gen_p21.render(pop, 'compact')
    with p21fam.Scratch('c03b') as sc:
        inp = sc.write('in.p21', text)
        rm = p21fam.mon(lib, ['read', inp, 'dump', sc.path('dump.txt')], sc.d)
        if rm.crashed():
            return None
        ops = p21fam.mon_ops(rm.out)
        if not ops or ops[0][1].get('sev', -9) < SEV_USERMSG:
            return None
        n, hdr, dump = p21fam.parse_dump(sc.read('dump.txt'))
        ok = set()
        bym = pop.by_id()
        for (iid, st, name, idx, sfid, txt) in dump:
            try:
                gi = p21fam.parse_inst_text(txt)
            except ref_p21.P21Error:
                continue
            if iid in bym and ref_p21.canon_inst(_numnorm(lib.schema, gi)) == ref_p21.canon_inst(_numnorm(lib.schema, bym[iid])):
                ok.add(iid)
        return ok


def judge(chk, lib, pop, m, text, ok_ids=None):
    """-> list of (key, what, files)"""
    found = []
    files = {'schema.exp': lib.schema.text(), 'in.p21': text}
    with p21fam.Scratch('c03') as sc:
        inp = sc.write('in.p21', text)
        r1 = p21fam.p21read(lib, inp, sc.path('out.p21'))
        chk.ev()
        if r1.crashed() or r1.timed_out:
            fr = run.san_frames(r1.err, 1)
            # a sanitizer report names the defect by symptom + library function (as in C05): faulted input reaches one defect by many routes
            key = 'crash|%s|in %s' % (r1.symptom(), fr[0].split(' ')[0]) if (r1.san and fr) else 'crash|%s|%s' % (m.key_shape(), r1.symptom())
            return [(key, 'p21read %s %s; %s [%s]' % (r1.symptom(), run.san_frames(r1.err), m.what, m.key_shape()), dict(files, stderr=r1.err[-5000:]))]
        rm = p21fam.mon(lib, ['read', inp, 'dump', sc.path('dump.txt')], sc.d)
        if rm.crashed():
            return [('crash|%s|%s' % (m.key_shape(), rm.symptom()), 'p21mon %s; %s' % (rm.symptom(), m.what), dict(files, stderr=rm.err[-5000:]))]
        ops = p21fam.mon_ops(rm.out)
        sev = ops[0][1].get('sev') if ops else None
        accepted_exit = (r1.rc == 0)
        accepted_sev = (sev is None or sev >= SEV_USERMSG)
        if accepted_exit or accepted_sev:
            in_cx = 'in complex part' in m.kind or (m.cls == 'unterminated string' and m.kind.startswith('complex instance'))
            # open finding: STEPcomplex::STEPread drops the severities of its parts (repairing it makes shipped ap214e3 test files fail),
            # so EVERY violation inside a part is reported clean - one root cause, one key
            found.append(('accepted|%s|%s' % ('any violation inside a part of a complex instance' if in_cx else m.key_shape(),
                                              'reported clean' if (accepted_exit and accepted_sev) else
                                              ('exit 0 but severity worse than USERMSG' if accepted_exit else 'exit non-zero but severity >= USERMSG')),
                          '%s (%s position): reader reports the file as clean (p21read exit %s, severity %s)' % (m.what, m.pos, r1.rc, sev), files))
        # confinement
        n, hdr, dump = p21fam.parse_dump(sc.read('dump.txt'))
        got = {}
        for (iid, st, name, idx, sfid, txt) in dump:
            try:
                got.setdefault(iid, []).append(p21fam.parse_inst_text(txt))
            except ref_p21.P21Error:
                got.setdefault(iid, []).append(None)
        refs_k = set()
        tainted = {m.k} | set(m.exempt)
        for i in m.insts:
            if tainted & set(ref_p21.inst_refs(i)):
                refs_k.add(i.id)   # may legitimately end up incomplete: what it references is (allowed to be) missing
        # transitive: an instance referencing an instance that was dropped may legitimately be incomplete too
        lost, unread, changed = [], [], []
        order = [i.id for i in m.insts]
        for i in pop.insts:
            if i.id == m.k or i.id in refs_k or i.id in m.exempt or (ok_ids is not None and i.id not in ok_ids):
                continue
            g = got.get(i.id)
            if not g:
                lost.append(i.id)
                continue
            gi = g[0]
            if gi is None or ref_p21.canon_inst(_numnorm(lib.schema, gi)) != ref_p21.canon_inst(_numnorm(lib.schema, i)):
                if gi is not None and all(v == ('null',) for _kw, vals in gi.parts for v in vals) and any(vals for _kw, vals in gi.parts):
                    unread.append(i.id)
                else:
                    changed.append(i.id)

        def relation(ids):
            kpos = max(ix for ix, x in enumerate(order) if x == m.k)
            succ = order[kpos + 1] if kpos + 1 < len(order) else None
            if ids == [succ]:
                return 'textual successor only'
            if all(order.index(x) > kpos for x in ids):
                return 'later instances'
            return 'instances before it'
        for ids, sym in ((lost, 'not loaded'), (unread, 'left unread (all attributes unset)'), (changed, 'loaded with different values')):
            if ids:
                found.append(('confinement|%s' % m.key_shape(),
                              '%s: conforming instances %s (%s; not referencing #%d) are %s' % (m.what, ids[:6], relation(ids), m.k, sym),
                              dict(files, dump=sc.read('dump.txt') or '')))
    return found


def _numnorm(schema, inst):
    """NUMBER attributes: compare 7 and 7. as equal (see C01)."""
    i2 = copy.deepcopy(inst)
    for pi, (kw, vals) in enumerate(i2.parts):
        try:
            alist = attr_list(schema, i2, pi)
        except KeyError:
            continue
        for j, v in enumerate(vals):
            if j < len(alist) and 'NUMBER' in alist[j][1].type.shape(schema):
                vals[j] = ref_p21.number_norm(v)
    return i2


def _no_semicolon_strings_in_complex(pop):
    """Open finding (fixed probe: second complex instance of the matrix): strings containing `;` inside COMPLEX instances are kept
    out of the seeded populations, where any violation class in such an instance would surface it under its own key."""
    def fix(v):
        if v[0] == 'str' and re.search(r'#\d+\s*=', v[1]):
            return ('str', 'a')
        if v[0] == 'agg':
            return ('agg', [fix(x) for x in v[1]])
        if v[0] == 'typed':
            return ('typed', v[1], fix(v[2]))
        return v
    for i in pop.insts:
        if i.complex:
            i.parts = [(kw, [fix(v) for v in vals]) for kw, vals in i.parts]


def matrix_schema():
    """Fixed schema for the deterministic violation matrix: one entity per (attribute kind, required/optional) as LAST attribute,
    plus a three-part complex family; every violation class is injected at every instance on every run."""
    from .. import model as M
    types = [M.TypeDef('label', 'simple', base=M.STR()), M.TypeDef('len', 'simple', base=M.REAL()),
             M.TypeDef('colour', 'enum', items=['red', 'green', 'blue']),
             M.TypeDef('sel1', 'select', members=['label', 'len', 'colour'])]
    kinds = [('int', M.INT()), ('real', M.REAL()), ('num', M.T('NUMBER')), ('str', M.STR()), ('bin', M.T('BINARY')), ('bool', M.T('BOOLEAN')),
             ('logi', M.T('LOGICAL')), ('enum', M.NAMED('colour')), ('ent', M.ENT('tgt')), ('agg', M.AGG('LIST', M.INT(), 0, None)),
             ('aopt', M.AGG('ARRAY', M.INT(), 1, 2, optional=True)),   # ARRAY OF OPTIONAL: the ELEMENTS are optional, the attribute is not
             ('agr', M.AGG('LIST', M.REAL(), 1, None)), ('ags', M.AGG('SET', M.STR(), 1, None)), ('agb', M.AGG('BAG', M.T('BOOLEAN'), 1, None)),
             ('agn', M.AGG('LIST', M.NAMED('colour'), 1, None)), ('age', M.AGG('SET', M.ENT('tgt'), 1, None)), ('aga', M.AGG('ARRAY', M.REAL(), 1, 3)),
             ('sel', M.NAMED('sel1'))]
    ents = [M.Entity('tgt', attrs=[M.Attr('n', M.INT())])]
    for nm, t in kinds:
        ents.append(M.Entity('r_' + nm, attrs=[M.Attr('a_' + nm, M.INT()), M.Attr('z_' + nm, t)]))
        ents.append(M.Entity('o_' + nm, attrs=[M.Attr('b_' + nm, M.INT()), M.Attr('y_' + nm, t, True)]))
        if nm not in ('ent', 'age'):
            ents.append(M.Entity('s_' + nm, attrs=[M.Attr('x_' + nm, t)]))          # single required attribute: E() is "too few"
            ents.append(M.Entity('so_' + nm, attrs=[M.Attr('w_' + nm, t, True)]))
    ents += [M.Entity('cx', sexpr=('andor', ('andor', ('leaf', 'cx1'), ('leaf', 'cx2')), ('leaf', 'cx3')), attrs=[M.Attr('c0', M.INT())]),
             M.Entity('cx1', supers=['cx'], attrs=[M.Attr('c1', M.REAL()), M.Attr('c1s', M.STR())]),
             M.Entity('cx2', supers=['cx'], attrs=[M.Attr('c2', M.NAMED('colour')), M.Attr('c2o', M.INT(), True)]),
             M.Entity('cx3', supers=['cx'], attrs=[M.Attr('c3', M.NAMED('sel1')), M.Attr('c3b', M.T('BOOLEAN'))])]
    # abstract root, abstract subtype (with and without a SUPERTYPE OF expression), concrete leaves
    ents += [M.Entity('ab0', abstract=True, attrs=[M.Attr('p0', M.INT())]),
             M.Entity('ab1', supers=['ab0'], abstract=True, attrs=[M.Attr('p1', M.INT())]),
             M.Entity('ab2', supers=['ab1'], attrs=[M.Attr('p2', M.INT())]),
             M.Entity('ab3', supers=['ab0'], abstract=True, sexpr=('oneof', [('leaf', 'ab4'), ('leaf', 'ab5')]), attrs=[M.Attr('p3', M.STR())]),
             M.Entity('ab4', supers=['ab3'], attrs=[M.Attr('p4', M.INT())]),
             M.Entity('ab5', supers=['ab3'], attrs=[M.Attr('p5', M.INT())])]
    # several attributes declared in one clause: each name carries the clause's OPTIONAL and type
    mo = M.Entity('mo', attrs=[M.Attr('m1', M.REAL(), True), M.Attr('m2', M.REAL(), True), M.Attr('m3', M.REAL(), True),
                               M.Attr('m4', M.INT()), M.Attr('m5', M.INT()), M.Attr('m6', M.STR(), True), M.Attr('m7', M.STR(), True)])
    mo.merge_decls = True
    ents.append(mo)
    return M.Schema('c03_matrix', types, ents)


def matrix_cases(chk):
    s = matrix_schema()
    lib = p21fam.build_libs([s])[0]
    if lib.fail is not None:
        chk.inconc('matrix schema library could not be built: %s' % str(lib.fail)[:300])
        return []
    rng = random.Random('c03-matrix')
    pg = gen_p21.PopGen(s, rng, avoid=AVOID_POP | {'complex', 'array_optional_null'}, strs=['', 'a', "it''s", 'p; q', "x;'';y", 'ENDSEC;'])
    pop = pg.population(n_extra=0, with_complex=False)
    # fill OPTIONAL last attributes with values too (so that every class applies) and add one complex instance
    insts = []
    for i in pop.insts:
        i = copy.deepcopy(i)
        kw = i.parts[0][0].lower()
        for j, (o, a, d) in enumerate(s.all_attrs(kw)):
            if i.parts[0][1][j] == ('null',):
                i.parts[0][1][j] = pg.value(a.type, i.id)
        insts.append(i)
    # one simple instance carries a string that looks like the start of an instance (open finding: the resynchronisation after a
    # violation takes such text for the next record); every class is injected into it like into the others
    for i in insts:
        if i.parts[0][0] == 'R_STR':
            i.parts[0][1][1] = ('str', '#5=Z(1);')
        if i.parts[0][0] == 'R_SEL':
            i.parts[0][1][1] = ('typed', 'LABEL', ('str', '#5=Z(1);'))
    nid = max(i.id for i in insts) + 1
    insts.append(Inst(nid, [('CX', [('int', 1)]), ('CX1', [('real', 1.5, '1.5'), ('str', 's')]), ('CX2', [('enum', 'RED'), ('int', 4)]),
                            ('CX3', [('typed', 'LABEL', ('str', 'q')), ('enum', 'T')])], True))
    insts.append(Inst(nid + 1, [('TGT', [('int', 9)])]))
    # a second complex instance whose strings contain `;` (open finding: after a violation in a part of a complex instance the
    # reader looks for the end of the record without regard to strings) - mutated by every class like the first one
    insts.append(Inst(nid + 2, [('CX', [('int', 2)]), ('CX1', [('real', 2.5, '2.5'), ('str', '#5=Z(1);')]), ('CX2', [('enum', 'GREEN'), ('int', 5)]),
                                ('CX3', [('typed', 'LABEL', ('str', "x;'';y")), ('enum', 'F')])], True))
    insts.append(Inst(nid + 3, [('TGT', [('int', 10)])]))
    pop = gen_p21.Population(s, insts)
    ok_ids = baseline_ok_ids(chk, lib, pop)
    if ok_ids is None:
        chk.inconc('matrix population is not read cleanly on this tree')
        return []
    out = []
    for m in all_mutants(s, pop, random.Random('c03-matrix-m'), per_class=1000):
        out.append((lib, pop, m, render_mut(pop, m, 'compact', random.Random(1)), ok_ids))
    chk.count('matrix_cases', len(out))
    return out


def main(chk):
    quick = chk.tier == 'quick'
    n_schemas, n_pops, per_class = (8, 2, 2) if quick else (80, 4, 3)
    schemas = p21fam.std_corpus(chk.seed, n_schemas, AVOID_SCHEMA)
    libs = p21fam.report_build_failures(chk, p21fam.build_libs(schemas))
    cases = []
    for li, lib in enumerate(libs):
        for pi in range(n_pops):
            rng = random.Random('c03/%d/%s/%d' % (chk.seed, lib.schema.name, pi))
            pg = gen_p21.PopGen(lib.schema, rng, avoid=AVOID_POP, strs=['', 'a', 'hello world', "it''s", 'x\\\\y', 'p; q', "x;'';y"])
            pop = pg.population(n_extra=rng.randint(1, 4), sparse=pi % 2 == 1, shuffle=False, with_complex=True)
            if not os.environ.get('VERIF_C03_UNMASK'):
                _no_semicolon_strings_in_complex(pop)
            if 'unfillable' in pop.tags:
                continue
            ok_ids = baseline_ok_ids(chk, lib, pop)
            if ok_ids is None:
                chk.count('populations_skipped_baseline_not_clean')
                continue
            chk.count('baseline_instances_not_value_equal', len(pop.insts) - len(ok_ids))
            for m in all_mutants(lib.schema, pop, rng, per_class):
                variant = rng.choice(TEXT_VARIANTS) if not m.raw_edit else 'compact'
                text = render_mut(pop, m, variant, random.Random('c03r/%d/%d/%d' % (chk.seed, li, pi)))
                cases.append((lib, pop, m, text, ok_ids))

    cases = matrix_cases(chk) + cases

    def work(c):
        lib, pop, m, text, ok_ids = c
        return c, judge(chk, lib, pop, m, text, ok_ids)
    for (lib, pop, m, text, ok_ids), found in run.pmap(work, cases):
        chk.seen(m.cls, m.kind, m.pos)
        chk.tag('class:' + m.cls)
        for key, what, files in found:
            chk.violation(key, what, files, dict(schema=lib.schema.name, mutation=m.cls, kind=m.kind, instance=m.k))
        if not found and len(chk.samples) < 4:
            chk.sample(dict(schema=lib.schema.name, violation=m.cls, attr_kind=m.kind, what=m.what, verdict='rejected (exit != 0, severity < USERMSG), neighbours intact',
                            mutated_line=[l for l in text.splitlines() if l.startswith('#%d' % m.k)][:1]))
    return chk.finish(
        rule='conforming generated populations altered by ONE classified violation (vf/props/c03.py all_mutants); distinct_nontrivial = distinct '
             '(violation class, attribute kind [+complex part], position class); each case: p21read exit status + p21mon severity + per-instance dump',
        assumptions=['reference parser/generators correct', 'masks inherited from C01 (open findings there would otherwise make the base population fail)',
                     'for unterminated instance/string the textual successor(s) of the broken instance are exempt from the confinement clause'])
