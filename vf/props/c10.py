"""C10 - the lazy loader sees the same file as the eager reader.  (C11 re-uses the runner with --inverse.)

lazymon prints the eager reader's view and the lazy loader's index, forward/reverse tables, dependency sets and the
STEPwrite text of loadInstance(id) in a given order.  Oracle: DESIGN.md C10.
"""
import random
from .. import gen_p21, p21fam, ref_p21, run, probes

AVOID_SCHEMA = probes.masked_schema_features('C01') | probes.masked_schema_features('C10')
AVOID_POP = probes.masked_pop_features('C01') | probes.masked_pop_features('C10')
HARN = ['lazymon.cc']
# strings the eager reader accepts and that are hard for a text scanner: '#', '(', ';' and the ISO 8859 directive followed by an
# apostrophe (`\\S\\'` is ONE escaped character for the library's string reader, not the end of the string)
LAZY_STRS = gen_p21.STRS + ["q\\S\\'r", "see #1 \\S\\' and (#2); \\S\\' done", "\\S\\'"]
import os
VARIANTS = [v for v in (os.environ.get('VERIF_DBG_VARIANTS') or 'compact,spaced,cmt_between,lines,zero_ids,cmt_structural,cmt_before_top').split(',') if v not in probes.masked_variants('C10')]


def unhex(h):
    return '' if h == '-' else bytes.fromhex(h).decode('latin-1')


def parse_out(out):
    o = dict(eager=[], K={}, F={}, R={}, D={}, L=[], V=[], lazy_total=None, done=False, began=[])
    for line in out.splitlines():
        f = line.split(' ')
        t = f[0]
        if t == 'EAGER':
            o['eager_n'] = int(f[1])
            o['eager_sev'] = int(f[2].split('=')[1])
        elif t == 'E':
            o['eager'].append((int(f[1]), f[2], unhex(f[3])))
        elif t == 'LAZY':
            o['lazy_total'] = int(f[1])
        elif t == 'K':
            o['K'][f[1]] = [int(x) for x in f[2:]]
        elif t in ('F', 'R', 'D'):
            o[t][int(f[1])] = [int(x) for x in f[2:]]
        elif t == 'B':
            o['began'].append(int(f[2]))
        elif t == 'L':
            o['L'].append((int(f[1]), int(f[2]), f[3], unhex(f[4]) if f[4] != 'FAIL' else None))
        elif t == 'V':
            o['V'].append((int(f[1]), f[2], f[3], f[4:]))
        elif t == 'DONE':
            o['done'] = True
    return o


def closure(fwd, i):
    seen, todo = set(), list(fwd.get(i, ()))
    while todo:
        x = todo.pop()
        if x in seen:
            continue
        seen.add(x)
        todo.extend(fwd.get(x, ()))
    return seen


def load_orders(ids, rng, n_random=2):
    orders = [list(ids), list(reversed(ids))]
    for _ in range(n_random):
        o = list(ids) * 2
        rng.shuffle(o)
        orders.append(o)
    return orders


def run_lazy(lib, text, order, inverse=False, sc_prefix='c10'):
    with p21fam.Scratch(sc_prefix) as sc:
        inp = sc.write('in.p21', text)
        cmd = [lib.exe('lazymon'), inp, '--order', ','.join(map(str, order))] + (['--inverse'] if inverse else [])
        return run.run(cmd, cwd=sc.d, env=lib.env, timeout=120)


def judge(chk, lib, pop, text, order, variant):
    vt = '' if variant in ('compact', 'spaced', 'lines') else '|text:' + variant
    files = {'schema.exp': lib.schema.text(), 'in.p21': text, 'order.txt': ','.join(map(str, order))}
    r = run_lazy(lib, text, order)
    chk.ev()
    if r.crashed() or r.timed_out:
        o = parse_out(r.out)
        stage = 'loadInstance' if o['began'] else ('index/tables' if o['lazy_total'] is not None else ('openFile' if 'eager_n' in o else 'eager read'))
        return [('crash|%s%s|%s' % (stage, vt, r.symptom()), '%s %s' % (r.symptom(), run.san_frames(r.err)), dict(files, stderr=r.err[-5000:], stdout=r.out[-3000:]))]
    o = parse_out(r.out)
    found = []
    files['lazymon.txt'] = r.out[-20000:]
    if not o['done']:
        return [('harness|lazymon did not finish (exit %s)' % r.rc, r.err[-500:], files)]
    model_ids = [i.id for i in pop.insts]
    eager_ids = [e[0] for e in o['eager']]
    if eager_ids != model_ids or o.get('eager_sev', 0) < 2:
        chk.count('eager_baseline_not_clean')
        return []    # C01's business; the lazy loader is judged against a clean eager read only
    # ---- index
    lazy_ids = sorted(set(x for v in o['K'].values() for x in v))
    if o['lazy_total'] != len(model_ids):
        found.append(('index|count%s|totalInstanceCount differs from the eager reader' % vt, 'lazy %s eager %d' % (o['lazy_total'], len(model_ids)), files))
    if lazy_ids != sorted(model_ids):
        miss = sorted(set(model_ids) - set(lazy_ids))
        extra = sorted(set(lazy_ids) - set(model_ids))
        byid = pop.by_id()
        shp = 'complex' if any(byid[m].complex for m in miss if m in byid) else 'simple'
        found.append(('index|ids%s|%s' % (vt, 'instance missing from the type index (%s)' % shp if miss else 'extra id in the type index'), 'missing %s extra %s' % (miss[:6], extra[:6]), files))
    kw_model = {}
    for i in pop.insts:
        kw_model.setdefault('-' if i.complex else i.parts[0][0], []).append(i.id)
    for kw, idl in kw_model.items():
        if sorted(o['K'].get(kw, [])) != sorted(idl):
            found.append(('index|keyword%s|getInstances(keyword) differs' % vt, '%s: lazy %s model %s' % (kw, sorted(o['K'].get(kw, []))[:8], sorted(idl)[:8]), files))
            break
    # ---- forward / reverse / dependencies
    fwd_model = {i.id: set(ref_p21.inst_refs(i)) for i in pop.insts}
    rev_model = {}
    for a, bs in fwd_model.items():
        for b in bs:
            rev_model.setdefault(b, set()).add(a)
    for i in model_ids:
        if set(o['F'].get(i, [])) != fwd_model[i]:
            found.append(('fwd%s|forward references differ (%s)' % (vt, 'extra' if set(o['F'].get(i, [])) - fwd_model[i] else 'missing'),
                          '#%d lazy %s model %s' % (i, sorted(set(o['F'].get(i, []))), sorted(fwd_model[i])), files))
            break
    for i in model_ids:
        if set(o['R'].get(i, [])) != rev_model.get(i, set()):
            found.append(('rev%s|reverse table is not the transpose of the forward table' % vt, '#%d lazy %s model %s' % (i, sorted(set(o['R'].get(i, []))), sorted(rev_model.get(i, set()))), files))
            break
    fwd_closed = {k: list(v) for k, v in fwd_model.items()}
    for i in model_ids:
        want = closure(fwd_closed, i) - {i}
        got = set(o['D'].get(i, [])) - {i}
        if want != got:
            found.append(('deps%s|instanceDependencies is not the transitive closure (%s)' % (vt, 'extra' if got - want else 'missing'), '#%d lazy %s model %s' % (i, sorted(got), sorted(want)), files))
            break
    # ---- loading
    eager_txt = {e[0]: e[2] for e in o['eager']}
    for (seq, iid, same, txt) in o['L']:
        if txt is None:
            found.append(('load%s|loadInstance failed (%s)' % (vt, 'complex' if pop.by_id()[iid].complex else 'simple'), '#%d at position %d of the order' % (iid, seq), files))
            break
        if same == '0':
            found.append(('load%s|repeated loadInstance returned a different object' % vt, '#%d' % iid, files))
            break
        if txt != eager_txt.get(iid):
            inst = pop.by_id()[iid]
            try:
                gi = p21fam.parse_inst_text(txt)
                shp = 'instance'
                for pi, ((kw, wv), (_k, gv)) in enumerate(zip(sorted(inst.parts) if inst.complex else inst.parts, sorted(gi.parts) if gi.complex else gi.parts)):
                    for j, (a, b) in enumerate(zip(wv, gv)):
                        if ref_p21.canon_value(ref_p21.number_norm(a)) != ref_p21.canon_value(ref_p21.number_norm(b)):
                            pidx = [x[0] for x in inst.parts].index(kw)
                            shp = p21fam.attr_shape(lib.schema, inst, pidx, j)
                            break
                    if shp != 'instance':
                        break
            except (ref_p21.P21Error, ValueError, IndexError):
                shp = 'unparsable'
            found.append(('load%s|%s|lazily loaded instance serialises differently from the eager one' % (vt, shp),
                          '#%d (load %d of order): lazy %r eager %r' % (iid, seq, txt[:300], (eager_txt.get(iid) or '')[:300]), files))
            break
    return found


def cover(chk, lib, pop, variant):
    for i in pop.insts:
        nrefs = len(set(ref_p21.inst_refs(i)))
        chk.seen(lib.schema.name, '+'.join(sorted(k for k, _v in i.parts)), min(nrefs, 3))
    if any(i.id in ref_p21.inst_refs(i) for i in pop.insts):
        chk.tag('self reference')
    chk.tag('variant:' + variant)


def main(chk):
    quick = chk.tier == 'quick'
    n_schemas, n_pops = (10, 14) if quick else (120, 21)
    schemas = p21fam.std_corpus(chk.seed, n_schemas, AVOID_SCHEMA)
    libs = p21fam.report_build_failures(chk, p21fam.build_libs(schemas, harnesses=HARN, lazy=True))
    cases = []
    for li, lib in enumerate(libs):
        for pi in range(n_pops):
            rng = random.Random('c10/%d/%s/%d' % (chk.seed, lib.schema.name, pi))
            pg = gen_p21.PopGen(lib.schema, rng, avoid=AVOID_POP, strs=LAZY_STRS)
            pop = pg.population(n_extra=rng.randint(1, 6), sparse=pi % 2 == 1, shuffle=pi % 3 == 2, with_complex=True)
            if 'unfillable' in pop.tags:
                continue
            ids = [i.id for i in pop.insts]
            variant = VARIANTS[pi % len(VARIANTS)]
            text = gen_p21.render(pop, variant, rng)
            for order in load_orders(ids, rng, 4 if quick else 6):
                cases.append((lib, pop, text, order, variant))

    def work(c):
        return c, judge(chk, *c)
    for (lib, pop, text, order, variant), found in run.pmap(work, cases):
        cover(chk, lib, pop, variant)
        for key, what, files in found:
            chk.violation(key, what, files, dict(schema=lib.schema.name, variant=variant))
        if not found and len(chk.samples) < 3:
            chk.sample(dict(schema=lib.schema.name, variant=variant, ids=[i.id for i in pop.insts][:12], order=order[:12],
                            verdict='index, fwd/rev tables, dependency closure and every loaded instance equal the eager reader'))
    run_lazy_probes(chk, 'C10')
    return chk.finish(
        rule='seeded conforming populations (reference cycles, complex instances, comments and strings containing # ( ; ) in text variants; each loaded in forward, reverse '
             'and shuffled double orders; distinct_nontrivial = distinct (schema, entity keyword(s) of the instance, number of distinct references capped at 3) among the instances indexed and loaded',
        assumptions=['cases where the eager read is not clean are skipped (C01 judges those)', 'masks inherited from C01',
                     'dependency set compared without the instance itself (reflexive-free)'])


def run_lazy_probes(chk, prop):
    ps = [p.prepare() for p in probes.PROBES.get(prop, [])]
    if not ps:
        return
    libs = p21fam.build_libs([p.schema for p in ps], harnesses=HARN, lazy=True)
    for p, lib in zip(ps, libs):
        chk.count('probes_run')
        if lib.fail is not None:
            chk.violation('probe|%s|schema library could not be built' % p.name, str(lib.fail)[:600], {'schema.exp': p.schema.text()})
            continue
        pop = p.population()
        ids = [i.id for i in pop.insts]
        for key, what, files in judge(chk, lib, pop, p.p21, ids + ids, p.variant):
            chk.violation(key + '|probe:' + p.name, what, files, dict(probe=p.name))
