"""C02 - generated C++ dictionary and classes mirror the EXPRESS schema exactly.

Per schema (model = vf/model.py Schema, text = schema.text()):
  1. exp2cxx on the text, compile the emitted code into a library (the "compiles" clause: observed),
  2. harness/regdump.cc linked against it prints the run-time dictionary and the attribute list of a fresh instance
     of every entity; vf/c02_model.py compares that with the model (sets, ordered lists, flags, types, bounds),
  3. a per-schema driver acc_<S>.cc (vf/c02_acc.py, generated from the model and the emitted entity headers) stores a
     sample value through every mutator of an explicit non-derived attribute and reads it back through the accessor(s).
Workload: the shared seeded corpus (vf/gen_schema.py, same schemas as C01 looks at) + C02's own naming / inheritance /
type-zoo schemas (vf/c02_extras.py) + deterministic probes of open findings (vf/c02_probes.py).
     Every schema's names are also asked for the way an application / the Part 21 reader does (vf/c02_naming.py:
     FindSchema / FindType / FindEntity / ObjCreate with the declared name, one Part 21 instance per entity keyword).
Aggregate bounds of every kind (literal, ?, CONSTANT, arithmetic, function call, attribute of the instance) in both
positions for every aggregate kind: vf/c02_bounds.py (bound kinds / values / expression texts of the dictionary, and
Bound1Runtime / Bound2Runtime for instances created through the registry with several value tuples).
Workload additions: identifier-shape matrix (vf/c02_naming.py) and the optional / unique / derived / inverse flag matrix
of attribute descriptors (vf/c02_flags.py; UNIQUE rules also in the re-declaration matrices of vf/c02_redecl.py).
"""
import hashlib
import os
import re
from concurrent.futures import ThreadPoolExecutor
from .. import build, run, gen_schema, probes, p21fam
from .. import c02_model, c02_acc, c02_extras, c02_naming, c02_flags
from .. import c02_probes   # noqa: F401  (registers the probes and their masks)
from .. import c02_redecl   # (registers the explicit re-declaration matrix probe)
from .. import c02_bounds   # aggregate-bound matrix (CONSTANT / function / attribute-dependent bounds) + its two probes

FLAVOUR = 'san'
AVOID_SCHEMA = probes.masked_schema_features('C02')


class Case(object):
    def __init__(self, schema, origin, probe=None):
        self.schema, self.origin, self.probe = schema, origin, probe
        self.text = schema.text()
        self.dir = None
        self.fail = None
        self.plan = None
        self.acc_path = None
        self.acc_fail = None
        self.headers = None


def compile_error_class(log):
    """Seed-independent description of the first compiler error (identifiers replaced by their role)."""
    m = re.search(r'error: ([^\n]*)', log or '')
    if not m:
        return 'compile error'
    e = m.group(1)
    e = re.sub(r'; did you mean.*$', '', e)
    e = re.sub(r'[‘\'`]([^’\']*)[’\']', lambda q: '<%s>' % name_role(q.group(1)), e)
    e = re.sub(r'\d+', 'N', e)
    return e.strip()[:100]


def name_role(n):
    if re.match(r'^Sdai\w+_var$', n):
        return 'enumeration class'
    if re.match(r'^Sdai\w+_(ptr|ptr_c|agg|agg_ptr)$', n):
        return 'pointer/aggregate typedef'
    if re.match(r'^Sdai\w+$', n):
        return 'generated class'
    if re.match(r'^\w+::\w+$', n):
        return 'qualified name'
    return 'identifier' if re.match(r'^\w+$', n) else 'expression'


class Rec(object):
    """Per-case recorder: judge() runs in worker threads, the Check object is only touched from the main thread."""

    def __init__(self):
        self.calls = []

    def ev(self, n=1):
        self.calls.append(('ev', (n,)))

    def seen(self, *t):
        self.calls.append(('seen', t))

    def tag(self, t, n=1):
        self.calls.append(('tag', (t, n)))

    def count(self, name, n=1):
        self.calls.append(('count', (name, n)))

    def inconc(self, reason):
        self.calls.append(('inconc', (reason,)))

    def replay(self, chk):
        for m, a in self.calls:
            getattr(chk, m)(*a)


def prepare(case):
    """Emit headers, plan the accessor driver, build library + harnesses."""
    s = case.schema
    hdr = c02_acc.emit_headers(case.text, FLAVOUR)
    case.headers = hdr
    harn = ['regdump.cc']
    if hdr is not None:
        classes = c02_acc.scan_headers(hdr)
        case.plan = c02_acc.plan(s, classes, getattr(case.probe, 'acc_opts', None))
        if case.plan.tests:
            h = hashlib.sha256((case.text + case.plan.code).encode()).hexdigest()[:12]
            d = os.path.join(build.WORK, 'c02-acc')
            os.makedirs(d, exist_ok=True)
            p = os.path.join(d, 'acc_%s_%s.cc' % (re.sub(r'\W', '_', s.name)[:40], h))
            if not os.path.exists(p):
                with open(p + '.tmp%d' % os.getpid(), 'w') as f:
                    f.write(case.plan.code)
                os.rename(p + '.tmp%d' % os.getpid(), p)
            case.acc_path = p
            harn.append(p)
    d, fail = build.schema_lib(FLAVOUR, case.text, harn, tag='batch')
    if fail is not None and case.acc_path and fail.get('src') == case.acc_path:
        case.acc_fail = fail
        case.acc_path = None
        d, fail = build.schema_lib(FLAVOUR, case.text, ['regdump.cc'], tag='batch')
    case.dir, case.fail = d, fail
    return case


def run_regdump(case, env):
    """-> (dump dict, [crash records (phase, entity, Result)])"""
    exe = os.path.join(case.dir, 'regdump')
    crashes = []
    r = run.run([exe, 'dict'], cwd=case.dir, env=env, timeout=120)
    dump = c02_model.parse_dump(r.out)
    dict_ok = '"dict-done"' in r.out and not r.crashed() and r.rc == 0
    if not dict_ok:
        crashes.append(('dictionary', None, r))
    skip = []
    for _ in range(12):
        r = run.run([exe, 'inst'] + skip, cwd=case.dir, env=env, timeout=120)
        d2 = c02_model.parse_dump(r.out)
        dump['insts'].update(d2['insts'])
        dump['p21'].update(d2['p21'])
        dump['begun'] += d2['begun']
        if d2['done'] and not r.crashed() and r.rc == 0:
            dump['done'] = True
            break
        last = d2['begun'][-1] if d2['begun'] else None
        if last is not None and c02_model.lc(last) in d2['insts'] and c02_model.lc(last) not in d2['p21'] and 'w:' + last not in skip:
            # created and listed, died while the fresh instance was written
            crashes.append(('writing a fresh instance', last, r))
            skip.append('w:' + last)
            continue
        cur = last if last is not None and c02_model.lc(last) not in d2['insts'] else None
        crashes.append(('instance creation', cur, r))
        if cur is None or cur in skip:
            break
        skip.append(cur)
    dump['dict_ok'] = dict_ok
    return dump, crashes


def run_lookup(case, env):
    """regdump find / read with the DECLARED names -> (finds|None, reads|None, ids, [(phase, Result)] crashes)"""
    import shutil
    import tempfile
    exe = os.path.join(case.dir, 'regdump')
    d = tempfile.mkdtemp(prefix='c02l', dir='/dev/shm' if os.path.isdir('/dev/shm') else None)
    crashes = []
    try:
        with open(os.path.join(d, 'names.txt'), 'w') as f:
            f.write(c02_naming.find_list(case.schema))
        text, ids = c02_naming.p21_by_keyword(case.schema)
        hn = c02_naming.header_named(case.schema)
        if hn and not getattr(case.probe, 'read_header_named', False):
            ids = {}      # mask part21_header_entity_names: the read step is exercised by the fixed probes only
        with open(os.path.join(d, 'kw.p21'), 'w') as f:
            f.write(text)
        with open(os.path.join(d, 'kw.p21.ids'), 'w') as f:
            f.write(' '.join(str(i) for i in sorted(ids)) + '\n')
        r = run.run([exe, 'find', os.path.join(d, 'names.txt')], cwd=d, env=env, timeout=120)
        lf = c02_naming.parse_lookup(r.out)
        finds = lf['finds']
        if r.crashed() or r.rc != 0 or not lf['done']:
            crashes.append(('look-up by declared name', r))
            finds = None
        reads = None
        if ids:
            r = run.run([exe, 'read', os.path.join(d, 'kw.p21')], cwd=d, env=env, timeout=120)
            lr = c02_naming.parse_lookup(r.out)
            reads = lr['reads']
            if r.crashed() or r.rc != 0 or not lr['done']:
                crashes.append(('reading one unset instance per entity keyword' + (', schema declares the name of a Part 21 header-section entity' if hn else ''), r))
                reads = None
        return finds, reads, ids, crashes, text
    finally:
        shutil.rmtree(d, ignore_errors=True)


def run_acc(case, env):
    """-> (vals, ended, [(test n, Result)] crashes, inconclusive reason|None)"""
    exe = os.path.join(case.dir, os.path.basename(case.acc_path)[:-3])
    vals, ended, crashes = {}, set(), []
    start = 0
    n = len(case.plan.tests)
    for _ in range(25):
        r = run.run([exe, str(start)], cwd=case.dir, env=env, timeout=120)
        v, begun, e, done = c02_acc.parse_output(r.out)
        vals.update(v)
        ended |= e
        if done and not r.crashed():
            return vals, ended, crashes, None
        if r.timed_out:
            return vals, ended, crashes, 'accessor driver timed out'
        cur = begun[-1] if begun and begun[-1] not in e else None
        crashes.append((cur, r))
        if cur is None or cur + 1 >= n:
            break
        start = cur + 1
    return vals, ended, crashes, None


def entity_ctor_shape(schema, name):
    """What in an entity can make its constructor misbehave: the kinds of its (inherited + own) attribute domains."""
    try:
        kinds = sorted(set(a.type.shape(schema) for _o, a, _d in schema.all_attrs(_orig_e(schema, name))))
    except KeyError:
        return 'unknown entity'
    return ';'.join(kinds[:4]) + (';...' if len(kinds) > 4 else '')


def _orig_e(schema, n):
    for e in schema.entities:
        if e.name.lower() == (n or '').lower():
            return e.name
    raise KeyError(n)


def judge(chk, case, env):
    """-> [(key, what, files)]"""
    s = case.schema
    found = []
    files = {'schema.exp': case.text}
    if case.fail is not None:
        chk.count('schema_build_failures')
        st = case.fail.get('stage')
        log = case.fail.get('err', '') or ''
        if st == 'exp2cxx':
            sk = run.san_kind(log) or ('exit status %s' % case.fail.get('rc'))
            pes = sorted(set(re.findall(r'--ERROR (PE\d+):', log)))
            if not run.san_kind(log) and pes:
                sk += ', diagnostics %s' % ' '.join(pes[:4])      # which rules of the front end refused the schema
            found.append(('build|exp2cxx|%s' % sk, 'exp2cxx fails on a valid schema: %s' % log[-500:], dict(files, **{'log.txt': log})))
        elif st in ('compile', 'link-lib'):
            found.append(('build|%s|%s' % (st, compile_error_class(log)), 'the emitted code does not compile (%s): %s' % (case.fail.get('src'), log[:700]),
                          dict(files, **{'log.txt': log})))
        else:
            chk.inconc('harness of %s did not link: %s' % (s.name, log[-300:]))
        return found
    chk.ev()   # the emitted code compiled
    if case.headers is None:
        chk.inconc('exp2cxx failed in the header pass but succeeded in the build of %s' % s.name)
    dump, crashes = run_regdump(case, env)
    chk.ev()
    for phase, ent, r in crashes:
        if r.timed_out:
            chk.inconc('regdump timed out on %s' % s.name)
            continue
        shape = 'dictionary' if phase == 'dictionary' else '%s, attribute kinds %s' % (phase, entity_ctor_shape(s, ent) if ent else 'unknown')
        found.append(('crash|%s|%s' % (shape, r.symptom()), 'regdump %s%s: %s %s' % (phase, ' of ' + ent if ent else '', r.symptom(), run.san_frames(r.err)),
                      dict(files, stderr=r.err[-6000:], stdout=r.out[-3000:])))
    if dump.get('bad'):
        chk.inconc('regdump printed unparsable lines for %s: %s' % (s.name, dump['bad'][:1]))
    dfiles = dict(files, **{'regdump.jsonl': '\n'.join([__import__('json').dumps(x) for x in dump['entities'] + dump['types']] +
                                                       [__import__('json').dumps(x) for x in dump['insts'].values()])})
    if dump['dict_ok']:
        for key, what in c02_model.compare(s, dump, chk):
            found.append((key, what, dfiles))
    for key, what in c02_model.compare_instances(s, dump, chk):
        found.append((key, what, dfiles))
    chk.ev(len(dump['insts']))
    # ---- attribute-dependent aggregate bounds evaluated for instances created through the registry
    if getattr(s, 'rt_cases', None):
        if dump['dict_ok']:
            found.extend(c02_bounds.judge_runtime(chk, case, env, files))
        else:
            chk.count('attribute-dependent bounds not evaluated (dictionary dump failed)')
    # ---- the same names asked for the way an application / the Part 21 reader does
    if dump['dict_ok'] and not crashes:
        finds, reads, ids, lcrashes, p21text = run_lookup(case, env)
        for phase, r in lcrashes:
            if r.timed_out:
                chk.inconc('regdump (%s) timed out on %s' % (phase, s.name))
                continue
            found.append(('crash|%s|%s' % (phase, r.symptom()), 'regdump %s: %s %s' % (phase, r.symptom(), run.san_frames(r.err)),
                          dict(files, **{'stderr': r.err[-6000:], 'stdout': r.out[-3000:], 'kw.p21': p21text})))
        for key, what in c02_naming.compare_lookup(s, dump, finds, reads, ids, chk):
            found.append((key, what, dict(dfiles, **{'kw.p21': p21text})))
    else:
        chk.count('look-up by declared name not exercised (dictionary dump or an instance creation failed)')
    # ---- accessors
    pl = case.plan
    if pl is not None:
        for ent, attr, shape, what in pl.missing:
            found.append(('class|%s|mutator/accessor pair missing' % shape, '%s.%s: %s' % (ent, attr, what), dict(files, **(case.headers or {}))))
        for ent, attr, why in pl.skipped:
            chk.count('accessor not exercised: ' + why)
    if case.acc_fail is not None:
        log = case.acc_fail.get('err', '')
        found.append(('accessor|driver|%s' % compile_error_class(log), 'the accessor driver generated from the model and the emitted headers does not compile: %s' % log[:700],
                      dict(files, **{'acc.cc': pl.code, 'log.txt': log})))
    elif case.acc_path:
        vals, ended, acrashes, inc = run_acc(case, env)
        if inc:
            chk.inconc('%s: %s' % (s.name, inc))
        afiles = dict(files, **{'acc.cc': pl.code})
        tmap = {t['n']: t for t in pl.tests}
        for cur, r in acrashes:
            t = tmap.get(cur)
            kind = t['kind'] if t else 'start-up'
            if t and any(fr.startswith('STEPattribute::set_null') or '::Sdai' in fr for fr in run.san_frames(r.err, 2)[:1]):
                kind = 'constructor, attribute kinds %s' % entity_ctor_shape(s, t['entity'])     # died before the mutator was reached
            found.append(('crash|accessor round trip of %s|%s' % (kind, r.symptom()),
                          '%s: %s %s' % ('%s::%s_' % (t['cls'], t['attr']) if t else 'driver', r.symptom(), run.san_frames(r.err)), dict(afiles, stderr=r.err[-6000:])))
        for key, what, t in c02_acc.evaluate(pl, vals, ended):
            found.append((key, what, afiles))
        for t in pl.tests:
            if t['n'] in ended:
                chk.ev()
                chk.seen('accessor', t['kind'], t['owner'].lower() != t['entity'].lower())
                chk.tag('accessor:' + t['kind'])
    for t in s.tags:
        chk.tag('schema:' + t)
    chk.tag('origin:' + case.origin)
    return found


def main(chk):
    quick = chk.tier == 'quick'
    n_corpus = 14 if quick else 170
    cases = []
    for s in gen_schema.corpus(chk.seed, n_corpus, AVOID_SCHEMA):
        cases.append(Case(c02_extras.demask(s), 'corpus'))
    for s in c02_extras.extras(chk.seed, chk.tier):
        cases.append(Case(s, 'extra'))
    cases.append(Case(c02_extras.demask(c02_redecl.derived_matrix()), 'extra'))
    # identifier-shape matrix (fixed shapes + seeded identifiers) and attribute-flag matrix (fixed + seeded part)
    cases.append(Case(c02_extras.demask(c02_naming.naming_matrix(chk.seed)), 'extra'))
    cases.append(Case(c02_extras.demask(c02_flags.flags_matrix(chk.seed)), 'extra'))
    cases.append(Case(c02_bounds.bounds_matrix(chk.seed), 'extra'))
    if not quick:
        for i in range(10):
            cases.append(Case(c02_bounds.bounds_matrix(chk.seed, 'xbr%d_%d' % (chk.seed, i), fixed=False, n_attr=24, n_cases=5), 'extra'))
        for i in range(8):
            cases.append(Case(c02_extras.demask(c02_naming.naming_matrix(chk.seed, 'xnr%d__%d' % (chk.seed, i), n_random=30, fixed=False)), 'extra'))
            cases.append(Case(c02_extras.demask(c02_flags.flags_matrix(chk.seed, 'xfr%d_%d' % (chk.seed, i), fixed=False, n_ent=5)), 'extra'))
    for p in probes.PROBES.get('C02', []):
        p.prepare()
        cases.append(Case(p.schema, 'probe', p))
    bdir = build.core(FLAVOUR)
    env = build.env(bdir)
    with ThreadPoolExecutor(max(2, build.NCPU // 3)) as ex:
        list(ex.map(prepare, cases))

    def work(c):
        # the schema-library cache is shared and pruned (LRU) by every check: rebuild what was evicted meanwhile
        if c.dir and not os.path.exists(os.path.join(c.dir, 'regdump')):
            prepare(c)
        rec = Rec()
        return c, judge(rec, c, env), rec
    nfail = 0
    results = run.pmap(work, cases, jobs=max(2, build.NCPU // 2))
    build._prune('sch-', 200)
    for case, found, rec in results:
        rec.replay(chk)
        if case.fail is not None and case.origin != 'probe':
            nfail += 1
        for key, what, files in found:
            chk.violation(key, what, files, dict(schema=case.schema.name, origin=case.origin, probe=case.probe.name if case.probe else None))
        if case.origin == 'probe':
            chk.count('probes_run')
        if not found and len(chk.samples) < 4 and case.dir:
            chk.sample(dict(schema=case.schema.name, origin=case.origin, entities=len(case.schema.entities), types=len(case.schema.types),
                            accessor_tests=len(case.plan.tests) if case.plan else 0, text_head=case.text[:600],
                            verdict='compiled; dictionary, instance attribute lists and accessor round trips equal the model'))
    if not chk.samples:
        c = cases[0]
        chk.sample(dict(schema=c.schema.name, origin=c.origin, text_head=c.text[:600], verdict='see violations'))
    nonprobe = [c for c in cases if c.origin != 'probe']
    if nfail * 2 > len(nonprobe):
        chk.inconc('more than half of the schemas could not be built (%d of %d)' % (nfail, len(nonprobe)))
    return chk.finish(
        rule='schemas: %d from vf/gen_schema.corpus(seed) + naming/inheritance/type-zoo extras from vf/c02_extras.py + identifier-shape matrix (vf/c02_naming.py) + attribute-flag matrix (vf/c02_flags.py) '
             '+ re-declaration matrices (vf/c02_redecl.py) + aggregate-bound matrix (vf/c02_bounds.py) + fixed probes; one evaluation = one compile, '
             'one dictionary dump, one fresh instance, one look-up / creation / Part 21 read by declared name, one mutator/accessor round trip, or the run-time bounds of one aggregate level for one instance; distinct_nontrivial = distinct (descriptor kind, checked field, '
             'non-default model value) tuples compared (incl. (clause, unique, labelled?, joint?, optional?) of UNIQUE rules), distinct instance shapes, '
             'distinct (kind of name, identifier shape) looked up / read by keyword, distinct (accessor kind, inherited?) pairs, distinct (attribute / defined type, aggregate kind, '
             'lower bound kind, upper bound kind, nesting level) of aggregate bounds and distinct (aggregate kind, level, bound kinds, instance of a subtype?, same attribute twice?) '
             'of bounds evaluated for an instance' % n_corpus,
        assumptions=['the schema model vf/model.py (all_attrs = Part 21 order) and its text rendering are correct',
                     'unbounded `?` is INT_MAX in the dictionary (LITERAL_INFINITY in src/express/expr.c; SdaiHeaderSchemaInit.cc); an absent bound specification may be left unset',
                     'subtypes are compared as a set (EXPRESS gives them no order); Description() strings are not compared',
                     'a bound given by a CONSTANT, arithmetic or a function call: the dictionary holds the expression text (bound_funcall; compared without white space '
                     'and case) or, where the value is known from the schema, the value; a bound SELF\\sup.attr is bound_runtime and evaluates to the value the instance holds',
                     'Unique() of an attribute descriptor: true iff a UNIQUE rule of the declaring / re-declaring entity names the attribute; a rule that '
                     'names an attribute the entity re-declares only as SELF\\sup.attr is not judged; rules of subtypes leave the descriptors of supertypes alone',
                     'look-up by declared name is judged only for names the registry iteration lists (a missing name is the set comparison\'s business); '
                     'Part 21 reading by keyword: one instance per non-abstract entity with every parameter unset, judged only on "an instance of that entity exists"',
                     'randomized workload masks: shared generator features %s, local %s (each exercised by a deterministic probe of an open finding)'
                     % (sorted(AVOID_SCHEMA), c02_extras.LOCAL_MASKS),
                     'gcc ASan/UBSan runtimes'])
