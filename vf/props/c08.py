"""C08 - complex instances are accepted exactly when the supertype constraints allow them.

For a generated inheritance graph G (<= 8 entities, each with one INTEGER attribute) EVERY non-empty subset T of the
entity names is written as `#k=(parts of T);` between two simple sentinel instances, in canonical and shuffled part
orders, and read by the real reader (p21mon dump).  Oracle: created(#k) <=> legal(G, T) with vf/ref_complex.py (a direct
transcription of the property); sentinels intact; verdict independent of part order.  Sets that do not form ONE connected
subtype/supertype graph are not judged (EXPRESS never joins unrelated graphs; the property statement is silent).
"""
import itertools
import random
from .. import gen_p21, p21fam, ref_p21, ref_complex, run, probes
from .. import model as M
from ..ref_p21 import Inst

BATCH = 24


def gen_graph(rng, name, n=None):
    n = n or rng.randint(3, 7)
    ents = [M.Entity('z', attrs=[M.Attr('a_z', M.INT())])]
    names = ['e%d' % i for i in range(n)]
    for i, en in enumerate(names):
        e = M.Entity(en, attrs=[M.Attr('a_' + en, M.INT())])
        if i > 0 and rng.random() < .75:
            e.supers = [rng.choice(names[:i])]
            if i > 1 and rng.random() < .15:
                o = rng.choice(names[:i])
                if o != e.supers[0]:
                    e.supers.append(o)
        ents.append(e)
    s = M.Schema(name, [], ents)
    for e in ents:
        if len(e.supers) == 2 and (s.is_a(e.supers[0], e.supers[1]) or s.is_a(e.supers[1], e.supers[0])):
            e.supers = e.supers[:1]
    from ..gen_schema import Gen
    g = Gen(rng)
    for e in ents:
        subs = s.subs(e.name)
        if subs and rng.random() < .3:
            e.abstract = True
        if len(subs) >= 2 and rng.random() < .75:
            e.sexpr = g.sexpr(subs)
        elif len(subs) == 1 and rng.random() < .2:
            e.sexpr = ('oneof', [('leaf', subs[0])])
    return s


def gen_nested_graph(rng, name):
    """Two-level family: a root whose SUPERTYPE OF expression combines three children, two of which are themselves
    (often ABSTRACT) supertypes with their own expression over two leaves.  8 entities -> all 255 subsets."""
    L = lambda n: ('leaf', n)
    ents = [M.Entity('z', attrs=[M.Attr('a_z', M.INT())])]

    def E(n, sup=(), ab=False, sx=None):
        ents.append(M.Entity(n, supers=list(sup), abstract=ab, sexpr=sx, attrs=[M.Attr('a_' + n, M.INT())]))
    inner = rng.choice(['and', 'andor', 'oneof'])
    outer = rng.choice(['andor', 'and', 'oneof', None])
    pair = ('oneof', [L('hb'), L('hc')]) if inner == 'oneof' else (inner, L('hb'), L('hc'))
    if outer is None:
        top = pair                      # hd is an implicit (unmentioned) subtype
    elif outer == 'oneof':
        top = ('oneof', [pair, L('hd')])
    else:
        top = (outer, pair, L('hd'))
    E('h', sx=top, ab=rng.random() < .3)
    for c in ('hb', 'hc'):
        k = rng.choice(['oneof', 'andor', 'and', None])
        a, b = L(c + '1'), L(c + '2')
        sx = None if k is None else (('oneof', [a, b]) if k == 'oneof' else (k, a, b))
        E(c, ['h'], rng.random() < .6, sx)
        E(c + '1', [c])
        E(c + '2', [c])
    E('hd', ['h'])
    return M.Schema(name, [], ents)


def tworoot_family():
    """Seed-independent graphs with TWO roots joined by entities that have a supertype under each: (A) a part with two supertypes
    below nested ONEOF/AND/ANDOR expressions that mix a ONEOF with a plain sibling or an implicit subtype; (B) two roots sharing
    the same children, one of them ABSTRACT with an implicit subtype.  Every subset is enumerated like for the other families,
    in batches, so that refused and created instances follow each other in one read."""
    L = lambda n: ('leaf', n)

    def tmpl(k, x, y, w):
        return {'oneof_andor': ('andor', ('oneof', [L(x), L(y)]), L(w)), 'oneof_and': ('and', ('oneof', [L(x), L(y)]), L(w)),
                'andor_implicit': ('andor', L(x), L(y)), 'oneof_implicit': ('oneof', [L(x), L(y)]),
                'and_andor': ('andor', ('and', L(x), L(y)), L(w))}[k]
    out = []
    ks = ['oneof_andor', 'oneof_implicit', 'andor_implicit', 'and_andor']
    n = 0
    for k2, kp, r1x in [(a, b, c) for a in ks for b in ks[:3] for c in (('oneof', [L('m')]), None)]:
        if True:
            ents = [M.Entity('z', attrs=[M.Attr('a_z', M.INT())])]

            def E(nm, sup=(), ab=False, sx=None):
                ents.append(M.Entity(nm, supers=list(sup), abstract=ab, sexpr=sx, attrs=[M.Attr('a_' + nm, M.INT())]))
            E('r1', sx=r1x)     # the second root with and without a SUPERTYPE OF expression of its own
            E('r2', sx=tmpl(k2, 'p', 's', 'q'))
            E('p', ['r2'], sx=tmpl(kp, 'm', 't', 'u'))
            E('s', ['r2'])
            E('q', ['r2'])
            E('m', ['r1', 'p'])
            E('t', ['p'])
            E('u', ['p'])
            out.append(M.Schema('tra%d' % n, [], ents))
            n += 1
    n = 100
    for tool_x in (('oneof', [L('drill'), L('saw')]), ('andor', L('drill'), L('saw')), ('and', L('drill'), L('saw')), None):
        for prod_x in (None, ('oneof', [L('drill')]), ('andor', L('drill'), L('boxed'))):
            for order in (('tool', 'product'), ('product', 'tool')):
                ents = [M.Entity('z', attrs=[M.Attr('a_z', M.INT())])]

                def E(nm, sup=(), ab=False, sx=None):
                    ents.append(M.Entity(nm, supers=list(sup), abstract=ab, sexpr=sx, attrs=[M.Attr('a_' + nm, M.INT())]))
                E('tool', sx=tool_x)
                E('product', sx=prod_x)
                E('drill', list(order))
                E('saw', ['tool'])
                E('bit', ['drill'])
                if prod_x and prod_x[0] == 'andor':
                    E('boxed', ['product'])
                out.append(M.Schema('tra%d' % n, [], ents))
                n += 1
    n = 0
    for op in ('andor', 'and', 'oneof'):
        for ab_c in (True, False):
            for ab_a in (False, True):
                ents = [M.Entity('z', attrs=[M.Attr('a_z', M.INT())])]

                def E(nm, sup=(), ab=False, sx=None):
                    ents.append(M.Entity(nm, supers=list(sup), abstract=ab, sexpr=sx, attrs=[M.Attr('a_' + nm, M.INT())]))
                sx = ('oneof', [L('c'), L('a')]) if op == 'oneof' else (op, L('c'), L('a'))
                E('r1', sx=sx)
                E('r2', sx=sx)
                E('c', ['r1', 'r2'], ab=ab_c)
                E('b', ['c'])
                E('a', ['r1', 'r2'], ab=ab_a)
                E('d', ['a'])
                out.append(M.Schema('trb%d' % n, [], ents))
                n += 1
    return out


def set_shape(s, T):
    """Coarse description of a candidate set used in keys."""
    T = set(T)
    leaves = ref_complex.leaves_of(s, T)
    if any(len(s.entity(e).supers) > 1 for e in T):
        # open finding: the matcher's treatment of entities with several supertypes is unsound in both directions.
        # In the seed-independent two-root family every (graph, subset) has its own key, so that a change of behaviour on any
        # single set is seen; in seed-dependent graphs everything about such sets is keyed under one shape
        if s.name.startswith(('tra', 'trb')):
            return 'set with a member that has several supertypes: %s {%s}' % (s.name, ','.join(sorted(T)))
        return 'set with a member that has several supertypes'
    if len(T) == 1:
        e = s.entity(list(T)[0])
        return 'singleton %s' % ('root' if not e.supers else 'subtype')
    kinds = set()
    for e in T:
        ent = s.entity(e)
        if len(ent.supers) > 1:
            kinds.add('multi-super member')
        if ent.sexpr and (set(s.subs(e)) & T):
            def walk(x):
                if x[0] != 'leaf':
                    kinds.add(x[0].upper())
                    for y in (x[1] if x[0] == 'oneof' else x[1:]):
                        walk(y)
            walk(ent.sexpr)
        if ent.abstract:
            kinds.add('ABSTRACT member')
    roots = [e for e in T if not (set(s.entity(e).supers) & T)]
    return '%s, %s%s' % ('one leaf' if len(leaves) == 1 else 'several leaves', 'two roots, ' if len(roots) > 1 else '', '+'.join(sorted(kinds)) or 'no constraint')


def render_batch(s, items):
    """items: [(id, part names in order)] -> file text with sentinels around each."""
    lines = []
    for iid, parts in items:
        lines.append('#%d=Z(%d);' % (iid - 1, iid - 1))
        lines.append('#%d=(%s);' % (iid, ''.join('%s(%d)' % (p.upper(), 100 + k) for k, p in enumerate(parts))))
    lines.append('#%d=Z(0);' % (items[-1][0] + 1))
    empty = gen_p21.render(gen_p21.Population(s, []), 'compact')
    head, tail = empty.split('DATA;\n')
    return head + 'DATA;\n' + '\n'.join(lines) + '\n' + tail


def run_batch(lib, items):
    text = render_batch(lib.schema, items)
    with p21fam.Scratch('c08') as sc:
        inp = sc.write('in.p21', text)
        r = p21fam.mon(lib, ['read', inp, 'dump', sc.path('d.txt')], sc.d, timeout=120)
        dump = sc.read('d.txt')
    return text, r, dump


def eval_items(chk, lib, items, out):
    """Run a batch; on a crash bisect down to the single offending instance."""
    text, r, dump = run_batch(lib, items)
    chk.ev(len(items))
    if r.crashed() or r.timed_out:
        if len(items) == 1:
            out.append((items[0], 'crash', r.symptom(), text, r.err[-4000:]))
            return
        mid = len(items) // 2
        eval_items(chk, lib, items[:mid], out)
        eval_items(chk, lib, items[mid:], out)
        return
    n, hdr, insts = p21fam.parse_dump(dump)
    got = {}
    for (iid, st, name, idx, sfid, txt) in insts:
        got[iid] = txt
    for it in items:
        iid = it[0]
        sent_ok = all((k in got and ('Z(%d)' % v) in got[k].replace(' ', '')) for k, v in ((iid - 1, iid - 1),))
        created = iid in got
        out.append((it, 'created' if created else 'refused', 'sentinel lost' if not sent_ok else '', text, ''))


def main(chk):
    quick = chk.tier == 'quick'
    n_graphs = 24 if quick else 200
    graphs = []
    for gi in range(n_graphs):
        rng = random.Random('c08/%d/%d' % (chk.seed, gi))
        graphs.append(gen_graph(rng, 'g%d_%d' % (chk.seed, gi)))
    for gi in range(max(4, n_graphs // 4)):
        rng = random.Random('c08n/%d/%d' % (chk.seed, gi))
        graphs.append(gen_nested_graph(rng, 'n%d_%d' % (chk.seed, gi)))
    # the fixed member of the nested family (AND of two abstract ONEOF supertypes under ANDOR) runs on every seed
    graphs.append(gen_nested_graph(type('R', (), dict(choice=staticmethod(lambda xs: xs[0]), random=staticmethod(lambda: 0.5)))(), 'nfix_a'))
    graphs += tworoot_family()
    graphs += [p.prepare().schema for p in probes.PROBES.get('C08', [])]
    libs = p21fam.report_build_failures(chk, p21fam.build_libs(graphs))
    jobs = []
    meta = {}
    for li, lib in enumerate(libs):
        s = lib.schema
        names = [e.name for e in s.entities if e.name != 'z']
        rng = random.Random('c08o/%d/%s' % (chk.seed, s.name))
        items = []
        iid = 10
        for k in range(1, len(names) + 1):
            for T in itertools.combinations(names, k):
                orders = [tuple(sorted(T))]
                if k > 1:
                    for _ in range(2):
                        o = list(T)
                        rng.shuffle(o)
                        if tuple(o) not in orders:
                            orders.append(tuple(o))
                for o in orders:
                    items.append((iid, o))
                    meta[(li, iid)] = T
                    iid += 3
        for b in range(0, len(items), BATCH):
            jobs.append((li, lib, items[b:b + BATCH]))
        # "refused with an error for that instance only": the same instances once more in the opposite file order, so that every
        # set is also read AFTER larger (mostly refused) ones - a verdict must not depend on what was read before
        ritems = list(reversed(items))
        for b in range(0, len(ritems), BATCH):
            jobs.append((li, lib, ritems[b:b + BATCH]))

    # every ORDERED PAIR of candidate sets adjacent in one file (Eulerian circuit of the complete digraph over the connected
    # subsets) for the small fixed two-root graphs: the verdict on a set must not depend on the set read just before it
    for li, lib in enumerate(libs):
        s = lib.schema
        if not s.name.startswith('trb'):
            continue
        names = [e.name for e in s.entities if e.name != 'z']
        nodes = [T for k in range(2, len(names) + 1) for T in itertools.combinations(names, k) if ref_complex.connected(s, frozenset(T))]
        n = len(nodes)
        nxt = [[j for j in range(n) if j != i] for i in range(n)]
        stack, circuit = [0], []
        while stack:                      # Hierholzer
            v = stack[-1]
            if nxt[v]:
                stack.append(nxt[v].pop())
            else:
                circuit.append(stack.pop())
        items = []
        iid = 100000
        for v in reversed(circuit):
            items.append((iid, tuple(sorted(nodes[v]))))
            meta[(li, iid)] = nodes[v]
            iid += 3
        chk.count('adjacent ordered pairs of sets (two-root family)', len(items) - 1)
        for b in range(0, len(items), 200):
            jobs.append((li, lib, items[max(0, b - 1):b + 200]))     # overlap by one: the pair across the cut is kept

    def work(j):
        li, lib, items = j
        out = []
        eval_items(chk, lib, items, out)
        return li, lib, out
    verdicts = {}   # (li, frozenset T) -> {order: outcome}
    for li, lib, out in run.pmap(work, jobs):
        s = lib.schema
        for (item, outcome, extra, text, err) in out:
            iid, order = item
            T = frozenset(order)
            files = {'schema.exp': s.text(), 'in.p21': text}
            if not ref_complex.connected(s, T):
                chk.count('unrelated graphs joined: not judged (%s)' % outcome)
                continue
            legal = ref_complex.legal(s, T)
            shape = set_shape(s, T)
            if len(T) >= 2:
                chk.seen(s.name, T)
            chk.tag(('legal: ' if legal else 'illegal: ') + shape)
            if outcome == 'crash':
                chk.violation('crash|%s set (%s)|%s' % ('legal' if legal else 'illegal: ' + (ref_complex.why_illegal(s, T) or ''), shape, extra),
                              'parts %s: %s %s' % (list(order), extra, run.san_frames(err)), dict(files, stderr=err), dict(schema=s.name, parts=list(order)))
                continue
            if extra:
                chk.violation('confinement|sentinel instance before a complex instance lost|%s' % outcome, 'parts %s' % (list(order),), files)
            verdicts.setdefault((li, T), {})[order] = outcome
            if outcome == 'created' and not legal:
                why = ref_complex.why_illegal(s, T) if 'several supertypes' not in shape else 'any constraint'
                chk.violation('accepted but illegal|%s|%s' % (why, shape), 'parts %s created although the set is not a legal combination' % (list(order),),
                              files, dict(schema=s.name, parts=list(order)))
            elif outcome == 'refused' and legal:
                chk.violation('refused but legal|%s' % shape, 'parts %s refused although the set satisfies every SUBTYPE/SUPERTYPE constraint' % (list(order),),
                              files, dict(schema=s.name, parts=list(order)))
            elif len(chk.samples) < 4 and len(T) >= 2:
                chk.sample(dict(schema=s.name, parts=list(order), legal=legal, outcome=outcome, shape=shape))
    for (li, T), d in verdicts.items():
        if len(set(d.values())) > 1:
            s = libs[li].schema
            chk.violation('order dependent|%s' % set_shape(s, T), 'verdict depends on the order of the parts: %s' % dict((','.join(k), v) for k, v in d.items()),
                          {'schema.exp': s.text()}, dict(schema=s.name))
    return chk.finish(
        rule='generated inheritance graphs (<= 8 entities; chains, diamonds, two supertypes, ABSTRACT, every nesting of ONEOF/AND/ANDOR over direct subtypes, implicit subtypes) x ALL non-empty '
             'subsets of the entity names x canonical + 2 shuffled part orders; distinct_nontrivial = distinct (graph, subset) with >= 2 members that were judged',
        assumptions=['reference predicate vf/ref_complex.py transcribes the property statement', 'subsets that join unrelated subtype graphs are not judged',
                     'one INTEGER attribute per entity, so attribute handling plays no role'],
        exhaustive=True)
