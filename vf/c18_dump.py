"""C18 dumper - runs in a SUBPROCESS: imports one exp2python-generated module against the bundled runtime package and
prints one JSON document describing what the module defines, as far as the generated code exposes it.

usage: python3 c18_dump.py <module name> [<construct.json>]   (PYTHONPATH = <repo>/src/exp2python/python : <dir of the module>)
       construct.json = {class name: [constructor values in Part 21 order]}: each named class is instantiated with the values
       and every attribute named by a constructor parameter is read back

Output (stdout, one JSON object):
  import_error: [exception class, message, last traceback line]      (only when the import failed; exit status 3)
  order:        top-level binding names in source order (class statements and simple assignments; from the module's AST)
  dups:         names bound more than once at top level
  defs:         {binding name: description}
     entity class   {kind:'entity', name, bases:[..], mro:[..], mro_own:[the classes of mro defined by the module], params:[..]|None, own_init:bool}
     other class    {kind:'class', name, bases:[..], mro:[..]}                (defined types: class label(STRING))
     enumeration    {kind:'enum', name, items:[..]}                            (ENUMERATION functional API)
     select         {kind:'select', members:[..]}
     aggregate      {kind:'aggr', akind, lo, hi, elem: <name | nested aggr description>}
     alias          {kind:'alias', target: name of the object bound (class __name__ or the other binding's name)}
     anything else  {kind:'other', repr}
  construct:    {class name: {error:[exception class, message]} | {read:[[attribute, value equals the one given, repr of the value read]]}}
"""
import ast
import importlib
import inspect
import json
import sys
import traceback


def main():
    name = sys.argv[1]
    out = {}
    try:
        m = importlib.import_module(name)
    except BaseException as e:      # noqa - SyntaxError, ImportError, NameError, TypeError (MRO) ... all are verdicts
        tb = traceback.format_exc().strip().splitlines()
        where = ''
        for ln in tb:
            if ('%s.py' % name) in ln:
                where = ln.strip()
        out['import_error'] = [type(e).__name__, str(e)[:300], where[-200:]]
        print(json.dumps(out))
        return 3
    src = open(m.__file__).read()
    tree = ast.parse(src)
    order = []
    for node in tree.body:
        if isinstance(node, ast.ClassDef):
            order.append(node.name)
        elif isinstance(node, ast.FunctionDef):
            order.append(node.name)
        elif isinstance(node, ast.Assign):
            for t in node.targets:
                if isinstance(t, ast.Name):
                    order.append(t.id)
    out['order'] = order
    out['dups'] = sorted(set(n for n in order if order.count(n) > 1))
    from stepcode import SCLBase, ConstructedDataTypes, BaseType
    import enum
    defs = {}
    seen_obj = {}
    for n in order:
        if n in defs or n in ('schema_name', 'schema_scope'):
            continue
        o = getattr(m, n, None)
        defs[n] = describe(n, o, m, SCLBase, ConstructedDataTypes, BaseType, enum, seen_obj)
    out['defs'] = defs
    if len(sys.argv) > 2:
        out['construct'] = construct(m, json.load(open(sys.argv[2])))
    print(json.dumps(out))
    return 0


def construct(m, spec):
    import re
    res = {}
    for cname, vals in sorted(spec.items()):
        cls = getattr(m, cname, None)
        if not inspect.isclass(cls):
            continue
        try:
            inst = cls(*vals)
        except BaseException as e:      # noqa - whatever the generated constructor raises is the observation
            res[cname] = dict(error=[type(e).__name__, str(e)[:300]])
            continue
        read = []
        try:
            names = [re.sub(r'^inherited\d+__', '', p) for p in list(inspect.signature(cls.__init__).parameters)[1:]]
        except (TypeError, ValueError):
            names = []
        for nm, v in zip(names, vals):
            try:
                g = getattr(inst, nm)
                read.append([nm, bool(g == v), repr(g)[:80]])
            except BaseException as e:  # noqa
                read.append([nm, False, '%s: %s' % (type(e).__name__, str(e)[:80])])
        res[cname] = dict(read=read)
    return res


def describe(n, o, m, SCLBase, CDT, BaseType, enum, seen_obj):
    if inspect.isclass(o):
        if o.__module__ != m.__name__ or o.__name__ != n:
            # a binding to a class created elsewhere (flag = bool) or under another name (colour2 = colour)
            return dict(kind='alias', target=o.__name__)
        if issubclass(o, enum.Enum):
            return dict(kind='enum', name=o.__name__, items=[x.name for x in o])
        d = dict(name=o.__name__, bases=[b.__name__ for b in o.__bases__], mro=[c.__name__ for c in o.__mro__],
                 mro_own=[c.__name__ for c in o.__mro__ if c.__module__ == m.__name__])
        if issubclass(o, SCLBase.BaseEntityClass):
            d['kind'] = 'entity'
            d['own_init'] = '__init__' in o.__dict__
            if o.__init__ is object.__init__:
                d['params'] = []
            else:
                try:
                    ps = list(inspect.signature(o.__init__).parameters.values())
                    d['params'] = [p.name for p in ps[1:]]
                    d['param_kinds'] = sorted(set(str(p.kind) for p in ps[1:]))
                    d['first'] = ps[0].name if ps else None
                except (TypeError, ValueError) as e:
                    d['params'] = None
                    d['sig_error'] = str(e)
        else:
            d['kind'] = 'class'
        return d
    if isinstance(o, CDT.SELECT):
        return dict(kind='select', members=[t._typedef if isinstance(t._typedef, str) else getattr(t._typedef, '__name__', repr(t._typedef))
                                            for t in o._base_types])
    if isinstance(o, BaseType.Aggregate):
        return aggr(o, BaseType)
    for k, v in vars(m).items():
        if v is o and k != n and o is not None and not isinstance(o, (int, str, float)):
            return dict(kind='alias', target=k)
    return dict(kind='other', repr=repr(o)[:120])


def aggr(o, BaseType):
    td = getattr(o, '_typedef', None)
    if isinstance(td, BaseType.Aggregate):
        el = aggr(td, BaseType)
    elif isinstance(td, str):
        el = td
    else:
        el = getattr(td, '__name__', repr(td))
    return dict(kind='aggr', akind=type(o).__name__, lo=getattr(o, '_bound_1', None), hi=getattr(o, '_bound_2', None), elem=el,
                unique=bool(getattr(o, '_unique', False)), optional=bool(getattr(o, '_optional', False)))


if __name__ == '__main__':
    sys.exit(main())
