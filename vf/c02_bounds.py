"""C02: aggregate BOUNDS of every kind in both positions, for every aggregate kind, against the run-time dictionary.

The shared schema model (vf/model.py) knows integer literals and `?` only.  BT is a model aggregate type whose bounds
are bound specifications:
    lit(v)            integer literal (also negative)            -> Bound<N>Type() constant, Bound<N>() == v
    inf()             `?` (upper position)                       -> constant INT_MAX (see vf/c02_model.py)
    const(name, v)    a CONSTANT of the schema                   -> the library keeps the EXPRESSION TEXT (bound_funcall,
                                                                    Bound<N>Funcall() == name); a dictionary that holds the
                                                                    constant's value (bound_constant v) is right as well
    expr(text, v)     arithmetic over constants / literals       -> as const
    func(text)        a function call                            -> bound_funcall with the text of the call
    name(text)        an attribute of the entity by its bare name-> bound_funcall with that text (exp2cxx resolves the name and
                                                                    keeps the text: only the group-qualified form is evaluated)
    attr(sup, a)      SELF\\sup.a : an INTEGER attribute of the   -> bound_runtime; Bound<N>Runtime(instance) == the value the
                      instance (inherited or own)                   instance holds in a
Texts compare after removing white space and case (EXPRESS is free-format and case-insensitive).

bounds_matrix(seed): one schema with
  * a FIXED part: defined types {LIST, SET, BAG, ARRAY} x {literal, ?, CONSTANT lower / upper / both, negative constant,
    arithmetic, function call} and nested defined aggregates; an entity chain ctl <- mid <- win <- leaf where win
    declares in-place aggregates {LIST, SET, BAG, ARRAY} x the constant kinds in both positions, and ARRAYs whose bounds
    depend on inherited attributes: lower only (upper literal / ? / CONSTANT / function call), upper only (lower
    literal / CONSTANT / negative literal), both from different attributes, both from the same attribute, exchanged,
    through the group of an intermediate supertype, from the declaring entity's own attribute (SELF\\win.own), OPTIONAL /
    UNIQUE elements, and nested aggregates with an attribute-dependent bound at the outer, the inner or both levels;
  * a seeded RANDOM part: an entity with attributes of random aggregate kind, nesting and bound kinds.
Every entity that has (inherited) attribute-dependent bounds is instantiated through the registry for several value
tuples of the controlling attributes (fixed tuples + seeded ones, all values of one tuple pairwise different, negative
values included); harness/regdump.cc `bounds` evaluates every bound_runtime bound of every aggregate level for that
instance and compare_runtime() judges the numbers.

Masks (open findings, each exercised by a fixed probe below through the same oracle):
  * self_group_bound_in_list_set_bag: SELF\\sup.attr in a bound of a LIST / SET / BAG written in an attribute declaration,
    or of any aggregate nested inside one -> exp2cxx (all four tools) reject the schema;
  * nested_runtime_bound_same_position: a nested aggregate with an attribute-dependent bound in the same position at two
    levels -> the emitted header defines the same inline accessor twice.
  (SELF.attr - no group qualifier - in a bound is C04's open finding and is not used here.)
"""
import json
import os
import random
import re
import shutil
import tempfile
from . import model as M
from . import probes, run
from .model import Schema, TypeDef, Entity, Attr, T, INT, REAL, STR, NAMED, ENT
from .probes import Probe

INT_MAX = 2147483647
AKINDS = ('LIST', 'SET', 'BAG', 'ARRAY')


class B(object):
    """One bound specification."""
    __slots__ = ('kind', 'text', 'value', 'sup', 'attr')

    def __init__(self, kind, text, value=None, sup=None, attr=None):
        self.kind, self.text, self.value, self.sup, self.attr = kind, text, value, sup, attr

    def what(self):
        return {'lit': 'an integer literal', 'inf': '?', 'const': 'a CONSTANT', 'expr': 'arithmetic over a CONSTANT', 'func': 'a function call',
                'name': 'the bare name of an attribute', 'attr': 'an attribute of the instance (SELF\\sup.attr)'}[self.kind]


def lit(v): return B('lit', str(v), v)
def inf(): return B('inf', '?', INT_MAX)
def const(n, v): return B('const', n, v)
def expr(t, v): return B('expr', t, v)
def func(t): return B('func', t)
def name(t): return B('name', t)
def attr(sup, a): return B('attr', 'SELF\\%s.%s' % (sup, a), None, sup, a)


class BT(T):
    """Aggregate type with bound specifications (lob, hib).  lo / hi carry the literal values where there are any."""
    __slots__ = ('lob', 'hib')

    def __init__(self, akind, elem, lob, hib, unique=False, optional=False):
        T.__init__(self, 'aggr', akind=akind, lo=lob.value if lob.kind == 'lit' else 0, hi=hib.value if hib.kind == 'lit' else None,
                   unique=unique, optional=optional, elem=elem)
        self.lob, self.hib = lob, hib

    def text(self):
        return '%s [%s : %s] OF %s%s%s' % (self.akind, self.lob.text, self.hib.text, 'OPTIONAL ' if self.optional else '',
                                          'UNIQUE ' if self.unique else '', self.elem.text())


def norm(s):
    return re.sub(r'\s+', '', s or '').lower()


# ----------------------------------------------------------------------------------------------- dictionary oracle
def cmp_bounds(t, d, shape, out, where):
    """Bound kinds / constant values / expression texts of one aggregate level (called from c02_model.cmp_bounds)."""
    for n, b, other in ((1, t.lob, t.hib), (2, t.hib, t.lob)):
        bt, bv, bs = d.get('b%dt' % n), d.get('b%d' % n), d.get('b%ds' % n)
        pos = '%s bound given by %s' % ('lower' if n == 1 else 'upper', b.what())
        if b.kind != other.kind or b.kind == 'attr':
            pos += ' (%s: %s)' % ('upper' if n == 1 else 'lower', other.what())
        key = '%s|%s, %s|' % (where, shape, pos)
        if b.kind in ('lit', 'inf'):
            if bt != 'constant' or bv != b.value:
                out.append((key + 'Bound%d differs' % n, 'want %s, got %s %s' % (b.text if b.kind == 'lit' else '? = %d' % INT_MAX, bt, bv if bt == 'constant' else bs)))
        elif b.kind == 'attr':
            if bt != 'runtime':
                out.append((key + 'Bound%dType differs' % n, 'want bound_runtime for %s, got %s %s' % (b.text, bt, bv if bt == 'constant' else bs)))
        else:
            ok = (bt == 'funcall' and norm(bs) == norm(b.text)) or (bt == 'constant' and b.value is not None and bv == b.value)
            if not ok:
                out.append((key + 'Bound%d differs' % n, 'want the expression %s%s, got %s %s'
                            % (b.text, ' (or its value %d)' % b.value if b.value is not None else '', bt, bv if bt == 'constant' else repr(bs))))


# ----------------------------------------------------------------------------------------------- run-time oracle
def first_chain(schema, ename):
    """The entity and its first-supertype chain (the classes the generated C++ class derives from)."""
    out = [ename]
    while schema.entity(out[-1]).supers:
        out.append(schema.entity(out[-1]).supers[0])
    return out


def levels(t):
    n = 0
    while t is not None and t.kind == 'aggr':
        yield n, t
        n, t = n + 1, t.elem


def expected_runtime(schema, ename, values):
    """{(owner, attribute, level): (bound 1 value | None, bound 2 value | None, BT)} for an instance of ename."""
    want = {}
    for owner in first_chain(schema, ename):
        for a in schema.entity(owner).attrs:
            for lv, t in levels(a.type):
                if not isinstance(t, BT) or 'attr' not in (t.lob.kind, t.hib.kind):
                    continue
                want[(owner.lower(), a.name.lower(), lv)] = (values[t.lob.attr] if t.lob.kind == 'attr' else None,
                                                             values[t.hib.attr] if t.hib.kind == 'attr' else None, t)
    return want


def rt_shape(t, lv):
    return '%s%s, lower bound %s, upper bound %s' % (t.akind, ' nested at level %d' % lv if lv else '', t.lob.what(), t.hib.what())


def bounds_input(schema):
    lines = []
    for n, (ename, values) in enumerate(schema.rt_cases):
        lines.append('%s c%d %s' % (ename, n, ' '.join('%s=%d' % kv for kv in sorted(values.items()))))
    return '\n'.join(lines) + '\n'


def run_bounds(case, env):
    """regdump bounds on the schema's instance cases -> (records by case id, crash Result|None, input text)"""
    exe = os.path.join(case.dir, 'regdump')
    d = tempfile.mkdtemp(prefix='c02b', dir='/dev/shm' if os.path.isdir('/dev/shm') else None)
    try:
        text = bounds_input(case.schema)
        with open(os.path.join(d, 'bounds.txt'), 'w') as f:
            f.write(text)
        r = run.run([exe, 'bounds', os.path.join(d, 'bounds.txt')], cwd=d, env=env, timeout=120)
    finally:
        shutil.rmtree(d, ignore_errors=True)
    recs, done, last = {}, False, None
    for line in r.out.splitlines():
        if not line.startswith('{'):
            continue
        try:
            o = json.loads(line)
        except ValueError:
            continue
        if o.get('k') == 'done':
            done = True
        elif o.get('k') in ('rtb', 'rtb-inst'):
            recs.setdefault(o.get('case'), []).append(o)
        elif o.get('k') == 'rtb-eval':
            last = o
    crash = None if (done and not r.crashed() and r.rc == 0) else r
    return recs, crash, last, text


def compare_runtime(schema, recs, chk=None, died_in=None):
    """-> [(key, what)]: Bound1Runtime / Bound2Runtime of every attribute-dependent bound for every instance case."""
    out = []
    for n, (ename, values) in enumerate(schema.rt_cases):
        cid = 'c%d' % n
        rs = recs.get(cid)
        if rs is None:
            continue      # the process died before this case: reported as a crash by the caller
        inst = [r for r in rs if r['k'] == 'rtb-inst']
        if not inst or not inst[0].get('created'):
            out.append(('rt-bound|any|ObjCreate returned no instance', '%s (%s)' % (ename, cid)))
            continue
        unset = [s['attr'] for s in inst[0].get('set', []) if not s.get('set')]
        if unset:
            out.append(('rt-bound|any|controlling INTEGER attribute not found in the instance', '%s (%s): %s' % (ename, cid, unset)))
            continue
        want = expected_runtime(schema, ename, values)
        got = {}
        for r in rs:
            if r['k'] == 'rtb':
                got[((r.get('owner') or '').lower(), (r.get('attr') or '').lower(), r.get('level'))] = (r.get('b1'), r.get('b2'))
        for k in sorted(want):
            w1, w2, t = want[k]
            shape = rt_shape(t, k[2])
            if chk is not None:
                chk.ev()
                chk.seen('rt-bound', t.akind, k[2], t.lob.kind, t.hib.kind, ename.lower() != k[0],
                         t.lob.kind == 'attr' and t.hib.kind == 'attr' and t.lob.attr == t.hib.attr)
                chk.tag('rt-bound:%s lower %s upper %s' % (t.akind, t.lob.kind, t.hib.kind))
            if k not in got:
                if cid == died_in:
                    continue      # the process died in this case: reported as a crash by the caller
                out.append(('rt-bound|%s|no bound_runtime bound found to evaluate' % shape, '%s (%s) %s.%s level %d: %s' % (ename, cid, k[0], k[1], k[2], t.text())))
                continue
            g1, g2 = got[k]
            vals = ', '.join('%s=%d' % kv for kv in sorted(values.items()))
            if g1 != w1:
                out.append(('rt-bound|%s|Bound1Runtime(instance) differs' % shape,
                            '%s.%s = %s of a %s with %s: want lower bound %s, got %s (upper bound %s)' % (k[0], k[1], t.text(), ename, vals, w1, g1, g2)))
            if g2 != w2:
                out.append(('rt-bound|%s|Bound2Runtime(instance) differs' % shape,
                            '%s.%s = %s of a %s with %s: want upper bound %s, got %s (lower bound %s)' % (k[0], k[1], t.text(), ename, vals, w2, g2, g1)))
        for k in sorted(set(got) - set(want)):
            out.append(('rt-bound|any|a bound that does not depend on the instance is registered as bound_runtime', '%s (%s) %s.%s level %d' % (ename, cid, k[0], k[1], k[2])))
    return out


def judge_runtime(chk, case, env, files):
    """Called by vf/props/c02.py for schemas that carry rt_cases -> [(key, what, files)]"""
    found = []
    recs, crash, last, text = run_bounds(case, env)
    files = dict(files, **{'bounds.txt': text})
    if crash is not None:
        if crash.timed_out:
            chk.inconc('regdump bounds timed out on %s' % case.schema.name)
        else:
            shape = 'start-up'
            if last is not None:
                t = None
                try:
                    own = [e for e in case.schema.entities if e.name.lower() == (last.get('owner') or '').lower()][0]
                    a = [a for a in own.attrs if a.name.lower() == (last.get('attr') or '').lower()][0]
                    t = dict(levels(a.type)).get(last.get('level'))
                except IndexError:
                    pass
                shape = rt_shape(t, last.get('level')) if isinstance(t, BT) else 'unknown aggregate'
            found.append(('crash|evaluating the attribute-dependent bounds of %s|%s' % (shape, crash.symptom()),
                          'regdump bounds, last evaluation begun %s: %s %s' % (last, crash.symptom(), run.san_frames(crash.err)),
                          dict(files, stderr=crash.err[-6000:], stdout=crash.out[-3000:])))
    chk.ev()
    for key, what in compare_runtime(case.schema, recs, chk, last.get('case') if (crash is not None and last is not None) else None):
        found.append((key, what, dict(files, **{'rtb.jsonl': '\n'.join(json.dumps(r) for rs in recs.values() for r in rs)})))
    return found


# ----------------------------------------------------------------------------------------------- schemas
DECLS = ['CONSTANT\n  max_n : INTEGER := 5;\n  min_n : INTEGER := 2;\n  neg_n : INTEGER := -3;\nEND_CONSTANT;',
         'FUNCTION fsize(n : INTEGER) : INTEGER;\n  RETURN (n + 1);\nEND_FUNCTION;']
# constant-like bound specifications usable in either position (lower value <= upper value where both are known)
LOWER = [lambda: lit(0), lambda: lit(1), lambda: lit(-4), lambda: const('min_n', 2), lambda: const('neg_n', -3), lambda: expr('-max_n', -5),
         lambda: expr('min_n - 1', 1), lambda: func('fsize(0)')]
UPPER = [lambda: lit(7), lambda: lit(12), lambda: inf(), lambda: const('max_n', 5), lambda: expr('max_n * 2', 10), lambda: expr('max_n + min_n', 7),
         lambda: func('fsize(3)'), lambda: func('fsize(max_n)')]
ELEMS = [INT, REAL, STR, lambda: NAMED('blabel'), lambda: ENT('ctl')]
CTL = [('ctl', 'first_index'), ('ctl', 'last_index'), ('mid', 'third')]
FIXED_VALUES = [(3, 8, 5), (-2, 40, 0), (0, 1, -7), (9, 4, 2)]


class BSchema(Schema):
    """Schema whose CONSTANT block and functions are written first (EXPRESS wants the constants before every other declaration)."""

    def text(self):
        head, rest = Schema.text(self).split('\n', 1)
        return head + '\n\n' + '\n\n'.join(DECLS) + '\n' + rest


def base_schema(nm):
    s = BSchema(nm)
    s.types += [TypeDef('blabel', 'simple', base=STR()), TypeDef('bcount', 'simple', base=INT())]
    s.entities += [Entity('ctl', attrs=[Attr('first_index', INT()), Attr('note', STR(), True), Attr('last_index', INT())]),
                   Entity('mid', supers=['ctl'], attrs=[Attr('third', INT()), Attr('ratio', REAL(), True)])]
    s.rt_cases = []
    return s


def fixed_part(s):
    for ak in AKINDS:
        a = ak.lower()[0]
        s.types += [
            TypeDef('t%s_lit' % a, 'simple', base=BT(ak, INT(), lit(1), lit(4))),
            TypeDef('t%s_inf' % a, 'simple', base=BT(ak, REAL(), lit(2), inf())),
            TypeDef('t%s_cc' % a, 'simple', base=BT(ak, INT(), const('min_n', 2), const('max_n', 5))),
            TypeDef('t%s_cl' % a, 'simple', base=BT(ak, STR(), const('min_n', 2), lit(9))),
            TypeDef('t%s_cu' % a, 'simple', base=BT(ak, NAMED('blabel'), lit(0), const('max_n', 5))),
            TypeDef('t%s_ci' % a, 'simple', base=BT(ak, INT(), const('min_n', 2), inf())),
            TypeDef('t%s_ng' % a, 'simple', base=BT(ak, INT(), const('neg_n', -3), lit(-1) if ak == 'ARRAY' else lit(3))),
            TypeDef('t%s_ex' % a, 'simple', base=BT(ak, REAL(), expr('-max_n', -5) if ak == 'ARRAY' else expr('min_n - 1', 1), expr('max_n * 2', 10))),
            TypeDef('t%s_fu' % a, 'simple', base=BT(ak, INT(), lit(1), func('fsize(3)'))),
            TypeDef('t%s_ff' % a, 'simple', base=BT(ak, INT(), func('fsize(0)'), func('fsize(max_n)'))),
        ]
    s.types += [TypeDef('tn_cc', 'simple', base=BT('LIST', BT('ARRAY', REAL(), const('min_n', 2), const('max_n', 5)), lit(1), const('max_n', 5))),
                TypeDef('tn_fi', 'simple', base=BT('SET', BT('BAG', INT(), lit(0), inf()), const('min_n', 2), func('fsize(2)')))]
    win = Entity('win', supers=['mid'], attrs=[Attr('own', INT()), Attr('own2', NAMED('bcount'))])
    A = win.attrs.append
    # ---- constant kinds, every aggregate kind, both positions
    for ak in AKINDS:
        a = ak.lower()[0]
        A(Attr('%s_cc' % a, BT(ak, INT(), const('min_n', 2), const('max_n', 5))))
        A(Attr('%s_lc' % a, BT(ak, REAL(), lit(1), const('max_n', 5)), True))
        A(Attr('%s_cl' % a, BT(ak, STR(), const('min_n', 2), lit(6))))
        A(Attr('%s_ci' % a, BT(ak, INT(), const('min_n', 2), inf())))
        A(Attr('%s_lf' % a, BT(ak, INT(), lit(0), func('fsize(2)'))))
        A(Attr('%s_fc' % a, BT(ak, ENT('ctl'), func('fsize(0)'), expr('max_n + min_n', 7))))
        A(Attr('%s_nm' % a, BT(ak, INT(), lit(0), name('own'))))
        A(Attr('%s_mn' % a, BT(ak, INT(), name('own'), inf())))
        A(Attr('%s_dt' % a, NAMED('t%s_cc' % a), True))
    # ---- attribute-dependent bounds (ARRAY: see the masks for LIST / SET / BAG)
    fi, la, th = attr('ctl', 'first_index'), attr('ctl', 'last_index'), attr('mid', 'third')
    A(Attr('r_both', BT('ARRAY', REAL(), fi, la)))
    A(Attr('r_lo_lit', BT('ARRAY', REAL(), fi, lit(10))))
    A(Attr('r_lo_inf', BT('ARRAY', INT(), fi, inf(), optional=True)))
    A(Attr('r_lo_const', BT('ARRAY', INT(), la, const('max_n', 5))))
    A(Attr('r_lo_func', BT('ARRAY', STR(), th, func('fsize(3)'))))
    A(Attr('r_hi_lit', BT('ARRAY', INT(), lit(1), la)))
    A(Attr('r_hi_neg', BT('ARRAY', INT(), lit(-4), fi), True))
    A(Attr('r_hi_const', BT('ARRAY', NAMED('blabel'), const('min_n', 2), th)))
    A(Attr('r_same', BT('ARRAY', INT(), la, la)))
    A(Attr('r_swapped', BT('ARRAY', INT(), la, fi, optional=True)))
    A(Attr('r_mid', BT('ARRAY', INT(), th, la, unique=True)))
    A(Attr('r_viamid', BT('ARRAY', ENT('ctl'), attr('mid', 'first_index'), attr('mid', 'last_index'), optional=True)))
    A(Attr('r_own', BT('ARRAY', INT(), attr('win', 'own'), th)))
    A(Attr('r_own_dt', BT('ARRAY', INT(), fi, attr('win', 'own2'))))
    A(Attr('r_nest_oi', BT('ARRAY', BT('ARRAY', INT(), lit(0), th), fi, lit(4))))
    A(Attr('r_nest_in', BT('ARRAY', BT('ARRAY', REAL(), fi, la), lit(1), lit(3))))
    A(Attr('r_nest_io', BT('ARRAY', BT('ARRAY', REAL(), th, lit(99)), lit(0), fi)))
    A(Attr('r_nest_3', BT('ARRAY', BT('LIST', BT('ARRAY', STR(), lit(1), const('max_n', 5)), lit(0), inf()), la, th)))
    A(Attr('r_nest_cl', BT('ARRAY', BT('LIST', INT(), const('min_n', 2), inf()), la, const('max_n', 5))))
    s.entities.append(win)
    s.entities.append(Entity('leaf', supers=['win'], attrs=[Attr('z', INT()), Attr('l_both', BT('ARRAY', INT(), attr('win', 'own'), attr('leaf', 'z')))]))
    s.entities.append(Entity('solo', attrs=[Attr('n', INT()), Attr('m', INT()), Attr('v', BT('ARRAY', REAL(), attr('solo', 'm'), attr('solo', 'n')))]))
    for f, l, t in FIXED_VALUES:
        s.rt_cases.append(('win', dict(first_index=f, last_index=l, third=t, own=f + 100, own2=l + 200)))
    s.rt_cases.append(('leaf', dict(first_index=6, last_index=60, third=16, own=-1, own2=77, z=13)))
    s.rt_cases.append(('leaf', dict(first_index=-9, last_index=2, third=3, own=21, own2=1, z=-30)))
    s.rt_cases.append(('solo', dict(n=12, m=-5)))
    s.rt_cases.append(('solo', dict(n=1, m=0)))


def random_bt(rng, depth=0, used=None, allow_attr=True):
    """Random aggregate inside the clean sub-space (attribute-dependent bounds on ARRAYs not nested in LIST / SET / BAG;
    in a nested aggregate no position is attribute dependent at two levels)."""
    used = used if used is not None else set()
    ak = rng.choice(AKINDS + ('ARRAY', 'ARRAY'))
    can = allow_attr and ak == 'ARRAY'
    bs = []
    for n, pool in ((1, LOWER), (2, UPPER)):
        if can and n not in used and rng.random() < .55:
            used.add(n)
            bs.append(attr(*rng.choice(CTL + [('mid', 'first_index'), ('rnd', 'q')])))
        else:
            bs.append(rng.choice(pool)())
    if depth < 2 and rng.random() < .3:
        el = random_bt(rng, depth + 1, used, can)
    else:
        el = rng.choice(ELEMS)()
    return BT(ak, el, bs[0], bs[1], unique=ak in ('LIST', 'ARRAY') and rng.random() < .2 and el.kind != 'aggr', optional=ak == 'ARRAY' and rng.random() < .3)


def random_part(s, rng, n_attr=14, n_cases=3):
    e = Entity('rnd', supers=['mid'], attrs=[Attr('q', INT())])
    for i in range(n_attr):
        e.attrs.append(Attr('x%d' % i, random_bt(rng), rng.random() < .25))
    for i in range(3):
        s.types.append(TypeDef('tr%d' % i, 'simple', base=random_bt(rng, allow_attr=False)))
    s.entities.append(e)
    s.entities.append(Entity('rsub', supers=['rnd'], attrs=[Attr('w', STR(), True)]))
    for i in range(n_cases):
        vs = rng.sample(range(-50, 400), 4)
        s.rt_cases.append((rng.choice(['rnd', 'rsub']), dict(first_index=vs[0], last_index=vs[1], third=vs[2], q=vs[3])))


def bounds_matrix(seed, nm=None, fixed=True, n_attr=14, n_cases=3):
    s = base_schema(nm or 'xbd%d' % seed)
    if fixed:
        fixed_part(s)
    random_part(s, random.Random('c02bounds/%d/%s' % (seed, s.name)), n_attr, n_cases)
    s.tags.add('bounds:literal/?/CONSTANT/function/attribute-dependent matrix')
    return s


# ----------------------------------------------------------------------------------------------- probes of open findings
def _p_self_group_list_set_bag():
    s = base_schema('pr_c02bl')
    fi, la, th = attr('ctl', 'first_index'), attr('ctl', 'last_index'), attr('mid', 'third')
    e = Entity('win', supers=['mid'], attrs=[Attr('own', INT())])
    for ak in ('LIST', 'SET', 'BAG'):
        a = ak.lower()[0]
        e.attrs += [Attr('%s_both' % a, BT(ak, INT(), fi, la)), Attr('%s_lo' % a, BT(ak, REAL(), th, lit(9))), Attr('%s_loinf' % a, BT(ak, REAL(), fi, inf())),
                    Attr('%s_hi' % a, BT(ak, STR(), lit(1), la)), Attr('%s_hic' % a, BT(ak, STR(), const('min_n', 2), th), True),
                    Attr('%s_same' % a, BT(ak, INT(), la, la)), Attr('%s_own' % a, BT(ak, INT(), lit(0), attr('win', 'own')))]
    e.attrs += [Attr('n_la', BT('LIST', BT('ARRAY', REAL(), th, la), lit(1), lit(3))),
                Attr('n_ls', BT('LIST', BT('SET', REAL(), lit(0), la), th, inf())),
                Attr('n_ab', BT('ARRAY', BT('BAG', INT(), fi, const('max_n', 5)), lit(1), la))]
    s.entities.append(e)
    for f, l, t in FIXED_VALUES[:3]:
        s.rt_cases.append(('win', dict(first_index=f, last_index=l, third=t, own=f + 100)))
    return s, []


probes.register('C02', Probe('SELF\\sup.attr in a bound of a LIST / SET / BAG of an attribute', _p_self_group_list_set_bag,
                             masks=dict(schema=['self_group_bound_in_list_set_bag'])))


def _p_nested_same_position():
    s = base_schema('pr_c02bn')
    fi, la, th = attr('ctl', 'first_index'), attr('ctl', 'last_index'), attr('mid', 'third')
    s.entities.append(Entity('win', supers=['mid'], attrs=[
        Attr('n_both', BT('ARRAY', BT('ARRAY', INT(), la, fi), fi, la)),
        Attr('n_lo', BT('ARRAY', BT('ARRAY', INT(), th, lit(50)), fi, lit(60))),
        Attr('n_hi', BT('ARRAY', BT('ARRAY', BT('ARRAY', REAL(), lit(0), fi), lit(-1), th), lit(1), la))]))
    for f, l, t in FIXED_VALUES[:3]:
        s.rt_cases.append(('win', dict(first_index=f, last_index=l, third=t)))
    return s, []


probes.register('C02', Probe('nested aggregate with an attribute-dependent bound in the same position at two levels', _p_nested_same_position,
                             masks=dict(schema=['nested_runtime_bound_same_position'])))
