"""Helpers shared by the C12 (determinism) and C17 (scanner vs. generator) checks: tool location, scratch
directories under $VERIF_WORK, output-tree hashing and the malloc shim build."""
import hashlib
import os
import shutil
import subprocess

from . import build, run

TOOLS = ('exp2cxx', 'exp2python', 'exppp', 'schema_scanner')


def scanner_exe(flavour='plain'):
    """build.scanner(), tolerating that the stand-alone project puts its executable in <core build>/bin."""
    try:
        return build.scanner(flavour)
    except build.BuildError:
        exe = os.path.join(build.core(flavour), 'bin', 'schema_scanner')
        if os.path.exists(exe):
            return exe
        raise


def tool_paths(flavour='plain'):
    bdir = build.core(flavour)
    t = {n: os.path.join(bdir, 'bin', n) for n in ('exp2cxx', 'exp2python', 'exppp')}
    t['schema_scanner'] = scanner_exe(flavour)
    return bdir, t


class Scratch(object):
    """One private directory under $VERIF_WORK, removed on exit."""

    def __init__(self, tag):
        os.makedirs(build.WORK, exist_ok=True)
        for x in os.listdir(build.WORK):        # directories left behind by a killed earlier run
            pre, _, pid = x.rpartition('-')
            if pre == tag and pid.isdigit() and not os.path.exists('/proc/%s' % pid):
                shutil.rmtree(os.path.join(build.WORK, x), ignore_errors=True)
        self.d = os.path.join(build.WORK, '%s-%d' % (tag, os.getpid()))
        shutil.rmtree(self.d, ignore_errors=True)
        os.makedirs(self.d)

    def __enter__(self):
        return self

    def __exit__(self, *a):
        shutil.rmtree(self.d, ignore_errors=True)

    def sub(self, *parts):
        p = os.path.join(self.d, *parts)
        os.makedirs(p, exist_ok=True)
        return p


def fresh(d):
    shutil.rmtree(d, ignore_errors=True)
    os.makedirs(d)
    return d


def tree(d):
    """Recursive listing of d: relative path -> SHA-256 hex of the bytes ('<dir>' for directories,
    'link:<target>' for symbolic links)."""
    out = {}
    for root, dirs, files in os.walk(d):
        dirs.sort()
        rel = os.path.relpath(root, d)
        for x in dirs:
            p = os.path.join(root, x)
            r = os.path.normpath(os.path.join(rel, x))
            if os.path.islink(p):
                out[r] = 'link:' + os.readlink(p)
            else:
                out[r + '/'] = '<dir>'
        for f in sorted(files):
            p = os.path.join(root, f)
            r = os.path.normpath(os.path.join(rel, f))
            if os.path.islink(p):
                out[r] = 'link:' + os.readlink(p)
                continue
            h = hashlib.sha256()
            with open(p, 'rb') as fh:
                while True:
                    b = fh.read(1 << 20)
                    if not b:
                        break
                    h.update(b)
            out[r] = h.hexdigest()
    return out


def build_shim(outdir):
    """Compile harness/mshim.c -> <outdir>/mshim.so.  Returns the path; raises build.BuildError."""
    src = os.path.join(build.VERIF, 'harness', 'mshim.c')
    so = os.path.join(outdir, 'mshim.so')
    r = subprocess.run(['gcc', '-O1', '-shared', '-fPIC', '-o', so, src, '-ldl'], capture_output=True, text=True)
    if r.returncode != 0 or not os.path.exists(so):
        raise build.BuildError('mshim.c failed to compile: ' + r.stderr[-2000:])
    # self-test: a shimmed /bin/true-like process must run, and the shim must really interpose
    t = run.run(['/bin/ls', outdir], env=dict(os.environ, LD_PRELOAD=so, MSHIM_SEED='3'), timeout=20)
    if t.rc != 0 or 'mshim.so' not in t.out:
        raise build.BuildError('mshim.so self-test failed: rc=%s %s' % (t.rc, t.err[-500:]))
    return so


def shipped_schemas():
    d = os.path.join(build.REPO, 'data')
    out = []
    for sub in sorted(os.listdir(d)):
        p = os.path.join(d, sub)
        if os.path.isdir(p):
            out += [os.path.join(p, f) for f in sorted(os.listdir(p)) if f.endswith('.exp')]
    return out


def unit_schemas():
    d = os.path.join(build.REPO, 'test', 'unitary_schemas')
    return [os.path.join(d, f) for f in sorted(os.listdir(d)) if f.endswith('.exp')]


def read_text(p):
    with open(p, 'rb') as f:
        return f.read().decode('latin-1')
