"""C17: systematic matrix of schema FILES with one, two and three schemas, varying how the FILE NAME relates to the
schema names.  The scanner derives each schema's directory / PROJECT (library) name from the shortest of
data/<dir> name, file name and schema name (makeShortName); for a file with several schemas every schema must still
get a directory and library of its own, with its own entity/type files listed in it.

Dimensions (all deterministic, the same under every seed):
  * number of schemas: 1, 2, 3;
  * schema name sets: equal length / one name a prefix of the other / unrelated names of different length /
    mixed-case spelling in the source / long names with a long common prefix;
  * declaration order in the file (2 orders for two schemas, 3 for three) - together with the different name sets this
    varies the order in which the schema dictionary is visited (the order actually observed is tagged by the check);
  * relation of the file name to the schema names: equal to schema i (every i; lower case, upper case), common prefix
    of the names, shorter than all, longer than all, unrelated of the same length as schema i, schema i plus a suffix,
    schema i plus a dotted suffix, file in data/<schema i>/ (the scanner prefers that directory name), file named after
    schema i in a long data/ directory;
  * relation between the schemas: independent / USE FROM of an entity used as attribute type / USE FROM of a
    supertype and an enumeration (the common 'main schema + support schema' layout), in both directions because the
    dictionary order decides whether exp2cxx can generate the importing schema in one pass (when it cannot, the open
    finding 'schema generated in several passes' is hit - same key every time - and the per-schema comparison is
    skipped for that schema only) / chain of three.
plus, per seed, random multi-schema files of vf/c17_gen.py whose file name is replaced by one of the relations above
(round-robin, so every seed covers every relation).
"""
import random
import re

from .c17_gen import GenFile, gen_file

NAME_SETS = {
    1: [('plant',), ('Widget_Model',)],
    2: [('plant_alpha', 'plant_gamma'),        # equal length
        ('plant', 'plant_support'),            # one name is a prefix of the other (file usually named after the short one)
        ('pump', 'valve_station'),             # unrelated, different length (the longer name is visited first)
        ('ship', 'ship_hull'),                 # prefix again, but here the shorter name is visited first
        ('Unit_Model', 'unit_bases'),          # mixed-case spelling in the source, equal length
        ('building_element_shared_model_a', 'building_element_shared_model_b')],   # long names that differ in the last character only
    3: [('core', 'core_geom', 'core_geom_topo'),
        ('support_resource_unit_aa', 'support_resource_unit_bb', 'support_resource_unit_cc')],   # equal length, long common prefix
}
ORDERS = {1: [(0,)], 2: [(0, 1), (1, 0)], 3: [(0, 1, 2), (2, 1, 0), (1, 2, 0)]}
IMPORTS = {1: ['indep'], 2: ['indep', 'use_entity', 'use_super_enum', 'use_super_enum_rev'], 3: ['indep', 'chain']}
# relations that get every import variant (the others rotate through the variants)
FULL = ('eq', 'eq_upper', 'datadir')
LONG = 'a_file_name_that_is_longer_than_every_schema_name_in_the_file'


def relations(n):
    rel = []
    for k in ('eq', 'eq_upper'):
        rel += [(k, i) for i in range(n)]
    rel += [('prefix', None), ('shorter', None), ('longer', None)]
    for k in ('samelen', 'ext', 'dots', 'datadir', 'datadir_file'):
        rel += [(k, i) for i in range(n)]
    return rel


def file_name(names, rel):
    """names: schema names as spelled in the source.  -> path of the schema file relative to the input directory."""
    k, i = rel
    low = [x.lower() for x in names]
    if k == 'eq':
        return low[i] + '.exp'
    if k == 'eq_upper':
        return low[i].upper() + '.exp'
    if k == 'prefix':
        p = low[0]
        for x in low[1:]:
            while not x.startswith(p):
                p = p[:-1]
        p = p.rstrip('_')
        if len(p) < 2 or p in low:
            p = low[0][:max(2, len(low[0]) // 2)]
        return p + '.exp'
    if k == 'shorter':
        return 'ms.exp'
    if k == 'longer':
        return LONG + '.exp'
    if k == 'samelen':
        return ('w' * len(low[i])) + '.exp'
    if k == 'ext':
        return low[i] + '_v2.exp'
    if k == 'dots':
        return low[i] + '.v2.exp'
    if k == 'datadir':
        return 'data/%s/%s.exp' % (low[i], LONG)
    if k == 'datadir_file':
        return 'data/%s/%s.exp' % (LONG, low[i])
    raise ValueError(rel)


def body(sname, p, clause='', sup=None, enum=None, ent=None):
    """One schema: defined simple type, enumeration, renamed enumeration (no file), select, aggregate type (no file),
    two or three entities.  p = identifier prefix (identifiers are unique over the file)."""
    kind = enum or '%s_kind2' % p
    L = ['SCHEMA %s;' % sname]
    if clause:
        L.append(clause)
    L += ['TYPE %s_label = STRING; END_TYPE;' % p,
          'TYPE %s_kind = ENUMERATION OF (%s_k1, %s_k2); END_TYPE;' % (p, p, p),
          'TYPE %s_kind2 = %s_kind; END_TYPE;' % (p, p),
          'TYPE %s_pick = SELECT (%s_thing, %s_other); END_TYPE;' % (p, p, p),
          'TYPE %s_names = LIST OF %s_label; END_TYPE;' % (p, p),
          'ENTITY %s_thing%s; n : %s_label; k : %s; END_ENTITY;' % (p, ' SUBTYPE OF (%s)' % sup if sup else '', p, kind),
          'ENTITY %s_other; s : OPTIONAL %s_pick; l : %s_names; END_ENTITY;' % (p, p, p)]
    if ent:
        L.append('ENTITY %s_user; r : %s; END_ENTITY;' % (p, ent))
    L.append('END_SCHEMA;')
    return '\n'.join(L) + '\n'


def blocks_for(names, imp):
    n = len(names)
    pf = 'abc'
    if imp == 'indep' or n == 1:
        return [body(names[i], pf[i]) for i in range(n)]
    if imp == 'use_entity':
        return [body(names[0], 'a'), body(names[1], 'b', 'USE FROM %s (a_other);' % names[0], ent='a_other')]
    if imp == 'use_super_enum':
        return [body(names[0], 'a'),
                body(names[1], 'b', 'USE FROM %s (a_other, a_kind);' % names[0], sup='a_other', enum='a_kind')]
    if imp == 'use_super_enum_rev':     # the first name of the set is the importing ('main') schema
        return [body(names[0], 'a', 'USE FROM %s (b_other, b_kind);' % names[1], sup='b_other', enum='b_kind'),
                body(names[1], 'b')]
    if imp == 'chain':
        return [body(names[0], 'a'), body(names[1], 'b', 'REFERENCE FROM %s (a_other);' % names[0], ent='a_other'),
                body(names[2], 'c', 'USE FROM %s (b_other);' % names[1], ent='b_other')]
    raise ValueError(imp)


def fixed_matrix():
    out = []
    for n in (1, 2, 3):
        for si, names in enumerate(NAME_SETS[n]):
            for oi, order in enumerate(ORDERS[n]):
                for ri, rel in enumerate(relations(n)):
                    if n == 1 and rel[0] in ('prefix', 'samelen'):
                        continue
                    imps = IMPORTS[n] if rel[0] in FULL else [IMPORTS[n][(ri + oi + si) % len(IMPORTS[n])]]
                    for imp in imps:
                        bl = blocks_for(names, imp)
                        bl = [bl[j] for j in order]
                        rname = rel[0] + ('' if rel[1] is None else str(rel[1]))
                        name = 'mm:%s/order%s/%s/%s' % ('+'.join(names), ''.join(map(str, order)), rname, imp)
                        tags = ['matrix', 'mm:n=%d' % n, 'mm:rel=' + rel[0], 'mm:schemas=' + imp]
                        if n > 1:
                            tags.append('multi_schema')
                        out.append(GenFile(name, file_name(names, rel), bl, tags))
    return out


def random_matrix(seed, count):
    """Random multi-schema files (content from c17_gen.gen_file) with the file name taken from the relation matrix."""
    out = []
    i = 0
    attempt = 0
    while len(out) < count and attempt < count * 20:
        rng = random.Random('c17multi/%d/%d' % (seed, attempt))
        attempt += 1
        g = gen_file(rng, 'r%d_%d' % (seed, attempt))
        if 'multi_schema' not in g.tags:
            continue
        names = [m.group(1) for b in g.blocks for m in re.finditer(r'(?m)^SCHEMA\s+(\w+)', b)]
        rels = relations(len(names))
        rel = rels[(i + seed) % len(rels)]
        i += 1
        rname = rel[0] + ('' if rel[1] is None else str(rel[1]))
        g.name = 'mr:%s/%s' % (g.name, rname)
        g.fname = file_name(names, rel)
        g.tags |= set(['matrix_random', 'mm:n=%d' % len(names), 'mm:rel=' + rel[0]])
        out.append(g)
    return out


# ---------------------------------------------------------------------------------------------- one schema, generation order
def rename_order_matrix():
    """ONE schema whose select reaches a renamed enumeration / renamed select (directly, or through an explicit, derived,
    inherited or aggregate attribute of an item entity).  exp2cxx decides per declaration whether it can be generated in
    the current pass while walking the schema dictionary, so the three type names are permuted over a small pool to
    vary the order in which select, rename and renamed type are met.  A schema of a single-schema file never has to wait
    for anything: the scanner's Sdai<S>.h/.cc and unity names must be what is written."""
    import itertools
    pool = ['colour', 'tint', 'pick', 'finish']
    shapes = ['explicit', 'derived', 'inherited', 'aggregate', 'direct', 'renamed_select']
    out = []
    for en, rn, sel in itertools.permutations(pool, 3):
        for shape in shapes:
            L = ['SCHEMA paint_shop;', 'TYPE %s = ENUMERATION OF (red, green, blue); END_TYPE;' % en, 'TYPE %s = %s; END_TYPE;' % (rn, en)]
            items = 'coating, primer'
            if shape == 'explicit':
                L.append('ENTITY coating; name : STRING; shade : %s; END_ENTITY;' % rn)
            elif shape == 'derived':
                L.append('ENTITY coating; name : STRING;\nDERIVE shade : %s := red;\nEND_ENTITY;' % rn)
            elif shape == 'inherited':
                L.append('ENTITY base_coat; shade : %s; END_ENTITY;' % rn)
                L.append('ENTITY coating SUBTYPE OF (base_coat); name : STRING; END_ENTITY;')
            elif shape == 'aggregate':
                L.append('ENTITY coating; name : STRING; shades : LIST [1:?] OF %s; END_ENTITY;' % rn)
            elif shape == 'direct':
                L.append('ENTITY coating; name : STRING; END_ENTITY;')
                items = 'coating, primer, %s' % rn
            elif shape == 'renamed_select':
                L.append('TYPE inner_choice = SELECT (primer); END_TYPE;')
                L.append('TYPE outer_choice = inner_choice; END_TYPE;')
                L.append('ENTITY coating; name : STRING; shade : %s; alt : outer_choice; END_ENTITY;' % rn)
            L += ['ENTITY primer; thickness : REAL; END_ENTITY;', 'TYPE %s = SELECT (%s); END_TYPE;' % (sel, items),
                  'ENTITY panel; surface : %s; END_ENTITY;' % sel, 'END_SCHEMA;']
            out.append(GenFile('ro:%s/enum=%s,rename=%s,select=%s' % (shape, en, rn, sel), 'paint_shop.exp', ['\n'.join(L) + '\n'],
                               ['rename_order', 'ro:' + shape, 'single_schema']))
    return out
