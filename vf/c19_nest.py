"""C19 - containers whose declared base type is itself an aggregate: type families, element mutants, fixed matrix.

Type descriptors are those of vf/c19_ref.py: a simple type name or (kind, b1, b2, T).  "Depth" is the number of aggregate
levels of the BASE type, so a container with a base of depth d is nested d+1 levels in total (2, 3, 4 for d = 1, 2, 3).

Only shapes the real runtime can FILL are produced for the inner levels (harness/c19_nest.py stores one element along the
first position): inner LIST levels have bound_1 <= 1 and inner LIST/BAG/SET levels an upper bound >= 1 or indeterminate -
a LIST [2:..] cannot be written at position 1 (open C19 finding about bound_1 used as lowest index).
"""
import itertools
import os

from . import c19_ref as R

HERE = os.path.dirname(os.path.dirname(os.path.abspath(__file__)))

# two bound families per kind: A is the one of EXPRESS defaults, B bounded / shifted
BOUNDS_A = {'ARRAY': (1, 2), 'LIST': (0, None), 'BAG': (0, None), 'SET': (0, None)}
BOUNDS_B = {'ARRAY': (-1, 0), 'LIST': (1, 3), 'BAG': (1, 2), 'SET': (0, 4)}
POOL = {'ARRAY': [(1, 2), (0, 1), (-1, 1), (2, 3), (1, 1)], 'LIST': [(0, None), (1, None), (0, 3), (1, 2)],
        'BAG': [(0, None), (1, None), (0, 2), (1, 3)], 'SET': [(0, None), (1, None), (0, 2), (2, 3)]}
WRONG_SIMPLE = {'INTEGER': ['REAL', 'STRING'], 'REAL': ['STRING'], 'STRING': ['INTEGER', 'REAL']}


def build(kinds, bounds, simple):
    """kinds/bounds listed from the outermost level inwards."""
    t = simple
    for k, (b1, b2) in reversed(list(zip(kinds, bounds))):
        t = (k, b1, b2, t)
    return t


def levels(t):
    """-> ([(kind, b1, b2) outermost first], innermost simple type)."""
    out = []
    while R.is_agg(t):
        out.append((t[0], t[1], t[2]))
        t = t[3]
    return out, t


def rebuild(lv, simple):
    return build([x[0] for x in lv], [(x[1], x[2]) for x in lv], simple)


def base_types():
    """Fixed family of declared base types, depth 1..3: every combination of kinds with the bounds of family A; with
    the bounds of family B every combination for depth 1 and 2 and every 4th for depth 3; innermost simple type cycles."""
    out = []
    n = 0
    for d in (1, 2, 3):
        for kinds in itertools.product(R.KINDS, repeat=d):
            out.append(build(kinds, [BOUNDS_A[k] for k in kinds], R.BASES[n % 3]))
            n += 1
    m = 0
    for d in (1, 2, 3):
        for kinds in itertools.product(R.KINDS, repeat=d):
            m += 1
            if d == 3 and m % 4:
                continue
            # mixed: alternate the two bound families over the levels so both meet every kind at every level
            bs = [(BOUNDS_B if (i + m) % 2 == 0 or d == 1 else BOUNDS_A)[k] for i, k in enumerate(kinds)]
            out.append(build(kinds, bs, R.BASES[(n + 1) % 3]))
            n += 1
    return out


def mutants(t):
    """-> [(label, T')] every single-site change of aggregate type t (depth >= 1), one site at a time:
    kind at each level (3 alternatives), bounds at each level (2 for ARRAY - part of the type; 1 for LIST/BAG/SET - not
    judged), innermost simple type, nesting depth (one level peeled, one level wrapped, a bare simple value is handled by
    the caller)."""
    lv, s = levels(t)
    out = []
    for j, (k, b1, b2) in enumerate(lv):
        for k2 in R.KINDS:
            if k2 != k:
                lv2 = list(lv)
                lv2[j] = (k2,) + BOUNDS_A[k2]
                out.append(('kind at level %d' % (j + 1), rebuild(lv2, s)))
        if k == 'ARRAY':
            alts = [(b1, b2 + 1), (b1 - 1, b2)]
        else:
            alts = [(b1, 5 if b2 is None else b2 + 1)]
        for a in alts:
            lv2 = list(lv)
            lv2[j] = (k,) + a
            out.append(('%s bounds at level %d' % ('ARRAY' if k == 'ARRAY' else 'LIST/BAG/SET', j + 1), rebuild(lv2, s)))
    for s2 in WRONG_SIMPLE[s]:
        out.append(('innermost simple type', rebuild(lv, s2)))
    if s == 'REAL':
        out.append(('INTEGER for REAL (not judged)', rebuild(lv, 'INTEGER')))
    if len(lv) >= 2:
        out.append(('one level less (outer peeled)', rebuild(lv[1:], s)))
        out.append(('one level less (innermost peeled)', rebuild(lv[:-1], s)))
    out.append(('one level more (wrapped)', rebuild([lv[0]] + lv, s)))
    out.append(('one level more (innermost wrapped)', rebuild(lv + [('LIST', 0, None)], s)))
    return out


CONTAINERS = {
    'ARRAY': [dict(b1=1, b2=3, unique=False, optional=False), dict(b1=0, b2=2, unique=True, optional=True)],
    'LIST': [dict(b1=1, b2=None, unique=False, optional=False), dict(b1=0, b2=3, unique=True, optional=False)],
    'BAG': [dict(b1=0, b2=None, unique=False, optional=False), dict(b1=1, b2=4, unique=False, optional=False)],
    'SET': [dict(b1=0, b2=None, unique=False, optional=False), dict(b1=1, b2=4, unique=False, optional=False)],
}


def container(kind, variant, base):
    v = CONTAINERS[kind][variant % 2]
    return R.Cfg(kind, v['b1'], v['b2'], v['unique'], v['optional'], base)


def _norm(op):
    if op[0] == 'set':
        return ('set', op[1], R.val(op[2]))
    if op[0] == 'add':
        return ('add', R.val(op[1]))
    return tuple(op)


def sequence(c, cand, place):
    """Fixed operation sequence around one candidate element `cand` (a VAL): a good element first, the candidate at the
    next position ('next') or over the good one ('over'), reads, another good element where the model knows the next
    free position, a re-use of the first good element (duplicate for UNIQUE/SET), reads and all queries."""
    good1 = [c.base, 1, 'shared'] if R.is_agg(c.base) else None
    good3 = [c.base, 3, 'shared'] if R.is_agg(c.base) else None
    if good1 is None:
        sv = {'INTEGER': 7, 'REAL': 7.5, 'STRING': 'g'}[c.base]
        good1, good3 = [c.base, sv], [c.base, {'INTEGER': 9, 'REAL': 9.5, 'STRING': 'h'}[c.base]]
    qs = [['q', q] for q in R.QUERIES]
    if c.kind in ('BAG', 'SET'):
        return [['add', good1], ['add', cand], ['q', 'get_size'], ['add', good3], ['add', good1]] + qs
    first = c.b1 if c.kind == 'ARRAY' else 1
    at = first + 1 if place == 'next' else first
    ops = [['set', first, good1], ['set', at, cand], ['get', first], ['get', first + 1], ['q', 'get_size']]
    if c.kind == 'ARRAY':
        nxt = first + 2
    else:
        st = R.apply(c, R.initial(c), _norm(ops[0]))
        e = R.judge(c, st, _norm(ops[1]))
        nxt = None if e.verdict == 'either' else (first + 2 if (e.verdict == 'accept' and place == 'next') else first + 1)
    if nxt is not None:
        ops += [['set', nxt, good3], ['get', nxt]]
        if c.unique:
            ops += [['set', nxt, good1]]            # held at `first` unless overwritten: the model decides
    return ops + [['get', first], ['get', first + 1]] + qs


def matrix():
    """-> [(cfg, label, mode, place, ops)] the fixed, seed independent matrix of part C."""
    out = []
    for n, t in enumerate(base_types()):
        lv, s = levels(t)
        cands = [('same type', t, 'shared'), ('same type', t, 'separate')]
        cands += [(lab, t2, 'shared') for lab, t2 in mutants(t)]
        # the kind mutants once more with nothing shared (what a caller who builds the wrong type from scratch passes)
        cands += [(lab, t2, 'separate') for lab, t2 in mutants(t) if lab.startswith('kind at level')]
        for kind in R.KINDS:
            c = container(kind, n, t)
            places = ('next', 'over') if kind in ('ARRAY', 'LIST') else ('next',)
            for lab, t2, mode in cands:
                for place in places:
                    out.append((c, lab, mode, place, sequence(c, [t2, 2, mode], place)))
            sv = {'INTEGER': 5, 'REAL': 5.5, 'STRING': 's'}[s]
            out.append((c, 'bare simple value', '-', 'next', sequence(c, [s, sv], 'next')))
    # simple base type, aggregate-valued candidates
    for n, s in enumerate(R.BASES):
        for kind in R.KINDS:
            c = container(kind, n, s)
            for k2 in R.KINDS:
                t2 = build([k2], [BOUNDS_A[k2]], s)
                out.append((c, 'aggregate into simple base', 'separate', 'next', sequence(c, [t2, 2, 'separate'], 'next')))
            t3 = build(['ARRAY', 'LIST'], [(1, 2), (0, None)], s)
            out.append((c, 'aggregate into simple base', 'separate', 'next', sequence(c, [t3, 2, 'separate'], 'next')))
    return out


# ------------------------------------------------------------------------------------------- random nested configurations
def random_base(rng):
    d = rng.choice((1, 1, 2, 2, 3))
    kinds = [rng.choice(R.KINDS) for _ in range(d)]
    return build(kinds, [rng.choice(POOL[k]) for k in kinds], rng.choice(R.BASES))


def random_element(c, rng, ctx, wrong):
    """-> VAL for a container with an aggregate base type.  ctx = dict(next=token counter, used=[VAL...])."""
    if ctx['used'] and rng.random() < .12:
        return rng.choice(ctx['used'])            # the same object again
    tok = ctx['next']
    ctx['next'] += 1
    if wrong:
        if rng.random() < .1:
            s = R.innermost(c.base)
            v = [s, {'INTEGER': tok, 'REAL': tok + .5, 'STRING': 'w%d' % tok}[s]]
            return v
        lab, t2 = rng.choice(mutants(c.base))
        v = [t2, tok, 'shared' if rng.random() < .7 else 'separate']
    else:
        v = [c.base, tok, 'shared' if rng.random() < .75 else 'separate']
    ctx['used'].append(v)
    return v


# ------------------------------------------------------------------------------------------------------- replay script
def builder_source():
    with open(os.path.join(HERE, 'harness', 'c19_nest.py')) as f:
        return f.read()


def unt(t):
    """descriptor -> plain nested lists (python literal for the repro script)."""
    return t if isinstance(t, str) else [t[0], t[1], t[2], unt(t[3])]
