"""C07 grammar-directed generator of valid EXPRESS, printed from a structured model (the model is ground truth).

The model of a declaration is the same nested-tuple tree vf/c07_ref.py produces when it reads the text back, so
`c07_ref.parse(text)[key].ast == model` is the self-test of generator + reference reader on every generated schema.

An *item* is one construct under test (its `kind`) together with the declarations it needs (its host entity /
function / ...).  A schema is a bag of items; a failure is attributed by removing items while it persists.

MASK: kinds with an open known finding are left out of the randomized schemas (see c07.py: the mask is the set of
kinds named by open findings) and are exercised by probe_schema(kind), a fixed schema that depends on the kind only.
"""
import random

# ------------------------------------------------------------------ tree helpers
INT = ('simple', 'integer')
BOOL = ('simple', 'boolean')
LOG = ('simple', 'logical')
NUM = ('simple', 'number')
REAL = ('realt', None)
STR = ('stringt', None, False)
BINT = ('binaryt', None, False)


def AGG(kind, base, lo=None, hi=None, opt=False, uniq=False):
    return ('aggr', kind, lo, hi, opt, uniq, base)


LIST_INT = AGG('list', INT)
LIST_REAL = AGG('list', REAL)
LIST_STR = AGG('list', STR)


def I(n):
    return ('int', n)


def RL(x):
    return ('real', float(x))


def S(s):
    return ('str', s)


def V(n):
    return ('id', n)


def OP(o, l, r):
    return ('op', o, l, r)


def UN(o, x):
    return ('un', o, x)


def CALL(n, *a):
    return ('call', n, tuple(a))


def NAMED(n):
    return ('named', n)


TRUE, FALSE, UNKNOWN, SELF, INDET = V('true'), V('false'), V('unknown'), V('self'), ('indet',)

PREC = {}
for _o in ('<', '>', '<=', '>=', '<>', '=', ':<>:', ':=:', 'in', 'like'):
    PREC[_o] = 1
for _o in ('+', '-', 'or', 'xor'):
    PREC[_o] = 2
for _o in ('*', '/', 'div', 'mod', 'and', '||'):
    PREC[_o] = 3
PREC['**'] = 4

KEYWORDS_OPS = ('in', 'like', 'or', 'xor', 'div', 'mod', 'and', 'not', 'andor')


# ------------------------------------------------------------------ text emitter
class Style(object):
    """Lay-out decisions of the source text; none of them may change the model."""

    def __init__(self, rnd=None, plain=False):
        self.rnd = rnd or random.Random(0)
        self.plain = plain
        r = self.rnd
        self.kwcase = 'upper' if plain else r.choice(['upper', 'upper', 'lower', 'mixed'])
        self.idupper = 0.0 if plain else r.choice([0.0, 0.0, 0.3])
        self.paren = 0.0 if plain else r.choice([0.0, 0.1, 0.3])
        self.glue = 0.0 if plain else r.choice([0.0, 0.3, 0.8])
        self.remark = 0.0 if plain else r.choice([0.0, 0.02, 0.06])
        self.brk = 0.0 if plain else r.choice([0.0, 0.03, 0.1])
        self.group = 0.0 if plain else r.choice([0.0, 0.5, 1.0])
        self.tail = False if plain else r.random() < 0.5
        self.realstyle = 0 if plain else r.randrange(3)

    def kw(self, w):
        if self.kwcase == 'upper':
            return w.upper()
        if self.kwcase == 'lower':
            return w.lower()
        return ''.join(c.upper() if self.rnd.random() < 0.5 else c.lower() for c in w)

    def ident(self, w):
        if self.idupper and self.rnd.random() < self.idupper:
            return w.upper()
        return w


BUILTIN_UP = set('''abs acos asin atan blength cos exists exp format hibound hiindex length lobound log log2 log10
loindex nvl odd rolesof sin sizeof sqrt tan typeof usedin value value_in value_unique insert remove
true false unknown self pi const_e'''.split())

NL = '\n'
IND, DED = '\x01', '\x02'     # layout marks inside the token stream


class Emitter(object):
    def __init__(self, style):
        self.st = style
        self.t = []

    # --- primitives
    def k(self, *ws):
        for w in ws:
            self.t.append(self.st.kw(w))

    def o(self, *ws):
        self.t.extend(ws)

    def name(self, n):
        if n in BUILTIN_UP:
            self.t.append(self.st.kw(n))
        else:
            self.t.append(self.st.ident(n))

    def nl(self):
        self.t.append(NL)

    # --- literals
    def real_text(self, x):
        r = repr(float(x))
        if 'e' in r or 'E' in r:
            m, e = r.lower().split('e')
            if '.' not in m:
                m += '.0'
            e = e.lstrip('+')
            r = m + ('E' if self.st.realstyle != 1 else 'e') + e
        elif self.st.realstyle == 2 and r.endswith('.0') and abs(x) < 1e15:
            r = r[:-1]                      # `5.` is a legal real literal
        if 'inf' in r or 'nan' in r:
            raise ValueError(x)
        return r

    def literal(self, e):
        k = e[0]
        if k == 'int':
            self.o(str(e[1]))
        elif k == 'real':
            self.o(self.real_text(e[1]))
        elif k == 'str':
            self.o("'" + e[1].replace("'", "''") + "'")
        elif k == 'estr':
            self.o('"' + e[1] + '"')
        elif k == 'binlit':
            self.o('%' + e[1])
        elif k == 'indet':
            self.o('?')
        else:
            raise ValueError(e)

    # --- expressions: minimal parentheses by ISO 10303-11 precedence, plus optional redundant ones
    def expr(self, e, need=0, force=False):
        """need: minimal precedence level the context accepts without parentheses"""
        k = e[0]
        if k == 'op':
            p = PREC[e[1]]
            par = p < need or force or (self.st.paren and self.st.rnd.random() < self.st.paren)
            if par:
                self.o('(')
            if p == 1:
                self.expr(e[2], 2)
                self.opname(e[1])
                self.expr(e[3], 2)
            elif p == 4:
                self.expr(e[2], 5)
                self.opname(e[1])
                self.expr(e[3], 5)
            else:
                self.expr(e[2], p)
                self.opname(e[1])
                self.expr(e[3], p + 1)
            if par:
                self.o(')')
            return
        if k == 'un':
            par = need > 5 or force
            if par:
                self.o('(')
            if e[1] == 'not':
                self.k('not')
            else:
                self.o('u' + e[1])
            self.expr(e[2], 6)
            if par:
                self.o(')')
            return
        par = bool(self.st.paren and self.st.rnd.random() < self.st.paren / 3 and need <= 5 and k != 'indet')
        if par:
            self.o('(')
        if k in ('int', 'real', 'str', 'estr', 'binlit', 'indet'):
            self.literal(e)
        elif k == 'id':
            self.name(e[1])
        elif k == 'call':
            self.name(e[1])
            self.o('(')
            for i, a in enumerate(e[2]):
                if i:
                    self.o(',')
                self.expr(a)
            self.o(')')
        elif k == 'agg':
            self.o('[')
            for i, (a, rep) in enumerate(e[1]):
                if i:
                    self.o(',')
                self.expr(a)
                if rep is not None:
                    self.o(':')
                    self.expr(rep)
            self.o(']')
        elif k == 'interval':
            self.o('{')
            self.expr(e[1], 2)
            self.opname(e[2])
            self.expr(e[3], 2)
            self.opname(e[4])
            self.expr(e[5], 2)
            self.o('}')
        elif k == 'query':
            self.k('query')
            self.o('(')
            self.name(e[1])
            self.o('<*')
            self.expr(e[2], 2)
            self.o('|')
            self.expr(e[3])
            self.o(')')
        elif k in ('attr', 'group'):
            self.expr(e[1], 6)
            self.o('.' if k == 'attr' else '\\')
            self.name(e[2])
        elif k == 'index':
            self.expr(e[1], 6)
            self.o('[')
            self.expr(e[2], 2)
            self.o(']')
        elif k == 'range':
            self.expr(e[1], 6)
            self.o('[')
            self.expr(e[2], 2)
            self.o(':')
            self.expr(e[3], 2)
            self.o(']')
        elif k == 'oneof':
            self.k('oneof')
            self.o('(')
            for i, a in enumerate(e[1]):
                if i:
                    self.o(',')
                self.superexpr(a)
            self.o(')')
        else:
            raise ValueError(e)
        if par:
            self.o(')')

    def opname(self, o):
        if o in KEYWORDS_OPS:
            self.k(o)
        else:
            self.o(o)

    def superexpr(self, e, need=0):
        if e[0] == 'op':
            p = 1 if e[1] == 'andor' else 2
            par = p < need
            if par:
                self.o('(')
            self.superexpr(e[2], p)
            self.k(e[1])
            self.superexpr(e[3], p + 1)
            if par:
                self.o(')')
        else:
            self.expr(e)

    # --- types
    def type_(self, t):
        k = t[0]
        if k == 'simple':
            self.k(t[1])
        elif k == 'realt':
            self.k('real')
            if t[1] is not None:
                self.o('(')
                self.expr(t[1], 2)
                self.o(')')
        elif k in ('stringt', 'binaryt'):
            self.k(k[:-1])
            if t[1] is not None:
                self.o('(')
                self.expr(t[1], 2)
                self.o(')')
            if t[2]:
                self.k('fixed')
        elif k == 'named':
            self.name(t[1])
        elif k == 'aggr':
            self.k(t[1])
            if t[2] is not None:
                self.o('[')
                self.expr(t[2], 2)
                self.o(':')
                self.expr(t[3], 2)
                self.o(']')
            self.k('of')
            if t[4]:
                self.k('optional')
            if t[5]:
                self.k('unique')
            self.type_(t[6])
        elif k == 'aggregate':
            self.k('aggregate')
            if t[1]:
                self.o(':')
                self.name(t[1])
            self.k('of')
            self.type_(t[2])
        elif k == 'generic':
            self.k('generic')
            if t[1]:
                self.o(':')
                self.name(t[1])
        elif k in ('enum', 'select'):
            if k == 'enum':
                self.k('enumeration', 'of')
            else:
                self.k('select')
            self.o('(')
            for i, n in enumerate(t[1]):
                if i:
                    self.o(',')
                self.name(n)
            self.o(')')
        else:
            raise ValueError(t)

    # --- statements
    def stmts(self, ss):
        self.t.append(IND)
        for s in ss:
            self.stmt(s)
        self.t.append(DED)

    def stmt(self, s):
        k = s[0]
        if k == 'null':
            self.o(';')
        elif k == 'assign':
            self.expr(s[1], 6)
            self.o(':=')
            self.expr(s[2])
            self.o(';')
        elif k == 'if':
            self.k('if')
            self.expr(s[1])
            self.k('then')
            self.nl()
            self.stmts(s[2])
            if s[3]:
                self.k('else')
                self.nl()
                self.stmts(s[3])
            self.k('end_if')
            self.o(';')
        elif k == 'case':
            self.k('case')
            self.expr(s[1])
            self.k('of')
            self.nl()
            self.t.append(IND)
            for labels, act in s[2]:
                for i, l in enumerate(labels):
                    if i:
                        self.o(',')
                    self.expr(l)
                self.o(':')
                self.stmt(act)
            if s[3] is not None:
                self.k('otherwise')
                self.o(':')
                self.stmt(s[3])
            self.t.append(DED)
            self.k('end_case')
            self.o(';')
        elif k == 'repeat':
            self.k('repeat')
            if s[1] is not None:
                var, a, b, by = s[1]
                self.name(var)
                self.o(':=')
                self.expr(a, 2)
                self.k('to')
                self.expr(b, 2)
                if by != ('int', 1) or self.st.rnd.random() < 0.3:
                    self.k('by')
                    self.expr(by, 2)
            if s[2] is not None:
                self.k('while')
                self.expr(s[2])
            if s[3] is not None:
                self.k('until')
                self.expr(s[3])
            self.o(';')
            self.nl()
            self.stmts(s[4])
            self.k('end_repeat')
            self.o(';')
        elif k == 'alias':
            self.k('alias')
            self.name(s[1])
            self.k('for')
            self.expr(s[2], 6)
            self.o(';')
            self.nl()
            self.stmts(s[3])
            self.k('end_alias')
            self.o(';')
        elif k == 'compound':
            self.k('begin')
            self.nl()
            self.stmts(s[1])
            self.k('end')
            self.o(';')
        elif k == 'escape':
            self.k('escape')
            self.o(';')
        elif k == 'skip':
            self.k('skip')
            self.o(';')
        elif k == 'return':
            self.k('return')
            if s[1] is not None:
                self.o('(')
                self.expr(s[1])
                self.o(')')
            self.o(';')
        elif k == 'pcall':
            self.name(s[1])
            if s[2]:
                self.o('(')
                for i, a in enumerate(s[2]):
                    if i:
                        self.o(',')
                    self.expr(a)
                self.o(')')
            self.o(';')
        else:
            raise ValueError(s)
        self.nl()

    # --- declarations
    def grouped(self, entries, same):
        """yield runs of adjacent entries that may share one `a, b : T` clause"""
        i = 0
        while i < len(entries):
            j = i + 1
            while j < len(entries) and same(entries[i], entries[j]) and self.st.rnd.random() < self.st.group:
                j += 1
            yield entries[i:j]
            i = j

    def wheres(self, wh):
        if not wh:
            return
        self.k('where')
        self.nl()
        self.t.append(IND)
        for label, e in wh:
            if label:
                self.name(label)
                self.o(':')
            self.expr(e)
            self.o(';')
            self.nl()
        self.t.append(DED)

    def tail(self, name):
        if self.st.tail:
            self.t.append('-- ' + name)
        self.nl()

    def decl(self, d, nested=None):
        """d: declaration tree; nested: {path: [decl trees]} for algorithm-local declarations"""
        k = d[0]
        if k == 'type':
            self.k('type')
            self.name(d[1])
            self.o('=')
            self.type_(d[2])
            self.o(';')
            self.nl()
            self.wheres(d[3])
            self.k('end_type')
            self.o(';')
            self.tail(d[1])
        elif k == 'entity':
            _, name, abstract, sup, subs, attrs, derive, inverse, unique, wh = d
            self.k('entity')
            self.name(name)
            if abstract:
                self.k('abstract', 'supertype')
                if sup is not None:
                    self.k('of')
                    self.o('(')
                    self.superexpr(sup)
                    self.o(')')
            elif sup is not None:
                self.k('supertype', 'of')
                self.o('(')
                self.superexpr(sup)
                self.o(')')
            if subs:
                self.k('subtype', 'of')
                self.o('(')
                for i, n in enumerate(subs):
                    if i:
                        self.o(',')
                    self.name(n)
                self.o(')')
            self.o(';')
            self.nl()
            self.t.append(IND)
            for run in self.grouped(list(attrs), lambda a, b: a[1:] == b[1:]):
                for i, a in enumerate(run):
                    if i:
                        self.o(',')
                    self.expr(a[0], 6)
                self.o(':')
                if run[0][1]:
                    self.k('optional')
                self.type_(run[0][2])
                self.o(';')
                self.nl()
            self.t.append(DED)
            if derive:
                self.k('derive')
                self.nl()
                self.t.append(IND)
                for r, ty, e in derive:
                    self.expr(r, 6)
                    self.o(':')
                    self.type_(ty)
                    self.o(':=')
                    self.expr(e)
                    self.o(';')
                    self.nl()
                self.t.append(DED)
            if inverse:
                self.k('inverse')
                self.nl()
                self.t.append(IND)
                for r, ty, fa in inverse:
                    self.expr(r, 6)
                    self.o(':')
                    self.type_(ty)
                    self.k('for')
                    self.name(fa)
                    self.o(';')
                    self.nl()
                self.t.append(DED)
            if unique:
                self.k('unique')
                self.nl()
                self.t.append(IND)
                for label, refs in unique:
                    if label:
                        self.name(label)
                        self.o(':')
                    for i, r in enumerate(refs):
                        if i:
                            self.o(',')
                        self.expr(r, 6)
                    self.o(';')
                    self.nl()
                self.t.append(DED)
            self.wheres(wh)
            self.k('end_entity')
            self.o(';')
            self.tail(name)
        elif k in ('function', 'procedure'):
            _, name, params, ret, loc, body = d
            self.k(k)
            self.name(name)
            if params:
                self.o('(')
                first = True
                for run in self.grouped(list(params), lambda a, b: a[0] == b[0] and a[2] == b[2]):
                    if not first:
                        self.o(';')
                    first = False
                    if run[0][0]:
                        self.k('var')
                    for i, a in enumerate(run):
                        if i:
                            self.o(',')
                        self.name(a[1])
                    self.o(':')
                    self.type_(run[0][2])
                self.o(')')
            if k == 'function':
                self.o(':')
                self.type_(ret)
            self.o(';')
            self.nl()
            self.alg_head(d, loc, nested)
            self.stmts(body)
            self.k('end_' + k)
            self.o(';')
            self.tail(name)
        elif k == 'rule':
            _, name, ents, loc, body, wh = d
            self.k('rule')
            self.name(name)
            self.k('for')
            self.o('(')
            for i, n in enumerate(ents):
                if i:
                    self.o(',')
                self.name(n)
            self.o(')')
            self.o(';')
            self.nl()
            self.alg_head(d, loc, nested)
            self.stmts(body)
            self.wheres(wh)
            self.k('end_rule')
            self.o(';')
            self.tail(name)
        else:
            raise ValueError(d)

    def alg_head(self, d, loc, nested):
        inner = (nested or {}).get(d[1], ())
        consts = [x for x in inner if x[0] == 'constant']
        for x in inner:
            if x[0] != 'constant':
                self.t.append(IND)
                self.decl(x, None)
                self.t.append(DED)
        if consts:
            self.constants(consts)
        if loc:
            self.k('local')
            self.nl()
            self.t.append(IND)
            for run in self.grouped(list(loc), lambda a, b: a[1] == b[1] and a[2] is None and b[2] is None):
                for i, a in enumerate(run):
                    if i:
                        self.o(',')
                    self.name(a[0])
                self.o(':')
                self.type_(run[0][1])
                if run[0][2] is not None:
                    self.o(':=')
                    self.expr(run[0][2])
                self.o(';')
                self.nl()
            self.t.append(DED)
            self.k('end_local')
            self.o(';')
            self.nl()

    def constants(self, cs):
        self.k('constant')
        self.nl()
        self.t.append(IND)
        for _, name, ty, e in cs:
            self.name(name)
            self.o(':')
            self.type_(ty)
            self.o(':=')
            self.expr(e)
            self.o(';')
            self.nl()
        self.t.append(DED)
        self.k('end_constant')
        self.o(';')
        self.nl()

    def interface(self, d):
        kind, sch, items = d
        self.k(kind, 'from')
        self.name(sch)
        if items != (('*', None),):
            self.o('(')
            for i, (n, alias) in enumerate(items):
                if i:
                    self.o(',')
                self.name(n)
                if alias:
                    self.k('as')
                    self.name(alias)
            self.o(')')
        self.o(';')
        self.nl()

    # --- layout
    def text(self):
        st = self.st
        r = st.rnd
        out = []
        ind = 0
        bol = True
        prev = None
        prev_unary = False
        for tok in self.t:
            if tok == IND:
                ind += 1
                continue
            if tok == DED:
                ind -= 1
                continue
            if tok == NL:
                if not bol:
                    out.append('\n')
                    bol = True
                    prev = None
                continue
            unary = False
            if tok in ('u+', 'u-'):
                tok = tok[1]
                unary = True
            if bol:
                out.append('  ' * max(ind, 0))
                bol = False
            elif prev is not None:
                if st.brk and r.random() < st.brk:
                    out.append('\n' + '  ' * (max(ind, 0) + 2))
                elif _may_glue(prev, tok) and (prev_unary or (st.glue and r.random() < st.glue)):
                    pass
                else:
                    out.append(' ')
            if st.remark and r.random() < st.remark and not tok.startswith('--'):
                out.append(r.choice(['(* r *) ', '(* a (* nested *) remark; END_ENTITY; *) ', "(* it's *) ",
                                     '(**) ', '-- tail remark; \'\n' + '  ' * max(ind, 0)]))
            out.append(tok)
            prev = tok
            prev_unary = unary
            if tok.startswith('--'):
                out.append('\n')
                bol = True
                prev = None
        return ''.join(out)


def _wordy(c):
    return c.isalnum() or c == '_'


def _may_glue(a, b):
    """True when token texts a,b may be written without white space between them and still scan as a then b."""
    if a.startswith('--') or b.startswith('--') or b.startswith('(*'):
        return False
    x, y = a[-1], b[0]
    if _wordy(x) and _wordy(y):
        return False
    if _wordy(x) == _wordy(y):          # punctuation next to punctuation: only a few safe pairs
        return (x in ')]' and y in ')],;.[\\:') or (x in '([' and y in '([')
    if x.isdigit() and y == '.' or x == '.' and y.isdigit():
        return False
    if x == "'" or y == "'" or x == '"' or y == '"':
        return (y in ',;)]') or (x in '([,')
    if x == '%' or y == '%':
        return x in '([,'
    if x == '\\' or y == '\\':
        return True
    if a[0].isdigit() and y == '.':
        return False
    if y == '*' or x == '*' or y == '-' or x == '-' or x == '(' and y == '*':
        return False
    if x in '<>:=|' or y in '<>:=|':
        return _wordy(y) and x in ':=' and a in (':=', ':') or (_wordy(x) and b in (':=', ':'))
    return True
