"""C07 grammar-directed generator of valid EXPRESS, printed from a structured model (the model is ground truth).

The model of a declaration is the same nested-tuple tree vf/c07_ref.py produces when it reads the text back, so
`c07_ref.parse(text)[key].ast == model` is the self-test of generator + reference reader on every generated schema.

An *item* is one construct under test (its `kind`) together with the declarations it needs (its host entity /
function / ...).  A schema is a bag of items; a failure is attributed by removing items while it persists.

MASK: kinds with an open known finding are left out of the randomized schemas (see c07.py: the mask is the set of
kinds named by open findings) and are exercised by probe_schema(kind), a fixed schema that depends on the kind only.
"""
import random

# ------------------------------------------------------------------ tree helpers
INT = ('simple', 'integer')
BOOL = ('simple', 'boolean')
LOG = ('simple', 'logical')
NUM = ('simple', 'number')
REAL = ('realt', None)
STR = ('stringt', None, False)
BINT = ('binaryt', None, False)


def AGG(kind, base, lo=None, hi=None, opt=False, uniq=False):
    return ('aggr', kind, lo, hi, opt, uniq, base)


LIST_INT = AGG('list', INT)
LIST_REAL = AGG('list', REAL)
LIST_STR = AGG('list', STR)


def I(n):
    return ('int', n)


def RL(x):
    return ('real', float(x))


def S(s):
    return ('str', s)


def V(n):
    return ('id', n)


def OP(o, l, r):
    return ('op', o, l, r)


def UN(o, x):
    return ('un', o, x)


def CALL(n, *a):
    return ('call', n, tuple(a))


def NAMED(n):
    return ('named', n)


TRUE, FALSE, UNKNOWN, SELF, INDET = V('true'), V('false'), V('unknown'), V('self'), ('indet',)

PREC = {}
for _o in ('<', '>', '<=', '>=', '<>', '=', ':<>:', ':=:', 'in', 'like'):
    PREC[_o] = 1
for _o in ('+', '-', 'or', 'xor'):
    PREC[_o] = 2
for _o in ('*', '/', 'div', 'mod', 'and', '||'):
    PREC[_o] = 3
PREC['**'] = 4

KEYWORDS_OPS = ('in', 'like', 'or', 'xor', 'div', 'mod', 'and', 'not', 'andor')


# ------------------------------------------------------------------ text emitter
class Style(object):
    """Lay-out decisions of the source text; none of them may change the model."""

    def __init__(self, rnd=None, plain=False):
        self.rnd = rnd or random.Random(0)
        self.plain = plain
        r = self.rnd
        self.kwcase = 'upper' if plain else r.choice(['upper', 'upper', 'lower', 'mixed'])
        self.idupper = 0.0 if plain else r.choice([0.0, 0.0, 0.3])
        self.paren = 0.0 if plain else r.choice([0.0, 0.1, 0.3])
        self.glue = 0.0 if plain else r.choice([0.0, 0.3, 0.8])
        self.remark = 0.0 if plain else r.choice([0.0, 0.02, 0.06])
        self.brk = 0.0 if plain else r.choice([0.0, 0.03, 0.1])
        self.group = 0.0 if plain else r.choice([0.0, 0.5, 1.0])
        self.tail = False if plain else r.random() < 0.5
        self.realstyle = 0 if plain else r.randrange(3)

    def kw(self, w):
        if self.kwcase == 'upper':
            return w.upper()
        if self.kwcase == 'lower':
            return w.lower()
        return ''.join(c.upper() if self.rnd.random() < 0.5 else c.lower() for c in w)

    def ident(self, w):
        if self.idupper and self.rnd.random() < self.idupper:
            return w.upper()
        return w


BUILTIN_UP = set('''abs acos asin atan blength cos exists exp format hibound hiindex length lobound log log2 log10
loindex nvl odd rolesof sin sizeof sqrt tan typeof usedin value value_in value_unique insert remove
true false unknown self pi const_e'''.split())

NL = '\n'
IND, DED = '\x01', '\x02'     # layout marks inside the token stream


class Emitter(object):
    def __init__(self, style):
        self.st = style
        self.t = []

    # --- primitives
    def k(self, *ws):
        for w in ws:
            self.t.append(self.st.kw(w))

    def o(self, *ws):
        self.t.extend(ws)

    def name(self, n):
        if n in BUILTIN_UP:
            self.t.append(self.st.kw(n))
        else:
            self.t.append(self.st.ident(n))

    def nl(self):
        self.t.append(NL)

    # --- literals
    def real_text(self, x):
        r = repr(float(x))
        if 'e' in r or 'E' in r:
            m, e = r.lower().split('e')
            if '.' not in m:
                m += '.0'
            e = e.lstrip('+')
            r = m + ('E' if self.st.realstyle != 1 else 'e') + e
        elif self.st.realstyle == 2 and r.endswith('.0') and abs(x) < 1e15:
            r = r[:-1]                      # `5.` is a legal real literal
        if 'inf' in r or 'nan' in r:
            raise ValueError(x)
        return r

    def literal(self, e):
        k = e[0]
        if k == 'int':
            self.o(str(e[1]))
        elif k == 'real':
            self.o(self.real_text(e[1]))
        elif k == 'str':
            self.o("'" + e[1].replace("'", "''") + "'")
        elif k == 'estr':
            self.o('"' + e[1] + '"')
        elif k == 'binlit':
            self.o('%' + e[1])
        elif k == 'indet':
            self.o('?')
        else:
            raise ValueError(e)

    # --- expressions: minimal parentheses by ISO 10303-11 precedence, plus optional redundant ones
    def expr(self, e, need=0, force=False):
        """need: minimal precedence level the context accepts without parentheses"""
        k = e[0]
        if k == 'op':
            p = PREC[e[1]]
            par = p < need or force or (self.st.paren and self.st.rnd.random() < self.st.paren)
            if par:
                self.o('(')
            if p == 1:
                self.expr(e[2], 2)
                self.opname(e[1])
                self.expr(e[3], 2)
            elif p == 4:
                self.expr(e[2], 5)
                self.opname(e[1])
                self.expr(e[3], 5)
            else:
                self.expr(e[2], p)
                self.opname(e[1])
                self.expr(e[3], p + 1)
            if par:
                self.o(')')
            return
        if k == 'un':
            par = need > 5 or force
            if par:
                self.o('(')
            if e[1] == 'not':
                self.k('not')
            else:
                self.o('u' + e[1])
            self.expr(e[2], 6)
            if par:
                self.o(')')
            return
        par = bool(self.st.paren and self.st.rnd.random() < self.st.paren / 3 and need <= 5 and k != 'indet')
        if par:
            self.o('(')
        if k in ('int', 'real', 'str', 'estr', 'binlit', 'indet'):
            self.literal(e)
        elif k == 'id':
            self.name(e[1])
        elif k == 'call':
            self.name(e[1])
            self.o('(')
            for i, a in enumerate(e[2]):
                if i:
                    self.o(',')
                self.expr(a)
            self.o(')')
        elif k == 'agg':
            self.o('[')
            for i, (a, rep) in enumerate(e[1]):
                if i:
                    self.o(',')
                self.expr(a)
                if rep is not None:
                    self.o(':')
                    self.expr(rep)
            self.o(']')
        elif k == 'interval':
            self.o('{')
            self.expr(e[1], 2)
            self.opname(e[2])
            self.expr(e[3], 2)
            self.opname(e[4])
            self.expr(e[5], 2)
            self.o('}')
        elif k == 'query':
            self.k('query')
            self.o('(')
            self.name(e[1])
            self.o('<*')
            self.expr(e[2], 2)
            self.o('|')
            self.expr(e[3])
            self.o(')')
        elif k in ('attr', 'group'):
            self.expr(e[1], 6)
            self.o('.' if k == 'attr' else '\\')
            self.name(e[2])
        elif k == 'index':
            self.expr(e[1], 6)
            self.o('[')
            self.expr(e[2], 2)
            self.o(']')
        elif k == 'range':
            self.expr(e[1], 6)
            self.o('[')
            self.expr(e[2], 2)
            self.o(':')
            self.expr(e[3], 2)
            self.o(']')
        elif k == 'oneof':
            self.k('oneof')
            self.o('(')
            for i, a in enumerate(e[1]):
                if i:
                    self.o(',')
                self.superexpr(a)
            self.o(')')
        else:
            raise ValueError(e)
        if par:
            self.o(')')

    def opname(self, o):
        if o in KEYWORDS_OPS:
            self.k(o)
        else:
            self.o(o)

    def superexpr(self, e, need=0):
        if e[0] == 'op':
            p = 1 if e[1] == 'andor' else 2
            par = p < need
            if par:
                self.o('(')
            self.superexpr(e[2], p)
            self.k(e[1])
            self.superexpr(e[3], p + 1)
            if par:
                self.o(')')
        else:
            self.expr(e)

    # --- types
    def type_(self, t):
        k = t[0]
        if k == 'simple':
            self.k(t[1])
        elif k == 'realt':
            self.k('real')
            if t[1] is not None:
                self.o('(')
                self.expr(t[1], 2)
                self.o(')')
        elif k in ('stringt', 'binaryt'):
            self.k(k[:-1])
            if t[1] is not None:
                self.o('(')
                self.expr(t[1], 2)
                self.o(')')
            if t[2]:
                self.k('fixed')
        elif k == 'named':
            self.name(t[1])
        elif k == 'aggr':
            self.k(t[1])
            if t[2] is not None:
                self.o('[')
                self.expr(t[2], 2)
                self.o(':')
                self.expr(t[3], 2)
                self.o(']')
            self.k('of')
            if t[4]:
                self.k('optional')
            if t[5]:
                self.k('unique')
            self.type_(t[6])
        elif k == 'aggregate':
            self.k('aggregate')
            if t[1]:
                self.o(':')
                self.name(t[1])
            self.k('of')
            self.type_(t[2])
        elif k == 'generic':
            self.k('generic')
            if t[1]:
                self.o(':')
                self.name(t[1])
        elif k in ('enum', 'select'):
            if k == 'enum':
                self.k('enumeration', 'of')
            else:
                self.k('select')
            self.o('(')
            for i, n in enumerate(t[1]):
                if i:
                    self.o(',')
                self.name(n)
            self.o(')')
        else:
            raise ValueError(t)

    # --- statements
    def stmts(self, ss):
        self.t.append(IND)
        for s in ss:
            self.stmt(s)
        self.t.append(DED)

    def stmt(self, s):
        k = s[0]
        if k == 'null':
            self.o(';')
        elif k == 'assign':
            self.expr(s[1], 6)
            self.o(':=')
            self.expr(s[2])
            self.o(';')
        elif k == 'if':
            self.k('if')
            self.expr(s[1])
            self.k('then')
            self.nl()
            self.stmts(s[2])
            if s[3]:
                self.k('else')
                self.nl()
                self.stmts(s[3])
            self.k('end_if')
            self.o(';')
        elif k == 'case':
            self.k('case')
            self.expr(s[1])
            self.k('of')
            self.nl()
            self.t.append(IND)
            for labels, act in s[2]:
                for i, l in enumerate(labels):
                    if i:
                        self.o(',')
                    self.expr(l)
                self.o(':')
                self.stmt(act)
            if s[3] is not None:
                self.k('otherwise')
                self.o(':')
                self.stmt(s[3])
            self.t.append(DED)
            self.k('end_case')
            self.o(';')
        elif k == 'repeat':
            self.k('repeat')
            if s[1] is not None:
                var, a, b, by = s[1]
                self.name(var)
                self.o(':=')
                self.expr(a, 2)
                self.k('to')
                self.expr(b, 2)
                if by != ('int', 1) or self.st.rnd.random() < 0.3:
                    self.k('by')
                    self.expr(by, 2)
            if s[2] is not None:
                self.k('while')
                self.expr(s[2])
            if s[3] is not None:
                self.k('until')
                self.expr(s[3])
            self.o(';')
            self.nl()
            self.stmts(s[4])
            self.k('end_repeat')
            self.o(';')
        elif k == 'alias':
            self.k('alias')
            self.name(s[1])
            self.k('for')
            self.expr(s[2], 6)
            self.o(';')
            self.nl()
            self.stmts(s[3])
            self.k('end_alias')
            self.o(';')
        elif k == 'compound':
            self.k('begin')
            self.nl()
            self.stmts(s[1])
            self.k('end')
            self.o(';')
        elif k == 'escape':
            self.k('escape')
            self.o(';')
        elif k == 'skip':
            self.k('skip')
            self.o(';')
        elif k == 'return':
            self.k('return')
            if s[1] is not None:
                self.o('(')
                self.expr(s[1])
                self.o(')')
            self.o(';')
        elif k == 'pcall':
            self.name(s[1])
            if s[2]:
                self.o('(')
                for i, a in enumerate(s[2]):
                    if i:
                        self.o(',')
                    self.expr(a)
                self.o(')')
            self.o(';')
        else:
            raise ValueError(s)
        self.nl()

    # --- declarations
    def grouped(self, entries, same):
        """yield runs of adjacent entries that may share one `a, b : T` clause"""
        i = 0
        while i < len(entries):
            j = i + 1
            while j < len(entries) and same(entries[i], entries[j]) and self.st.rnd.random() < self.st.group:
                j += 1
            yield entries[i:j]
            i = j

    def wheres(self, wh):
        if not wh:
            return
        self.k('where')
        self.nl()
        self.t.append(IND)
        for label, e in wh:
            if label:
                self.name(label)
                self.o(':')
            self.expr(e)
            self.o(';')
            self.nl()
        self.t.append(DED)

    def tail(self, name):
        if self.st.tail:
            self.t.append('-- ' + name)
        self.nl()

    def decl(self, d, nested=None):
        """d: declaration tree; nested: {path: [decl trees]} for algorithm-local declarations"""
        k = d[0]
        if k == 'type':
            self.k('type')
            self.name(d[1])
            self.o('=')
            self.type_(d[2])
            self.o(';')
            self.nl()
            self.wheres(d[3])
            self.k('end_type')
            self.o(';')
            self.tail(d[1])
        elif k == 'entity':
            _, name, abstract, sup, subs, attrs, derive, inverse, unique, wh = d
            self.k('entity')
            self.name(name)
            if abstract:
                self.k('abstract', 'supertype')
                if sup is not None:
                    self.k('of')
                    self.o('(')
                    self.superexpr(sup)
                    self.o(')')
            elif sup is not None:
                self.k('supertype', 'of')
                self.o('(')
                self.superexpr(sup)
                self.o(')')
            if subs:
                self.k('subtype', 'of')
                self.o('(')
                for i, n in enumerate(subs):
                    if i:
                        self.o(',')
                    self.name(n)
                self.o(')')
            self.o(';')
            self.nl()
            self.t.append(IND)
            for run in self.grouped(list(attrs), lambda a, b: a[1:] == b[1:]):
                for i, a in enumerate(run):
                    if i:
                        self.o(',')
                    self.expr(a[0], 6)
                self.o(':')
                if run[0][1]:
                    self.k('optional')
                self.type_(run[0][2])
                self.o(';')
                self.nl()
            self.t.append(DED)
            if derive:
                self.k('derive')
                self.nl()
                self.t.append(IND)
                for r, ty, e in derive:
                    self.expr(r, 6)
                    self.o(':')
                    self.type_(ty)
                    self.o(':=')
                    self.expr(e)
                    self.o(';')
                    self.nl()
                self.t.append(DED)
            if inverse:
                self.k('inverse')
                self.nl()
                self.t.append(IND)
                for r, ty, fa in inverse:
                    self.expr(r, 6)
                    self.o(':')
                    self.type_(ty)
                    self.k('for')
                    self.name(fa)
                    self.o(';')
                    self.nl()
                self.t.append(DED)
            if unique:
                self.k('unique')
                self.nl()
                self.t.append(IND)
                for label, refs in unique:
                    if label:
                        self.name(label)
                        self.o(':')
                    for i, r in enumerate(refs):
                        if i:
                            self.o(',')
                        self.expr(r, 6)
                    self.o(';')
                    self.nl()
                self.t.append(DED)
            self.wheres(wh)
            self.k('end_entity')
            self.o(';')
            self.tail(name)
        elif k in ('function', 'procedure'):
            _, name, params, ret, loc, body = d
            self.k(k)
            self.name(name)
            if params:
                self.o('(')
                first = True
                for run in self.grouped(list(params), lambda a, b: a[0] == b[0] and a[2] == b[2]):
                    if not first:
                        self.o(';')
                    first = False
                    if run[0][0]:
                        self.k('var')
                    for i, a in enumerate(run):
                        if i:
                            self.o(',')
                        self.name(a[1])
                    self.o(':')
                    self.type_(run[0][2])
                self.o(')')
            if k == 'function':
                self.o(':')
                self.type_(ret)
            self.o(';')
            self.nl()
            self.alg_head(d, loc, nested)
            self.stmts(body)
            self.k('end_' + k)
            self.o(';')
            self.tail(name)
        elif k == 'rule':
            _, name, ents, loc, body, wh = d
            self.k('rule')
            self.name(name)
            self.k('for')
            self.o('(')
            for i, n in enumerate(ents):
                if i:
                    self.o(',')
                self.name(n)
            self.o(')')
            self.o(';')
            self.nl()
            self.alg_head(d, loc, nested)
            self.stmts(body)
            self.wheres(wh)
            self.k('end_rule')
            self.o(';')
            self.tail(name)
        else:
            raise ValueError(d)

    def alg_head(self, d, loc, nested):
        inner = (nested or {}).get(d[1], ())
        consts = [x for x in inner if x[0] == 'constant']
        for x in inner:
            if x[0] != 'constant':
                self.t.append(IND)
                self.decl(x, None)
                self.t.append(DED)
        if consts:
            self.constants(consts)
        if loc:
            self.k('local')
            self.nl()
            self.t.append(IND)
            for run in self.grouped(list(loc), lambda a, b: a[1] == b[1] and a[2] is None and b[2] is None):
                for i, a in enumerate(run):
                    if i:
                        self.o(',')
                    self.name(a[0])
                self.o(':')
                self.type_(run[0][1])
                if run[0][2] is not None:
                    self.o(':=')
                    self.expr(run[0][2])
                self.o(';')
                self.nl()
            self.t.append(DED)
            self.k('end_local')
            self.o(';')
            self.nl()

    def constants(self, cs):
        self.k('constant')
        self.nl()
        self.t.append(IND)
        for _, name, ty, e in cs:
            self.name(name)
            self.o(':')
            self.type_(ty)
            self.o(':=')
            self.expr(e)
            self.o(';')
            self.nl()
        self.t.append(DED)
        self.k('end_constant')
        self.o(';')
        self.nl()

    def interface(self, d):
        kind, sch, items = d
        self.k(kind, 'from')
        self.name(sch)
        if items != (('*', None),):
            self.o('(')
            for i, (n, alias) in enumerate(items):
                if i:
                    self.o(',')
                self.name(n)
                if alias:
                    self.k('as')
                    self.name(alias)
            self.o(')')
        self.o(';')
        self.nl()

    # --- layout
    def text(self):
        st = self.st
        r = st.rnd
        out = []
        ind = 0
        bol = True
        prev = None
        prev_unary = False
        for tok in self.t:
            if tok == IND:
                ind += 1
                continue
            if tok == DED:
                ind -= 1
                continue
            if tok == NL:
                if not bol:
                    out.append('\n')
                    bol = True
                    prev = None
                continue
            unary = False
            if tok in ('u+', 'u-'):
                tok = tok[1]
                unary = True
            if bol:
                out.append('  ' * max(ind, 0))
                bol = False
            elif prev is not None:
                if st.brk and r.random() < st.brk:
                    out.append('\n' + '  ' * (max(ind, 0) + 2))
                elif _may_glue(prev, tok) and (prev_unary or (st.glue and r.random() < st.glue)):
                    pass
                else:
                    out.append(' ')
            if st.remark and r.random() < st.remark and not tok.startswith('--'):
                out.append(r.choice(['(* r *) ', '(* a (* nested *) remark; END_ENTITY; *) ', "(* it's *) ",
                                     '(**) ', '-- tail remark; \'\n' + '  ' * max(ind, 0)]))
            out.append(tok)
            prev = tok
            prev_unary = unary
            if tok.startswith('--'):
                out.append('\n')
                bol = True
                prev = None
        return ''.join(out)


def _wordy(c):
    return c.isalnum() or c == '_'


def _may_glue(a, b):
    """True when token texts a,b may be written without white space between them and still scan as a then b."""
    if a.startswith('--') or b.startswith('--') or b.startswith('(*'):
        return False
    x, y = a[-1], b[0]
    if _wordy(x) and _wordy(y):
        return False
    if _wordy(x) == _wordy(y):          # punctuation next to punctuation: only a few safe pairs
        return (x in ')]' and y in ')],;.[\\:') or (x in '([' and y in '([')
    if x.isdigit() and y == '.' or x == '.' and y.isdigit():
        return False
    if x == "'" or y == "'" or x == '"' or y == '"':
        return (y in ',;)]') or (x in '([,')
    if x == '%' or y == '%':
        return x in '([,'
    if x == '\\' or y == '\\':
        return True
    if a[0].isdigit() and y == '.':
        return False
    if y == '*' or x == '*' or y == '-' or x == '-' or x == '(' and y == '*':
        return False
    if x in '<>:=|' or y in '<>:=|':
        return _wordy(y) and x in ':=' and a in (':=', ':') or (_wordy(x) and b in (':=', ':'))
    return True


# ------------------------------------------------------------------ items
class Item(object):
    """one construct under test + the declarations that carry it"""

    def __init__(self, kind, decls, host='', nested=None, interfaces=(), lib=()):
        self.kind = kind
        self.decls = list(decls)          # schema-level declaration trees of the main schema
        self.host = host
        self.nested = nested or {}        # algorithm name -> [declaration trees local to it]
        self.interfaces = list(interfaces)  # ('use'|'reference', schema, items) of the main schema
        self.lib = list(lib)              # declarations that live in the library schema


class Ctx(object):
    def __init__(self, rnd, tag='', masked=()):
        self.rnd = rnd
        self.n = 0
        self.tag = tag
        self.masked = frozenset(masked)

    def nm(self, prefix, long_ok=True):
        self.n += 1
        r = self.rnd
        mid = ''
        if long_ok and r.random() < 0.25:
            mid = '_' + ''.join(r.choice('abcdefghijklmnopqrstuvwxyz_') for _ in range(r.choice([3, 8, 20, 34]))).strip('_')
            mid = mid.replace('__', '_')
        return '%s%s%s_%d' % (prefix, self.tag, mid, self.n)


FPARAMS = ((False, 'i1', INT), (False, 'i2', INT), (False, 'r1', REAL), (False, 'r2', REAL), (False, 'b1', BOOL),
           (False, 'b2', BOOL), (False, 's1', STR), (False, 's2', STR), (False, 'li', LIST_INT), (False, 'ls', LIST_STR),
           (False, 'bn', BINT))
FLOCALS = (('vi', INT, None), ('vr', REAL, None), ('vb', BOOL, None), ('vl', LOG, None), ('vs', STR, None),
           ('vli', LIST_INT, None), ('vbn', BINT, None))
EATTRS = tuple((V(n), False, t) for _, n, t in FPARAMS)
LOCAL_OF = {'int': 'vi', 'real': 'vr', 'bool': 'vb', 'log': 'vl', 'str': 'vs', 'list': 'vli', 'bin': 'vbn'}
TYPE_OF = {'int': INT, 'real': REAL, 'bool': BOOL, 'log': LOG, 'str': STR, 'list': LIST_INT, 'bin': BINT}

SAFE_REALS = (0.5, 1.5, 2.25, 3.75, 0.125, 10.5, 99.75, 1234.5)
SAFE_STRS = ('a', 'abc', 'hello world', 'x_y', 'Mixed Case', '12', 'p q r')


def atom(ctx, ty, env):
    r = ctx.rnd
    lit = env == 'none' or r.random() < 0.3
    if ty == 'int':
        if lit:
            return I(r.choice([0, 1, 2, 3, 7, 10, 42, 100, 65535]))
        c = ['i1', 'i2'] + (['vi'] if env == 'func' else [])
        return V(r.choice(c))
    if ty == 'real':
        if lit:
            return RL(r.choice(SAFE_REALS))
        return V(r.choice(['r1', 'r2'] + (['vr'] if env == 'func' else [])))
    if ty == 'bool':
        if lit:
            return r.choice([TRUE, FALSE])
        return V(r.choice(['b1', 'b2'] + (['vb'] if env == 'func' else [])))
    if ty == 'str':
        if lit:
            return S(r.choice(SAFE_STRS))
        return V(r.choice(['s1', 's2'] + (['vs'] if env == 'func' else [])))
    if ty == 'list':
        if lit:
            return ('agg', tuple((I(r.randrange(2, 50)), None) for _ in range(r.randrange(1, 4))))
        return V(r.choice(['li'] + (['vli'] if env == 'func' else [])))
    raise ValueError(ty)


def gen(ctx, ty, depth, env):
    r = ctx.rnd
    if depth <= 0 or r.random() < 0.15:
        return atom(ctx, ty, env)
    g = lambda t: gen(ctx, t, depth - 1, env)
    if ty == 'int':
        c = r.randrange(9)
        if c < 5:
            return OP(r.choice(['+', '-', '*', 'div', 'mod']), g('int'), g('int'))
        if c == 5:
            return UN('-', g('int'))
        if c == 6:
            return CALL('abs', g('int'))
        if c == 7 and env != 'none':
            return CALL('sizeof', g('list'))
        return OP('**', atom(ctx, 'int', env), I(r.choice([2, 3])))
    if ty == 'real':
        c = r.randrange(7)
        if c < 4:
            return OP(r.choice(['+', '-', '*', '/']), g('real'), g('real'))
        if c == 4:
            return UN('-', g('real'))
        if c == 5:
            return CALL(r.choice(['sqrt', 'sin', 'cos', 'abs']), g('real'))
        return OP('*', g('real'), g('int'))
    if ty == 'bool':
        c = r.randrange(8)
        if c < 3:
            return OP(r.choice(['and', 'or', 'xor']), g('bool'), g('bool'))
        if c == 3:
            return UN('not', g('bool'))
        if c < 6:
            t = r.choice(['int', 'real'])
            return OP(r.choice(['<', '>', '<=', '>=', '=', '<>']), g(t), g(t))
        if c == 6:
            return OP(r.choice(['=', '<>']), g('str'), g('str'))
        if env == 'none':
            return OP('like', g('str'), S('a*'))
        return OP('in', g('int'), g('list'))
    if ty == 'str':
        return OP('+', g('str'), g('str'))
    if ty == 'list':
        if r.random() < 0.5:
            return OP('+', g('list'), g('list'))
        return ('agg', tuple((g('int'), None) for _ in range(r.randrange(1, 4))))
    raise ValueError(ty)


def mentions(e, names):
    if isinstance(e, tuple):
        if len(e) == 2 and e[0] == 'id' and e[1] in names:
            return True
        return any(mentions(c, names) for c in e)
    return False


def ensure_attr(ctx, e):
    """a domain rule must refer to SELF or an attribute (check-express PE067)"""
    if mentions(e, ('i1', 'i2', 'r1', 'r2', 'b1', 'b2', 's1', 's2', 'li', 'ls', 'bn', 'self')):
        return e
    return OP(ctx.rnd.choice(['and', 'or']), OP('>=', V('i1'), I(2)), e)


def mk_func(name, stmts, ret=INT, extra_locals=(), retval=None, params=FPARAMS):
    body = tuple(stmts)
    if retval is not False:
        body += (('return', retval if retval is not None else V('vi')),)
    return ('function', name, tuple(params), ret, tuple(FLOCALS) + tuple(extra_locals), body)


def mk_proc(name, stmts, params=None, extra_locals=()):
    params = FPARAMS if params is None else params
    return ('procedure', name, tuple(params), None, tuple(FLOCALS) + tuple(extra_locals), tuple(stmts))


def mk_entity(name, attrs=EATTRS, derive=(), inverse=(), unique=(), wh=(), abstract=False, sup=None, subs=()):
    return ('entity', name, abstract, sup, tuple(subs), tuple(attrs), tuple(derive), tuple(inverse), tuple(unique), tuple(wh))


HOSTS = {
    'func': ['assign', 'return', 'local-init', 'call-arg', 'if-cond', 'repeat-bound', 'case-selector', 'index'],
    'ent': ['derive', 'where-ent'],
    'none': ['const', 'type-where'],
}
HOST_TYPES = {'if-cond': ('bool',), 'where-ent': ('bool',), 'type-where': ('bool',), 'repeat-bound': ('int',),
              'case-selector': ('int',), 'index': ('int',)}


def pick_host(ctx, ty, envs=('func', 'ent', 'none')):
    r = ctx.rnd
    env = r.choice(envs)
    hs = [h for h in HOSTS[env] if ty in HOST_TYPES.get(h, (ty,))]
    if ty in ('log', 'bin'):
        hs = [h for h in hs if h in ('assign', 'const', 'derive', 'return', 'local-init')]
    return env, r.choice(hs)


def place(ctx, kind, ty, e, env, host):
    """wrap expression e (of type ty, built for env) into a host declaration"""
    T = TYPE_OF[ty]
    if host == 'assign':
        return Item(kind, [mk_func(ctx.nm('f'), [('assign', V(LOCAL_OF[ty]), e)])], host)
    if host == 'return':
        return Item(kind, [mk_func(ctx.nm('f'), [], ret=T, retval=e)], host)
    if host == 'local-init':
        return Item(kind, [mk_func(ctx.nm('f'), [], extra_locals=[(ctx.nm('x', False), T, e)])], host)
    if host == 'call-arg':
        fn = {'int': 'abs', 'real': 'sqrt', 'bool': 'exists', 'str': 'length', 'list': 'sizeof'}.get(ty, 'exists')
        tgt = {'int': 'vi', 'real': 'vr', 'bool': 'vb', 'str': 'vi', 'list': 'vi'}.get(ty, 'vb')
        return Item(kind, [mk_func(ctx.nm('f'), [('assign', V(tgt), CALL(fn, e))])], host)
    if host == 'if-cond':
        return Item(kind, [mk_func(ctx.nm('f'), [('if', e, (('assign', V('vi'), I(2)),), ())])], host)
    if host == 'repeat-bound':
        return Item(kind, [mk_func(ctx.nm('f'), [('repeat', ('k', I(2), e, I(1)), None, None,
                                                  (('assign', V('vi'), OP('+', V('vi'), V('k'))),))])], host)
    if host == 'case-selector':
        return Item(kind, [mk_func(ctx.nm('f'), [('case', e, (((I(2),), ('assign', V('vi'), I(3))),), ('skip',))])], host)
    if host == 'index':
        return Item(kind, [mk_func(ctx.nm('f'), [('assign', V('vi'), ('index', V('li'), e))])], host)
    if host == 'derive':
        return Item(kind, [mk_entity(ctx.nm('e'), derive=[(V(ctx.nm('d', False)), T, e)])], host)
    if host == 'where-ent':
        return Item(kind, [mk_entity(ctx.nm('e'), wh=[(ctx.nm('wr', False), ensure_attr(ctx, e))])], host)
    if host == 'const':
        return Item(kind, [('constant', ctx.nm('c'), T, e)], host)
    if host == 'type-where':
        return Item(kind, [('type', ctx.nm('t'), INT, ((ctx.nm('wr', False), OP('or', OP('>', SELF, I(2)), e)),))], host)
    raise ValueError(host)


KINDS = {}


def kind(name, weight=1):
    def deco(f):
        KINDS[name] = (f, weight)
        return f
    return deco


def expr_kind(name, ty, envs=('func', 'ent', 'none'), weight=1):
    """register builder(ctx, env) -> expression of type ty; the host is drawn per item"""
    def deco(f):
        def build(ctx):
            env, host = pick_host(ctx, ty, envs)
            return place(ctx, name, ty, f(ctx, env), env, host)
        KINDS[name] = (build, weight)
        return f
    return deco


# ---- binary operators, one kind each
OPER_TYPES = {'+': ['int', 'real', 'str', 'list'], '-': ['int', 'real'], '*': ['int', 'real'], '/': ['real'],
              'div': ['int'], 'mod': ['int'], 'and': ['bool'], 'or': ['bool'], 'xor': ['bool']}
for _op, _tys in OPER_TYPES.items():
    for _ty in _tys[:1]:
        def _mk(op=_op, tys=_tys):
            def f(ctx, env):
                ty = f.ty
                a, b = gen(ctx, ty, ctx.rnd.randrange(2), env), gen(ctx, ty, ctx.rnd.randrange(2), env)
                return OP(op, a, b)
            f.ty = tys[0]
            return f
        expr_kind('op:' + _op, _tys[0])(_mk())

for _op in ('<', '>', '<=', '>=', '=', '<>'):
    def _mk(op=_op):
        def f(ctx, env):
            t = ctx.rnd.choice(['int', 'real', 'str'] if op in ('=', '<>') else ['int', 'real'])
            return OP(op, gen(ctx, t, ctx.rnd.randrange(2), env), gen(ctx, t, ctx.rnd.randrange(2), env))
        return f
    expr_kind('op:' + _op, 'bool')(_mk())


@expr_kind('op:**', 'int')
def _k(ctx, env):
    r = ctx.rnd
    c = r.randrange(3)
    if c == 0:
        return OP('**', atom(ctx, 'int', env), I(r.choice([2, 3])))
    if c == 1:
        return OP('**', OP('+', atom(ctx, 'int', env), I(2)), atom(ctx, 'int', env))
    return OP('*', OP('**', atom(ctx, 'int', env), I(2)), atom(ctx, 'int', env))


@expr_kind('op:**:nested', 'int')
def _k(ctx, env):
    a, b, c = atom(ctx, 'int', env), I(2), I(3)
    return ctx.rnd.choice([OP('**', OP('**', a, b), c), OP('**', a, OP('**', b, c))])


@expr_kind('op:in', 'bool', envs=('func', 'ent'))
def _k(ctx, env):
    return OP('in', gen(ctx, 'int', 1, env), gen(ctx, 'list', 1, env))


@expr_kind('op:like', 'bool')
def _k(ctx, env):
    return OP('like', atom(ctx, 'str', env), S(ctx.rnd.choice(['a*', '?b', '@#', 'x'])))


@expr_kind('op::=:', 'bool', envs=('func', 'ent'))
def _k(ctx, env):
    return OP(ctx.rnd.choice([':=:', ':<>:']), atom(ctx, 'list', 'ent'), atom(ctx, 'list', 'ent'))


@expr_kind('expr:mixed', 'int', weight=3)
def _k(ctx, env):
    return gen(ctx, 'int', 3, env)


@expr_kind('expr:mixed-bool', 'bool', weight=3)
def _k(ctx, env):
    return gen(ctx, 'bool', 3, env)


@expr_kind('expr:mixed-real', 'real', weight=2)
def _k(ctx, env):
    return gen(ctx, 'real', 3, env)


@expr_kind('expr:long', 'int', weight=2)
def _k(ctx, env):
    r = ctx.rnd
    e = atom(ctx, 'int', env)
    for _ in range(r.randrange(8, 26)):
        e = OP(r.choice(['+', '-', '*', '+']), e, gen(ctx, 'int', r.randrange(2), env))
    return e


@expr_kind('expr:long-bool', 'bool', weight=2)
def _k(ctx, env):
    r = ctx.rnd
    e = gen(ctx, 'bool', 1, env)
    for _ in range(r.randrange(5, 14)):
        e = OP(r.choice(['and', 'or']), e, gen(ctx, 'bool', 1, env))
    return e


def _rn(name, op, ty):
    @expr_kind(name, ty)
    def _k(ctx, env):
        a, b, c = (atom(ctx, 'int' if ty == 'bool' and op == '=' else ty, env) for _ in range(3))
        if ty == 'bool' and op == '=':
            return OP('=', atom(ctx, 'bool', env), OP('=', b, c))
        return OP(op, a, OP(op, b, c))


for _op, _ty in (('+', 'int'), ('*', 'int'), ('and', 'bool'), ('or', 'bool'), ('xor', 'bool'), ('=', 'bool'),
                 ('-', 'int'), ('/', 'real'), ('div', 'int'), ('mod', 'int')):
    _rn('expr:right-nested:' + _op, _op, _ty)


@expr_kind('expr:right-nested:mixed-level', 'int')
def _k(ctx, env):
    a, b, c = (atom(ctx, 'int', env) for _ in range(3))
    o1, o2 = ctx.rnd.choice([('-', '+'), ('+', '-'), ('*', 'div'), ('div', '*'), ('mod', '*'), ('*', 'mod')])
    return OP(o1, a, OP(o2, b, c))


@expr_kind('expr:right-nested:str+', 'str', envs=('func', 'ent'))
def _k(ctx, env):
    v = lambda: V(ctx.rnd.choice(['s1', 's2']))        # variables: adjacent literals of a chain compare as one literal
    return OP('+', v(), OP('+', v(), v()))


@expr_kind('expr:left-nested', 'int')
def _k(ctx, env):
    a, b, c = (atom(ctx, 'int', env) for _ in range(3))
    o = ctx.rnd.choice(['-', 'div', 'mod', '+', '*'])
    return OP(o, OP(o, a, b), c)


@expr_kind('expr:rel-nested', 'bool')
def _k(ctx, env):
    a, b = atom(ctx, 'int', env), atom(ctx, 'int', env)
    return OP(ctx.rnd.choice(['=', '<>']), OP(ctx.rnd.choice(['<', '=', '>=']), a, b), atom(ctx, 'bool', env))


@expr_kind('expr:lower-in-higher', 'int')
def _k(ctx, env):
    a, b, c = (atom(ctx, 'int', env) for _ in range(3))
    return ctx.rnd.choice([OP('*', OP('+', a, b), c), OP('*', a, OP('-', b, c)), OP('div', OP('-', a, b), c)])


@expr_kind('expr:bool-precedence', 'bool')
def _k(ctx, env):
    a, b, c = (atom(ctx, 'bool', env) for _ in range(3))
    return ctx.rnd.choice([OP('and', OP('or', a, b), c), OP('or', a, OP('and', b, c)), OP('and', a, OP('xor', b, c)),
                           OP('or', OP('and', a, b), c)])


# ---- unary
@expr_kind('unary:-', 'int')
def _k(ctx, env):
    return UN('-', atom(ctx, 'int', env) if env != 'none' else I(ctx.rnd.choice([2, 7, 65535])))


@expr_kind('unary:-:literal', 'int')
def _k(ctx, env):
    return ctx.rnd.choice([UN('-', I(5)), OP('+', V('i1') if env != 'none' else I(3), UN('-', I(7)))])


@expr_kind('unary:+', 'int')
def _k(ctx, env):
    return ctx.rnd.choice([UN('+', atom(ctx, 'int', env)), OP('*', I(2), UN('+', I(3)))])


@expr_kind('unary:not', 'bool')
def _k(ctx, env):
    return ctx.rnd.choice([UN('not', atom(ctx, 'bool', env)), OP('and', UN('not', atom(ctx, 'bool', env)), atom(ctx, 'bool', env))])


@expr_kind('unary:nested', 'int')
def _k(ctx, env):
    return UN('-', UN('-', atom(ctx, 'int', env)))


@expr_kind('unary:not-nested', 'bool')
def _k(ctx, env):
    return UN('not', UN('not', atom(ctx, 'bool', env)))


@expr_kind('unary:on-op', 'int')
def _k(ctx, env):
    return UN('-', OP(ctx.rnd.choice(['+', '*', '-']), atom(ctx, 'int', env), atom(ctx, 'int', env)))


@expr_kind('unary:not-on-op', 'bool')
def _k(ctx, env):
    return UN('not', OP(ctx.rnd.choice(['and', 'or', '=']), atom(ctx, 'bool', env), atom(ctx, 'bool', env)))


@expr_kind('unary:in-exp', 'int')
def _k(ctx, env):
    a = atom(ctx, 'int', env)
    return ctx.rnd.choice([OP('**', UN('-', a), I(2)), UN('-', OP('**', a, I(2))), OP('**', a, UN('-', I(2)))])


@expr_kind('unary:operand', 'int')
def _k(ctx, env):
    a, b = atom(ctx, 'int', env), atom(ctx, 'int', env)
    return ctx.rnd.choice([OP('*', a, UN('-', b)), OP('-', a, UN('-', b)), OP('-', UN('-', a), b)])


# ---- literals
def lit_kind(name, ty, values, envs=('func', 'ent', 'none')):
    @expr_kind(name, ty, envs)
    def _k(ctx, env):
        v = ctx.rnd.choice(values)
        v = v(ctx) if callable(v) else v
        if ctx.rnd.random() < 0.3 and ty in ('int', 'real'):
            return OP(ctx.rnd.choice(['+', '*']), atom(ctx, ty, env), v)
        return v


lit_kind('lit:int', 'int', [I(0), I(1), I(7), I(12345), I(999999)])
lit_kind('lit:int-max', 'int', [I(2147483647)])
lit_kind('lit:int-over-32bit', 'int', [I(2147483648), I(4294967296), I(12345678901)])
lit_kind('lit:real-frac', 'real', [RL(0.5), RL(1.25), RL(3.14159), RL(1234.5678), RL(0.001)])
lit_kind('lit:real-integral', 'real', [RL(1.0), RL(2.0), RL(10.0), RL(100.0), RL(12345.0)])
lit_kind('lit:real-zero', 'real', [RL(0.0)])
lit_kind('lit:real-exp-frac', 'real', [RL(1.5e-3), RL(2.5e-10), RL(6.25e-20)])
lit_kind('lit:real-exp-big', 'real', [RL(2.5e20), RL(1.0e20), RL(6.02e23), RL(1.0e100)])
lit_kind('lit:real-exp-integral', 'real', [RL(1.5e10), RL(1.0e6), RL(2.0e3)])
lit_kind('lit:real-17-digits', 'real', [RL(0.12345678901234568), RL(3.1415926535897931), RL(1.0000000000000002)])
lit_kind('lit:real-tiny', 'real', [RL(1.0e-40), RL(2.5e-300)])
lit_kind('lit:str', 'str', [S('a'), S('hello world'), S('with "quotes"'), S('semi; colon'), S('(* not a remark *)'), S('-- no')])
lit_kind('lit:str-empty', 'str', [S('')])
lit_kind('lit:str-apos', 'str', [S("it's"), S("'"), S("''"), S("a'b'c"), S("trailing'")])
lit_kind('lit:str-percent', 'str', [S('100%'), S('%s%d%n'), S('50% of %x')])
lit_kind('lit:str-backslash', 'str', [S('a\\b'), S('\\n'), S('C:\\dir\\')])
lit_kind('lit:estr', 'str', [('estr', '00000041'), ('estr', '000000C5000000DF'), ('estr', '0000004100000042')])
lit_kind('lit:bin', 'bin', [('binlit', '1010'), ('binlit', '0'), ('binlit', '1'), ('binlit', '0000111100001111')])
lit_kind('lit:logical', 'log', [TRUE, FALSE, UNKNOWN])
lit_kind('lit:indeterminate', 'int', [INDET], envs=('func',))
lit_kind('lit:const-pi', 'real', [V('pi'), OP('*', I(2), V('pi'))])
lit_kind('lit:const-e', 'real', [V('const_e'), OP('*', RL(2.5), V('const_e'))])


def _longstr(ctx, dots, apos, n=None):
    r = ctx.rnd
    n = n or r.choice([45, 80, 140, 300])
    words = []
    while sum(len(w) + 1 for w in words) < n:
        w = ''.join(r.choice('abcdefghijklmnopqrstuvwxyz') for _ in range(r.randrange(2, 11)))
        if apos and r.random() < 0.3:
            w += r.choice(["'", "''", "'s"])
        words.append(w)
    sep = '.' if dots else r.choice([' ', '_', ' '])
    return S(sep.join(words))


lit_kind('lit:str-dots', 'str', [S('a.b'), S('x.y.z'), S('SCHEMA.ENTITY'), S('.'), S('..'), S('end.')])


@expr_kind('lit:str-dots-in-op', 'bool')
def _k(ctx, env):
    return ctx.rnd.choice([OP('=', atom(ctx, 'str', env), S('aa.bb.cc')), OP('like', S('ab.cd.ef'), S('ab.*')),
                           OP('in', S('S.E'), ('agg', ((S('S.E'), None), (S('S.F'), None))))])


lit_kind('lit:str-long', 'str', [lambda c: _longstr(c, False, False)])
lit_kind('lit:str-long-dots', 'str', [lambda c: _longstr(c, True, False)])
lit_kind('lit:str-long-apos', 'str', [lambda c: _longstr(c, c.rnd.random() < 0.5, True)])


@expr_kind('lit:str-long-in-concat', 'str')
def _k(ctx, env):
    return OP('+', atom(ctx, 'str', env), _longstr(ctx, True, False, 90))


@expr_kind('lit:str-long-in-compare', 'bool')
def _k(ctx, env):
    return OP(ctx.rnd.choice(['=', '<>', 'like']), atom(ctx, 'str', env), _longstr(ctx, True, False, 90))


# ---- aggregate initialisers
@expr_kind('agg:empty', 'list')
def _k(ctx, env):
    return ('agg', ())


@expr_kind('agg:ints', 'list')
def _k(ctx, env):
    return ('agg', tuple((I(ctx.rnd.choice([0, 1, 2, 5, 9, 100])), None) for _ in range(ctx.rnd.randrange(1, 7))))


@expr_kind('agg:exprs', 'list')
def _k(ctx, env):
    return ('agg', tuple((gen(ctx, 'int', 2, env), None) for _ in range(ctx.rnd.randrange(1, 5))))


@expr_kind('agg:rep', 'list')
def _k(ctx, env):
    r = ctx.rnd
    items = [(I(r.randrange(2, 9)), I(r.randrange(2, 6)) if r.random() < 0.6 else None) for _ in range(r.randrange(1, 4))]
    items[r.randrange(len(items))] = (I(r.randrange(2, 9)), I(r.randrange(2, 6)))
    return ('agg', tuple(items))


@expr_kind('agg:rep-expr-count', 'list', envs=('func', 'ent'))
def _k(ctx, env):
    return ('agg', ((I(5), OP('+', V('i1'), I(2))), (V('i2'), None)))


@expr_kind('agg:long', 'list')
def _k(ctx, env):
    return ('agg', tuple((I(ctx.rnd.randrange(2, 100000)), None) for _ in range(ctx.rnd.randrange(20, 60))))


# the count literal 0/1 is a shared parser node: probe carries a second, plain initialiser as the possible victim
@kind('agg:rep-count-0-or-1')
def _k(ctx):
    c = ctx.rnd.choice([0, 1])
    return Item('agg:rep-count-0-or-1', [
        mk_func(ctx.nm('f'), [('assign', V('vli'), ('agg', ((I(5), I(c)),)))]),
        mk_func(ctx.nm('g'), [('assign', V('vli'), ('agg', ((I(0), None), (I(1), None), (I(0), None), (I(1), None))))])], 'assign')


@kind('agg:nested')
def _k(ctx):
    t = AGG('list', LIST_INT)
    e = ('agg', ((('agg', ((I(2), None), (I(3), None))), None), (('agg', ((I(4), None),)), None)))
    return Item('agg:nested', [('constant', ctx.nm('c'), t, e)], 'const')


@kind('agg:strings')
def _k(ctx):
    e = ('agg', tuple((S(ctx.rnd.choice(SAFE_STRS)), None) for _ in range(ctx.rnd.randrange(1, 12))))
    return Item('agg:strings', [('constant', ctx.nm('c'), LIST_STR, e)], 'const')


@kind('agg:reals')
def _k(ctx):
    e = ('agg', tuple((RL(ctx.rnd.choice(SAFE_REALS)), None) for _ in range(ctx.rnd.randrange(1, 12))))
    return Item('agg:reals', [('constant', ctx.nm('c'), LIST_REAL, e)], 'const')


# ---- interval, query, calls, qualifiers
@expr_kind('interval', 'bool')
def _k(ctx, env):
    r = ctx.rnd
    return ('interval', atom(ctx, 'int', 'none'), r.choice(['<', '<=']), atom(ctx, 'int', env if env != 'none' else 'none'),
            r.choice(['<', '<=']), I(r.randrange(100, 200)))


@expr_kind('query', 'int', envs=('func', 'ent'))
def _k(ctx, env):
    q = ('query', 'q', atom(ctx, 'list', 'ent'), OP(ctx.rnd.choice(['>', '<', '=']), V('q'), atom(ctx, 'int', env)))
    return CALL('sizeof', q)


@expr_kind('query:nested', 'int', envs=('func', 'ent'))
def _k(ctx, env):
    inner = ('query', 'q2', V('li'), OP('>', V('q2'), V('q1')))
    q = ('query', 'q1', V('li'), OP('=', CALL('sizeof', inner), I(0)))
    return CALL('sizeof', q)


@expr_kind('query:compound-cond', 'int', envs=('func', 'ent'))
def _k(ctx, env):
    c = OP('and', OP('>', V('q'), I(2)), OP('or', OP('<', V('q'), V('i1')), UN('not', V('b1'))))
    return CALL('sizeof', ('query', 'q', V('li'), c))


@expr_kind('call:builtin', 'int', envs=('func', 'ent'))
def _k(ctx, env):
    r = ctx.rnd
    return r.choice([CALL('sizeof', V('li')), CALL('length', V('s1')), CALL('hiindex', V('li')), CALL('abs', V('i1')),
                     CALL('blength', V('bn')), CALL('nvl', V('i1'), I(2)), CALL('loindex', V('li'))])


@expr_kind('call:builtin-real', 'real')
def _k(ctx, env):
    a = atom(ctx, 'real', env)
    return ctx.rnd.choice([CALL('sqrt', a), CALL('sin', a), CALL('atan', a, RL(2.5)), CALL('exp', a), CALL('log', a)])


@expr_kind('call:builtin-bool', 'bool', envs=('func', 'ent'))
def _k(ctx, env):
    return ctx.rnd.choice([CALL('exists', V('i1')), CALL('odd', V('i2')), OP('in', S('XY'), CALL('typeof', V('i1')))])


@kind('call:user')
def _k(ctx):
    callee = ctx.nm('g')
    g = ('function', callee, ((False, 'a', INT), (False, 'b', REAL)), INT, (), (('return', OP('+', V('a'), I(2))),))
    f = mk_func(ctx.nm('f'), [('assign', V('vi'), CALL(callee, gen(ctx, 'int', 1, 'func'), gen(ctx, 'real', 1, 'func')))])
    return Item('call:user', [g, f], 'assign')


@kind('call:user-noargs')
def _k(ctx):
    callee = ctx.nm('g')
    g = ('function', callee, (), INT, (), (('return', I(7)),))
    f = mk_func(ctx.nm('f'), [('assign', V('vi'), OP('+', V(callee), I(2)))])
    return Item('call:user-noargs', [g, f], 'assign')


def _ent2(ctx):
    """two small entities: en (attributes a : INTEGER, lst : LIST OF INTEGER, nxt : OPTIONAL en) and a subtype"""
    en, sub = ctx.nm('e'), ctx.nm('e')
    e1 = mk_entity(en, attrs=[(V('a'), False, INT), (V('lst'), False, LIST_INT), (V('nxt'), True, NAMED(en))])
    e2 = mk_entity(sub, attrs=[(V('b'), False, REAL)], subs=[en])
    return en, sub, e1, e2


@kind('call:constructor')
def _k(ctx):
    en = ctx.nm('e')
    e = mk_entity(en, attrs=[(V('a'), False, INT), (V('b'), False, REAL)])
    f = mk_func(ctx.nm('f'), [('assign', V('x'), CALL(en, gen(ctx, 'int', 1, 'func'), RL(2.5)))],
                extra_locals=[('x', NAMED(en), None)])
    return Item('call:constructor', [e, f], 'assign')


@kind('op:complex-entity-constructor')
def _k(ctx):
    en, sub, e1, e2 = _ent2(ctx)
    s3 = ctx.nm('e')
    e3 = mk_entity(s3, attrs=[(V('c'), False, INT)], subs=[en])
    e1 = e1[:3] + (OP('andor', V(sub), V(s3)),) + e1[4:]
    f = mk_func(ctx.nm('f'), [('assign', V('x'), OP('||', OP('||', CALL(en, I(2), ('agg', ()), INDET), CALL(sub, RL(2.5))), CALL(s3, V('i1'))))],
                extra_locals=[('x', NAMED(en), None)])
    return Item('op:complex-entity-constructor', [e1, e2, e3, f], 'assign')


def _qual_item(ctx, name, mk):
    en, sub, e1, e2 = _ent2(ctx)
    params = FPARAMS + ((False, 'p', NAMED(en)), (False, 'ps', NAMED(sub)))
    lhs, e = mk(en, sub)
    f = mk_func(ctx.nm('f'), [('assign', lhs, e)], params=params)
    return Item(name, [e1, e2, f], 'assign')


@kind('qual:attr')
def _k(ctx):
    return _qual_item(ctx, 'qual:attr', lambda en, sub: (V('vi'), OP('+', ('attr', V('p'), 'a'), I(2))))


@kind('qual:attr-chain')
def _k(ctx):
    return _qual_item(ctx, 'qual:attr-chain', lambda en, sub: (V('vi'), ('attr', ('attr', ('attr', V('p'), 'nxt'), 'nxt'), 'a')))


@kind('qual:group')
def _k(ctx):
    return _qual_item(ctx, 'qual:group', lambda en, sub: (V('vi'), ('attr', ('group', V('ps'), en), 'a')))


@kind('qual:index')
def _k(ctx):
    return _qual_item(ctx, 'qual:index', lambda en, sub: (V('vi'), ctx.rnd.choice([
        ('index', V('li'), OP('+', V('i1'), I(2))), ('index', ('attr', V('p'), 'lst'), I(2)),
        OP('*', ('index', V('li'), I(1)), ('index', V('li'), V('i2')))])))


@kind('qual:range')
def _k(ctx):
    return _qual_item(ctx, 'qual:range', lambda en, sub: (V('vs'), ctx.rnd.choice([
        ('range', V('s1'), I(2), I(4)), ('range', V('s1'), V('i1'), OP('+', V('i1'), I(3))),
        OP('+', ('range', V('s1'), I(1), I(2)), ('range', V('s2'), I(3), I(3)))])))


@kind('qual:lhs')
def _k(ctx):
    return _qual_item(ctx, 'qual:lhs', lambda en, sub: ctx.rnd.choice([
        (('index', V('vli'), I(2)), V('i1')), (('attr', V('p'), 'a'), V('i1')),
        (('index', ('attr', V('p'), 'lst'), V('i2')), I(7)), (('attr', ('group', V('ps'), en), 'a'), I(3))]))


@kind('qual:self-group')
def _k(ctx):
    en, sub, e1, e2 = _ent2(ctx)
    e2 = mk_entity(sub, attrs=[(V('b'), False, REAL)], subs=[en],
                   wh=[(ctx.nm('wr', False), OP('>', ('attr', ('group', SELF, en), 'a'), I(2)))])
    return Item('qual:self-group', [e1, e2], 'where-ent')


@kind('lit:self')
def _k(ctx):
    t = ('type', ctx.nm('t'), INT, ((ctx.nm('wr', False), OP('>', SELF, I(2))),))
    return Item('lit:self', [t], 'type-where')


@kind('enum:item-ref')
def _k(ctx):
    tn = ctx.nm('t')
    items = tuple(ctx.nm('it', False) for _ in range(3))
    t = ('type', tn, ('enum', items), ())
    f = mk_func(ctx.nm('f'), [('assign', V('x'), V(items[1])), ('if', OP('=', V('x'), V(items[2])), (('assign', V('vi'), I(2)),), ())],
                extra_locals=[('x', NAMED(tn), None)])
    return Item('enum:item-ref', [t, f], 'assign')


for _nm, _op, _ty in (('op:+:real', '+', 'real'), ('op:+:str', '+', 'str'), ('op:+:list', '+', 'list'),
                      ('op:-:real', '-', 'real'), ('op:*:real', '*', 'real')):
    def _mk(op=_op, ty=_ty):
        def f(ctx, env):
            return OP(op, gen(ctx, ty, ctx.rnd.randrange(2), env), gen(ctx, ty, ctx.rnd.randrange(2), env))
        return f
    expr_kind(_nm, _ty)(_mk())


# ------------------------------------------------------------------ statements
def stmt_kind(name, weight=1):
    """builder(ctx) -> (statements, extra declarations, extra locals); hosted in a function or a procedure"""
    def deco(f):
        def build(ctx):
            r = f(ctx)
            ss, extra, loc = (r + ((), ()))[:3] if isinstance(r, tuple) and r and isinstance(r[0], list) else (r, (), ())
            ss = list(ss)
            c = ctx.rnd.randrange(4)
            if c == 0:
                d = mk_proc(ctx.nm('p'), ss, extra_locals=loc)
                host = 'procedure'
            elif c == 1:      # one level down
                d = mk_func(ctx.nm('f'), [('if', V('b1'), tuple(ss), (('skip',),))], extra_locals=loc)
                host = 'function-nested'
            else:
                d = mk_func(ctx.nm('f'), ss, extra_locals=loc)
                host = 'function'
            return Item(name, list(extra) + [d], host)
        KINDS[name] = (build, weight)
        return f
    return deco


def A(ctx, ty='int', depth=1):
    return ('assign', V(LOCAL_OF[ty]), gen(ctx, ty, depth, 'func'))


@stmt_kind('stmt:assign')
def _k(ctx):
    return [A(ctx, ctx.rnd.choice(['int', 'real', 'bool', 'str', 'list'])) for _ in range(ctx.rnd.randrange(1, 4))]


@stmt_kind('stmt:if')
def _k(ctx):
    return [('if', gen(ctx, 'bool', 1, 'func'), (A(ctx), A(ctx, 'real')), ())]


@stmt_kind('stmt:if-else')
def _k(ctx):
    return [('if', gen(ctx, 'bool', 1, 'func'), (A(ctx),), (A(ctx, 'str'), A(ctx)))]


@stmt_kind('stmt:if-nested')
def _k(ctx):
    inner = ('if', V('b2'), (A(ctx),), (('if', V('b1'), (('skip',),), ()),))
    return [('if', gen(ctx, 'bool', 1, 'func'), (inner,), (A(ctx),))]


@stmt_kind('stmt:case')
def _k(ctx):
    r = ctx.rnd
    acts = tuple(((I(n),), A(ctx)) for n in r.sample(range(2, 40), r.randrange(1, 5)))
    return [('case', V('i1'), acts, None)]


@stmt_kind('stmt:case-otherwise')
def _k(ctx):
    acts = tuple(((I(n),), A(ctx)) for n in (2, 3))
    return [('case', OP('+', V('i1'), I(2)), acts, A(ctx, 'real'))]


@stmt_kind('stmt:case-multi-label')
def _k(ctx):
    acts = (((I(2), I(3), I(5)), A(ctx)), ((I(7),), A(ctx)), ((I(11), I(13)), ('skip',)))
    return [('case', V('i1'), acts, ('skip',) if ctx.rnd.random() < 0.5 else None)]


@stmt_kind('stmt:case-expr-label')
def _k(ctx):
    acts = (((OP('+', V('i2'), I(2)),), A(ctx)), ((OP('*', V('i2'), I(3)),), A(ctx)))
    return [('case', V('i1'), acts, None)]


@stmt_kind('stmt:case-negative-label')
def _k(ctx):
    acts = (((UN('-', I(3)),), A(ctx)), ((I(4),), A(ctx)))
    return [('case', V('i1'), acts, None)]


@stmt_kind('stmt:case-compound-action')
def _k(ctx):
    acts = (((I(2),), ('compound', (A(ctx), A(ctx, 'real')))), ((I(3),), ('if', V('b1'), (A(ctx),), ())))
    return [('case', V('i1'), acts, ('compound', (A(ctx),)))]


def _rep(ctx, incr=None, wh=None, un=None, body=None):
    return ('repeat', incr, wh, un, tuple(body or [('assign', V('vi'), OP('+', V('vi'), I(2)))]))


@stmt_kind('stmt:repeat-incr')
def _k(ctx):
    return [_rep(ctx, ('k', I(1), gen(ctx, 'int', 1, 'func'), I(1)), body=[('assign', V('vi'), OP('+', V('vi'), V('k')))])]


@stmt_kind('stmt:repeat-by')
def _k(ctx):
    by = ctx.rnd.choice([I(2), UN('-', I(1)), V('i2'), OP('+', V('i2'), I(2))])
    return [_rep(ctx, ('k', V('i1'), I(100), by))]


@stmt_kind('stmt:repeat-while')
def _k(ctx):
    return [_rep(ctx, None, gen(ctx, 'bool', 1, 'func'))]


@stmt_kind('stmt:repeat-until')
def _k(ctx):
    return [_rep(ctx, None, None, gen(ctx, 'bool', 1, 'func'))]


@stmt_kind('stmt:repeat-all')
def _k(ctx):
    return [_rep(ctx, ('k', I(2), CALL('sizeof', V('li')), I(3)), OP('<', V('vi'), I(100)), OP('>', V('vi'), I(50)),
                 [('assign', V('vi'), OP('+', V('vi'), ('index', V('li'), V('k'))))])]


@stmt_kind('stmt:repeat-bare')
def _k(ctx):
    return [_rep(ctx, body=[('assign', V('vi'), OP('+', V('vi'), I(2))), ('if', OP('>', V('vi'), I(10)), (('escape',),), ())])]


@stmt_kind('stmt:escape')
def _k(ctx):
    return [_rep(ctx, None, V('b1'), None, [('escape',)])]


@stmt_kind('stmt:skip')
def _k(ctx):
    return [_rep(ctx, ('k', I(1), I(10), I(1)), body=[('if', CALL('odd', V('k')), (('skip',),), ()), A(ctx)])]


@stmt_kind('stmt:alias')
def _k(ctx):
    return [('alias', 'al', V('vli'), (('assign', V('al'), OP('+', V('al'), ('agg', ((I(2), None),)))),))]


@kind('stmt:alias-qualified')
def _k(ctx):
    en, sub, e1, e2 = _ent2(ctx)
    params = FPARAMS + ((False, 'p', NAMED(en)),)
    st = ('alias', 'al', ctx.rnd.choice([('attr', V('p'), 'lst'), ('attr', ('attr', V('p'), 'nxt'), 'a')]),
          (('assign', V('vi'), CALL('sizeof', V('li'))),))
    return Item('stmt:alias-qualified', [e1, e2, mk_func(ctx.nm('f'), [st], params=params)], 'function')


@stmt_kind('stmt:compound')
def _k(ctx):
    return [('compound', (A(ctx), A(ctx, 'bool')))]


@stmt_kind('stmt:compound-nested')
def _k(ctx):
    return [('compound', (('compound', (A(ctx),)), A(ctx)))]


@stmt_kind('stmt:null')
def _k(ctx):
    return [('null',), A(ctx), ('if', V('b1'), (('null',),), ())]


@kind('stmt:return')
def _k(ctx):
    f = mk_func(ctx.nm('f'), [('if', V('b1'), (('return', gen(ctx, 'int', 2, 'func')),), ())])
    return Item('stmt:return', [f], 'function')


@kind('stmt:return-bare')
def _k(ctx):
    p = mk_proc(ctx.nm('p'), [('if', V('b1'), (('return', None),), ()), A(ctx)])
    return Item('stmt:return-bare', [p], 'procedure')


@kind('stmt:pcall')
def _k(ctx):
    pn = ctx.nm('p')
    p = ('procedure', pn, ((True, 'o', INT), (False, 'a', INT), (False, 'b', STR)), None, (), (('assign', V('o'), V('a')),))
    f = mk_func(ctx.nm('f'), [('pcall', pn, (V('vi'), gen(ctx, 'int', 1, 'func'), gen(ctx, 'str', 1, 'func')))])
    return Item('stmt:pcall', [p, f], 'function')


@kind('stmt:pcall-noargs')
def _k(ctx):
    pn = ctx.nm('p')
    p = ('procedure', pn, ((False, 'a', INT),), None, (('z', INT, None),), (('assign', V('z'), V('a')),))
    q = ctx.nm('p')
    p0 = ('procedure', q, (), None, (('z', INT, None),), (('assign', V('z'), I(2)),))
    f = mk_proc(ctx.nm('p'), [('pcall', q, ()), ('pcall', pn, (I(3),))])
    return Item('stmt:pcall-noargs', [p, p0, f], 'procedure')


@stmt_kind('stmt:pcall-builtin')
def _k(ctx):
    return [('pcall', 'insert', (V('vli'), gen(ctx, 'int', 1, 'func'), I(0))), ('pcall', 'remove', (V('vli'), I(1)))]


# ------------------------------------------------------------------ declarations
@kind('const:simple')
def _k(ctx):
    r = ctx.rnd
    ds = [('constant', ctx.nm('c'), INT, I(r.randrange(2, 1000))), ('constant', ctx.nm('c'), STR, S(r.choice(SAFE_STRS))),
          ('constant', ctx.nm('c'), REAL, RL(r.choice(SAFE_REALS))), ('constant', ctx.nm('c'), BOOL, TRUE)]
    r.shuffle(ds)
    return Item('const:simple', ds[:r.randrange(1, 5)], 'const')


@kind('const:ref')
def _k(ctx):
    a, b = ctx.nm('c'), ctx.nm('c')
    return Item('const:ref', [('constant', a, INT, I(12)), ('constant', b, INT, OP('*', V(a), OP('+', V(a), I(2))))], 'const')


@kind('const:aggregate-type')
def _k(ctx):
    t = ctx.rnd.choice([AGG('set', INT, I(1), INDET), AGG('array', REAL, I(1), I(3)), AGG('bag', STR, I(0), I(5)),
                        AGG('list', INT, I(0), INDET, uniq=True)])
    e = {'integer': ('agg', ((I(2), None), (I(3), None), (I(4), None))), }.get(t[6][1]) if t[6][0] == 'simple' else None
    if t[6] == REAL:
        e = ('agg', ((RL(0.5), None), (RL(1.5), None), (RL(2.5), None)))
    if t[6] == STR:
        e = ('agg', ((S('a'), None), (S('b'), None)))
    return Item('const:aggregate-type', [('constant', ctx.nm('c'), t, e)], 'const')


@kind('const:defined-type')
def _k(ctx):
    tn = ctx.nm('t')
    return Item('const:defined-type', [('type', tn, REAL, ()), ('constant', ctx.nm('c'), NAMED(tn), RL(2.5))], 'const')


@kind('func:params')
def _k(ctx):
    r = ctx.rnd
    tys = [INT, REAL, STR, BOOL, LOG, NUM, BINT, LIST_INT, AGG('set', REAL, I(1), INDET), AGG('array', INT, I(1), I(3)),
           ('stringt', I(10), False), ('stringt', I(8), True), ('binaryt', I(16), False), ('realt', I(6)),
           AGG('list', AGG('set', INT, I(0), I(4)), I(1), INDET), AGG('bag', STR)]
    ps = []
    for i in range(r.randrange(1, 9)):
        t = r.choice(tys)
        for j in range(r.choice([1, 1, 2, 3])):
            ps.append((False, 'a%d_%d' % (i, j), t))
    f = ('function', ctx.nm('f'), tuple(ps), r.choice(tys), (), (('return', INDET),))
    return Item('func:params', [f], 'function')


@kind('func:no-params')
def _k(ctx):
    return Item('func:no-params', [('function', ctx.nm('f'), (), INT, (('z', INT, I(2)),), (('return', V('z')),))], 'function')


@kind('func:generic')
def _k(ctx):
    ps = ((False, 'a', ('generic', 'g1')), (False, 'b', ('aggregate', 'a1', ('generic', 'g1'))), (False, 'c', ('aggregate', None, INT)),
          (False, 'd', ('generic', None)))
    f = ('function', ctx.nm('f'), ps, ctx.rnd.choice([('generic', 'g1'), ('aggregate', 'a1', ('generic', 'g1'))]), (),
         (('return', V('a') if True else None),))
    return Item('func:generic', [f], 'function')


@kind('func:local-init')
def _k(ctx):
    loc = [('x1', INT, gen(ctx, 'int', 2, 'none')), ('x2', STR, S('init')), ('x3', LIST_INT, ('agg', ())), ('x4', REAL, None),
           ('x5', REAL, None), ('x6', BOOL, FALSE)]
    f = ('function', ctx.nm('f'), ((False, 'a', INT),), INT, tuple(loc), (('return', OP('+', V('x1'), V('a'))),))
    return Item('func:local-init', [f], 'function')


@kind('func:nested')
def _k(ctx):
    outer, inner = ctx.nm('f'), ctx.nm('g', False)
    g = ('function', inner, ((False, 'a', INT),), INT, (), (('return', OP('*', V('a'), I(2))),))
    c = ('constant', ctx.nm('c', False), INT, I(42))
    f = ('function', outer, ((False, 'q', INT),), INT, (('z', INT, None),),
         (('assign', V('z'), OP('+', CALL(inner, V('q')), V(c[1]))), ('return', V('z'))))
    return Item('func:nested', [f], 'function', nested={outer: [g, c]})


@kind('func:local-entity-type')
def _k(ctx):
    outer, tn = ctx.nm('f'), ctx.nm('t', False)
    t = ('type', tn, INT, ())
    f = ('function', outer, ((False, 'q', INT),), INT, (('z', NAMED(tn), None),), (('assign', V('z'), V('q')), ('return', V('z'))))
    return Item('func:local-entity-type', [f], 'function', nested={outer: [t]})


@kind('proc:var')
def _k(ctx):
    r = ctx.rnd
    ps = [(True, 'o1', INT), (True, 'o2', INT), (False, 'a', INT), (True, 'o3', LIST_INT), (False, 'b', INT), (False, 'c', REAL)]
    r.shuffle(ps)
    p = ('procedure', ctx.nm('p'), tuple(ps[:r.randrange(2, 7)]), None, (('z', INT, None),), (('assign', V('z'), I(2)),))
    return Item('proc:var', [p], 'procedure')


@kind('proc:var-named-types')
def _k(ctx):
    """VAR / by-value parameters of defined, entity and simple types; neighbours often share the type object
    (the fixed matrix of vf/c07_lists.py enumerates the small shapes; this draws longer lists)"""
    r = ctx.rnd
    tn, en = ctx.nm('t'), ctx.nm('e')
    pool = [NAMED(tn), NAMED(en), INT, AGG('list', NAMED(en), I(1), INDET), ('generic', None), ('aggregate', None, ('generic', None))]
    ps, t = [], r.choice(pool)
    for i in range(r.randrange(2, 9)):
        if r.random() < 0.4:
            t = r.choice(pool)
        ps.append((r.random() < 0.5, 'a%d' % i, t))
    p = ('procedure', ctx.nm('p'), tuple(ps), None, (('z', INT, None),), (('assign', V('z'), I(2)),))
    return Item('proc:var-named-types', [('type', tn, STR, ()), mk_entity(en, attrs=[(V('x'), False, INT)]), p], 'procedure')


@kind('proc:no-params')
def _k(ctx):
    p = ('procedure', ctx.nm('p'), (), None, (('z', INT, None),), (('assign', V('z'), I(2)),))
    return Item('proc:no-params', [p], 'procedure')


@kind('proc:empty-body')
def _k(ctx):
    return Item('proc:empty-body', [('procedure', ctx.nm('p'), ((False, 'a', INT),), None, (), ())], 'procedure')


def _rule(ctx, name, labels, stmts=False, n_ent=1):
    ens = [ctx.nm('e') for _ in range(n_ent)]
    es = [mk_entity(en, attrs=[(V('a'), False, INT)]) for en in ens]
    wh = []
    for lab in labels:
        en = ctx.rnd.choice(ens)
        wh.append((ctx.nm('wr', False) if lab else None,
                   OP(ctx.rnd.choice(['=', '>=']), CALL('sizeof', ('query', 'q', V(en), OP('>', ('attr', V('q'), 'a'), I(ctx.rnd.randrange(2, 90))))), I(0))))
    loc, body = (), ()
    if stmts:
        loc = (('cnt', INT, I(0)),)
        body = (('repeat', ('k', I(1), CALL('sizeof', V(ens[0])), I(1)), None, None,
                 (('assign', V('cnt'), OP('+', V('cnt'), ('attr', ('index', V(ens[0]), V('k')), 'a'))),)),)
        wh.append((ctx.nm('wr', False), OP('<', V('cnt'), I(1000))))
    return Item(name, es + [('rule', ctx.nm('r'), tuple(ens), loc, body, tuple(wh))], 'rule')


@kind('rule:where-labelled')
def _k(ctx):
    return _rule(ctx, 'rule:where-labelled', [True] * ctx.rnd.randrange(1, 4))


@kind('rule:where-unlabelled')
def _k(ctx):
    return _rule(ctx, 'rule:where-unlabelled', [False] * ctx.rnd.randrange(1, 3))


@kind('rule:statements')
def _k(ctx):
    return _rule(ctx, 'rule:statements', [], stmts=True)


@kind('rule:multi-entity')
def _k(ctx):
    return _rule(ctx, 'rule:multi-entity', [True, True], n_ent=ctx.rnd.randrange(2, 5))


ATTR_TYPES = [INT, REAL, STR, BOOL, LOG, NUM, BINT, ('stringt', I(20), False), ('stringt', I(4), True), ('binaryt', I(8), True),
              ('realt', I(4)), LIST_INT, AGG('list', STR, I(1), INDET), AGG('set', REAL, I(0), I(5)), AGG('bag', INT, I(2), INDET),
              AGG('array', INT, I(1), I(3)), AGG('array', REAL, UN('-', I(1)), I(1)), AGG('list', AGG('list', REAL, I(2), I(2)), I(1), INDET)]


@kind('entity:attrs')
def _k(ctx):
    r = ctx.rnd
    attrs = [(V(ctx.nm('at')), False, r.choice(ATTR_TYPES)) for _ in range(r.randrange(1, 8))]
    return Item('entity:attrs', [mk_entity(ctx.nm('e'), attrs=attrs)], 'entity')


@kind('entity:attrs-same-type-run')
def _k(ctx):
    t = ctx.rnd.choice(ATTR_TYPES)
    attrs = [(V(ctx.nm('at', False)), False, t) for _ in range(ctx.rnd.randrange(2, 6))]
    return Item('entity:attrs-same-type-run', [mk_entity(ctx.nm('e'), attrs=attrs)], 'entity')


@kind('entity:optional')
def _k(ctx):
    r = ctx.rnd
    attrs = [(V(ctx.nm('at')), r.random() < 0.6, r.choice(ATTR_TYPES)) for _ in range(r.randrange(2, 6))]
    attrs[0] = (attrs[0][0], True, attrs[0][2])
    return Item('entity:optional', [mk_entity(ctx.nm('e'), attrs=attrs)], 'entity')


@kind('entity:aggr-flags')
def _k(ctx):
    attrs = [(V('u1'), False, AGG('list', INT, I(1), INDET, uniq=True)),
             (V('o1'), False, AGG('array', INT, I(1), I(5), opt=True)),
             (V('ou'), False, AGG('array', STR, I(0), I(2), opt=True, uniq=True)),
             (V('u2'), True, AGG('array', REAL, I(1), I(2), uniq=True))]
    ctx.rnd.shuffle(attrs)
    return Item('entity:aggr-flags', [mk_entity(ctx.nm('e'), attrs=attrs[:ctx.rnd.randrange(1, 5)])], 'entity')


@kind('entity:bound-exprs')
def _k(ctx):
    c = ctx.nm('c')
    attrs = [(V('b1'), False, AGG('list', INT, I(1), V(c))), (V('b2'), False, AGG('array', REAL, OP('-', V(c), I(2)), OP('*', V(c), I(2)))),
             (V('b3'), False, ('stringt', OP('+', V(c), I(2)), False))]
    return Item('entity:bound-exprs', [('constant', c, INT, I(5)), mk_entity(ctx.nm('e'), attrs=attrs)], 'entity')


@kind('entity:entity-typed-attrs')
def _k(ctx):
    a, b = ctx.nm('e'), ctx.nm('e')
    tn = ctx.nm('t')
    ea = mk_entity(a, attrs=[(V('x'), False, INT)])
    t = ('type', tn, ('select', (a,)), ())
    eb = mk_entity(b, attrs=[(V('r1'), False, NAMED(a)), (V('r2'), True, AGG('set', NAMED(a), I(1), INDET)), (V('r3'), False, NAMED(tn)),
                             (V('r4'), False, NAMED(b))])
    return Item('entity:entity-typed-attrs', [ea, t, eb], 'entity')


@kind('entity:derive')
def _k(ctx):
    r = ctx.rnd
    der = [(V(ctx.nm('d', False)), INT, gen(ctx, 'int', 2, 'ent')), (V(ctx.nm('d', False)), STR, gen(ctx, 'str', 1, 'ent')),
           (V(ctx.nm('d', False)), BOOL, gen(ctx, 'bool', 2, 'ent')), (V(ctx.nm('d', False)), LIST_INT, gen(ctx, 'list', 1, 'ent'))]
    r.shuffle(der)
    return Item('entity:derive', [mk_entity(ctx.nm('e'), derive=der[:r.randrange(1, 5)])], 'entity')


@kind('entity:derive-only')
def _k(ctx):
    return Item('entity:derive-only', [mk_entity(ctx.nm('e'), attrs=(), derive=[(V('d1'), INT, I(7)), (V('d2'), INT, OP('+', V('d1'), I(2)))])], 'entity')


def _inv(ctx, name, mk):
    a, b = ctx.nm('e'), ctx.nm('e')
    eb = mk_entity(b, attrs=[(V('ref'), False, NAMED(a)), (V('refs'), False, AGG('set', NAMED(a), I(1), INDET))])
    ea = mk_entity(a, attrs=[(V('x'), False, INT)], inverse=mk(b))
    return Item(name, [ea, eb], 'entity')


@kind('entity:inverse')
def _k(ctx):
    r = ctx.rnd
    return _inv(ctx, 'entity:inverse', lambda b: [(V('inv1'), r.choice([AGG('set', NAMED(b), I(0), I(1)), AGG('bag', NAMED(b), I(1), INDET), AGG('set', NAMED(b))]), 'ref')])


@kind('entity:inverse-single')
def _k(ctx):
    return _inv(ctx, 'entity:inverse-single', lambda b: [(V('inv1'), NAMED(b), 'ref')])


@kind('entity:inverse-several')
def _k(ctx):
    return _inv(ctx, 'entity:inverse-several', lambda b: [(V('inv1'), AGG('set', NAMED(b), I(0), INDET), 'ref'), (V('inv_second'), AGG('bag', NAMED(b)), 'refs')])


@kind('entity:all-clauses')
def _k(ctx):
    a, b = ctx.nm('e'), ctx.nm('e')
    eb = mk_entity(b, attrs=[(V('ref'), False, NAMED(a))])
    ea = mk_entity(a, attrs=[(V('x'), False, INT), (V('y'), True, STR)], derive=[(V('d'), INT, OP('+', V('x'), I(2)))],
                   inverse=[(V('inv1'), AGG('set', NAMED(b), I(0), INDET), 'ref')], unique=[('ur1', (V('x'),))],
                   wh=[('wr1', OP('>', V('x'), I(2)))])
    return Item('entity:all-clauses', [ea, eb], 'entity')


def _uniq(ctx, name, labels):
    attrs = [(V('k%d' % i), False, ctx.rnd.choice([INT, STR])) for i in range(4)]
    un = []
    for lab in labels:
        n = ctx.rnd.randrange(1, 4)
        un.append((ctx.nm('ur', False) if lab else None, tuple(V('k%d' % i) for i in ctx.rnd.sample(range(4), n))))
    return Item(name, [mk_entity(ctx.nm('e'), attrs=attrs, unique=un)], 'entity')


@kind('entity:unique-labelled')
def _k(ctx):
    return _uniq(ctx, 'entity:unique-labelled', [True] * ctx.rnd.randrange(1, 4))


@kind('entity:unique-unlabelled')
def _k(ctx):
    return _uniq(ctx, 'entity:unique-unlabelled', [False] * ctx.rnd.randrange(1, 3))


@kind('entity:unique-mixed')
def _k(ctx):
    return _uniq(ctx, 'entity:unique-mixed', ctx.rnd.choice([[True, False], [False, True], [True, False, True]]))


@kind('entity:unique-qualified')
def _k(ctx):
    sup, sub = ctx.nm('e'), ctx.nm('e')
    e1 = mk_entity(sup, attrs=[(V('a'), False, INT)])
    e2 = mk_entity(sub, attrs=[(V('b'), False, INT)], subs=[sup],
                   unique=[('ur1', (('attr', ('group', SELF, sup), 'a'), V('b')))])
    return Item('entity:unique-qualified', [e1, e2], 'entity')


def _wh(ctx, name, labels):
    wh = [(ctx.nm('wr', False) if lab else None, ensure_attr(ctx, gen(ctx, 'bool', 2, 'ent'))) for lab in labels]
    return Item(name, [mk_entity(ctx.nm('e'), wh=wh)], 'entity')


@kind('entity:where-labelled')
def _k(ctx):
    return _wh(ctx, 'entity:where-labelled', [True] * ctx.rnd.randrange(1, 4))


@kind('entity:where-unlabelled')
def _k(ctx):
    return _wh(ctx, 'entity:where-unlabelled', [False] * ctx.rnd.randrange(1, 3))


@kind('entity:where-mixed')
def _k(ctx):
    return _wh(ctx, 'entity:where-mixed', ctx.rnd.choice([[True, False], [False, True]]))


@kind('entity:where-long-label')
def _k(ctx):
    wh = [('wr_' + 'x' * ctx.rnd.choice([12, 30]), ensure_attr(ctx, gen(ctx, 'bool', 2, 'ent'))), ('w', ensure_attr(ctx, gen(ctx, 'bool', 1, 'ent')))]
    return Item('entity:where-long-label', [mk_entity(ctx.nm('e'), wh=wh)], 'entity')


def _super(ctx, name, mk, abstract=False, n=4):
    sup = ctx.nm('e')
    subs = [ctx.nm('e') for _ in range(n)]
    e = mk_entity(sup, attrs=[(V('a'), False, INT)], abstract=abstract, sup=mk([V(s) for s in subs]) if mk else None)
    return Item(name, [e] + [mk_entity(s, attrs=[(V('b'), False, INT)], subs=[sup]) for s in subs], 'entity')


@kind('entity:supertype-oneof')
def _k(ctx):
    return _super(ctx, 'entity:supertype-oneof', lambda s: ('oneof', tuple(s)), n=ctx.rnd.randrange(2, 7))


@kind('entity:supertype-and')
def _k(ctx):
    return _super(ctx, 'entity:supertype-and', lambda s: OP('and', s[0], s[1]), n=2)


@kind('entity:supertype-andor')
def _k(ctx):
    return _super(ctx, 'entity:supertype-andor', lambda s: OP('andor', OP('andor', s[0], s[1]), s[2]), n=3)


@kind('entity:supertype-single')
def _k(ctx):
    return _super(ctx, 'entity:supertype-single', lambda s: s[0], n=1)


@kind('entity:supertype-nested')
def _k(ctx):
    forms = [lambda s: OP('andor', ('oneof', (s[0], s[1])), ('oneof', (s[2], s[3]))),
             lambda s: OP('and', ('oneof', (s[0], s[1])), ('oneof', (s[2], s[3]))),
             lambda s: ('oneof', (s[0], OP('and', s[1], s[2]), s[3])),
             lambda s: ('oneof', (s[0], ('oneof', (s[1], s[2])), s[3])),
             lambda s: OP('and', OP('andor', s[0], s[1]), OP('andor', s[2], s[3]))]
    return _super(ctx, 'entity:supertype-nested', ctx.rnd.choice(forms), abstract=ctx.rnd.random() < 0.4)


# ISO 10303-11: AND binds tighter than ANDOR
@kind('entity:supertype-and-under-andor')
def _k(ctx):
    forms = [lambda s: OP('andor', s[0], OP('and', s[1], s[2])), lambda s: OP('andor', OP('andor', s[0], s[1]), OP('and', s[2], s[3]))]
    return _super(ctx, 'entity:supertype-and-under-andor', ctx.rnd.choice(forms))


@kind('entity:supertype-right-nested')
def _k(ctx):
    o = ctx.rnd.choice(['and', 'andor'])
    return _super(ctx, 'entity:supertype-right-nested', lambda s: OP(o, s[0], OP(o, s[1], s[2])))


@kind('entity:abstract')
def _k(ctx):
    return _super(ctx, 'entity:abstract', None, abstract=True, n=2)


@kind('entity:abstract-of')
def _k(ctx):
    return _super(ctx, 'entity:abstract-of', lambda s: ('oneof', tuple(s)), abstract=True, n=3)


@kind('entity:subtype-multi')
def _k(ctx):
    sups = [ctx.nm('e') for _ in range(ctx.rnd.randrange(2, 6))]
    es = [mk_entity(s, attrs=[(V('a_' + s), False, INT)]) for s in sups]
    return Item('entity:subtype-multi', es + [mk_entity(ctx.nm('e'), attrs=[(V('z'), False, INT)], subs=sups)], 'entity')


@kind('entity:supertype-and-subtype')
def _k(ctx):
    a, b, c = ctx.nm('e'), ctx.nm('e'), ctx.nm('e')
    return Item('entity:supertype-and-subtype', [
        mk_entity(a, attrs=[(V('x'), False, INT)]), mk_entity(b, attrs=(), sup=('oneof', (V(c),)), subs=[a], abstract=ctx.rnd.random() < 0.5),
        mk_entity(c, attrs=(), subs=[b])], 'entity')


@kind('entity:redeclared-attr')
def _k(ctx):
    sup, sub, tn = ctx.nm('e'), ctx.nm('e'), ctx.nm('t')
    t = ('type', tn, INT, ())
    e1 = mk_entity(sup, attrs=[(V('a'), True, NUM), (V('n'), False, INT)])
    e2 = mk_entity(sub, attrs=[(('attr', ('group', SELF, sup), 'a'), False, INT)], subs=[sup])
    return Item('entity:redeclared-attr', [t, e1, e2], 'entity')


@kind('entity:derived-redeclared')
def _k(ctx):
    sup, sub = ctx.nm('e'), ctx.nm('e')
    e1 = mk_entity(sup, attrs=[(V('a'), False, INT), (V('n'), False, INT)])
    e2 = mk_entity(sub, attrs=(), subs=[sup], derive=[(('attr', ('group', SELF, sup), 'a'), INT, OP('*', ('attr', ('group', SELF, sup), 'n'), I(2)))])
    return Item('entity:derived-redeclared', [e1, e2], 'entity')


@kind('entity:empty')
def _k(ctx):
    return Item('entity:empty', [mk_entity(ctx.nm('e'), attrs=())], 'entity')


@kind('type:simple')
def _k(ctx):
    r = ctx.rnd
    ts = [INT, REAL, STR, BOOL, LOG, NUM, BINT]
    return Item('type:simple', [('type', ctx.nm('t'), r.choice(ts), ()) for _ in range(r.randrange(1, 4))], 'type')


@kind('type:width')
def _k(ctx):
    ts = [('stringt', I(10), False), ('stringt', I(3), True), ('binaryt', I(8), False), ('binaryt', I(32), True), ('realt', I(8))]
    return Item('type:width', [('type', ctx.nm('t'), ctx.rnd.choice(ts), ())], 'type')


@kind('type:aggregate')
def _k(ctx):
    ts = [t for t in ATTR_TYPES if t[0] == 'aggr']
    return Item('type:aggregate', [('type', ctx.nm('t'), ctx.rnd.choice(ts), ())], 'type')


@kind('type:renamed')
def _k(ctx):
    a, b, c = ctx.nm('t'), ctx.nm('t'), ctx.nm('t')
    return Item('type:renamed', [('type', a, REAL, ()), ('type', b, NAMED(a), ()), ('type', c, AGG('list', NAMED(b), I(1), I(3)), ())], 'type')


@kind('type:enum')
def _k(ctx):
    n = ctx.rnd.choice([1, 2, 3, 5, 30])
    return Item('type:enum', [('type', ctx.nm('t'), ('enum', tuple(ctx.nm('en_it') for _ in range(n))), ())], 'type')


@kind('type:select')
def _k(ctx):
    n = ctx.rnd.choice([1, 2, 3, 12])
    ens = [ctx.nm('e') for _ in range(n)]
    tn = ctx.nm('t')
    inner = ('type', tn, INT, ())
    items = tuple(ens) + ((tn,) if ctx.rnd.random() < 0.5 else ())
    return Item('type:select', [mk_entity(e, attrs=[(V('x'), False, INT)]) for e in ens] + [inner, ('type', ctx.nm('t'), ('select', items), ())], 'type')


def _twh(ctx, name, labels):
    wh = tuple((ctx.nm('wr', False) if lab else None, OP(ctx.rnd.choice(['>', '<>', '>=']), SELF, I(ctx.rnd.randrange(2, 99)))) for lab in labels)
    return Item(name, [('type', ctx.nm('t'), ctx.rnd.choice([INT, REAL, NUM]), wh)], 'type')


@kind('type:where-labelled')
def _k(ctx):
    return _twh(ctx, 'type:where-labelled', [True] * ctx.rnd.randrange(1, 4))


@kind('type:where-unlabelled')
def _k(ctx):
    return _twh(ctx, 'type:where-unlabelled', [False] * ctx.rnd.randrange(1, 3))


@kind('type:where-mixed')
def _k(ctx):
    return _twh(ctx, 'type:where-mixed', [True, False])


@kind('type:where-aggregate')
def _k(ctx):
    wh = ((ctx.nm('wr', False), OP('=', CALL('sizeof', ('query', 'q', SELF, OP('<', V('q'), I(2)))), I(0))),
          (ctx.nm('wr', False), OP('>', ('index', SELF, I(1)), I(2))))
    return Item('type:where-aggregate', [('type', ctx.nm('t'), AGG('list', INT, I(1), I(3)), wh)], 'type')


# ---- interfaces: the library schema holds what is imported
def _lib_decls(ctx, n):
    ens = [ctx.nm('le') for _ in range(n)]
    fn, cn, tn = ctx.nm('lf'), ctx.nm('lc'), ctx.nm('lt')
    lib = [mk_entity(e, attrs=[(V('x'), False, INT)]) for e in ens]
    lib.append(('function', fn, ((False, 'a', INT),), INT, (), (('return', OP('+', V('a'), I(2))),)))
    lib.append(('constant', cn, INT, I(99)))
    lib.append(('type', tn, STR, ()))
    return ens, fn, cn, tn, lib


def _iface(name, what, listed, alias):
    @kind(name)
    def _k(ctx):
        ens, fn, cn, tn, lib = _lib_decls(ctx, ctx.rnd.randrange(1, 5))
        items = (('*', None),)
        names = {e: e for e in ens}
        names[tn] = tn
        if listed:
            pool = list(ens) + [tn] + ([fn, cn] if what == 'reference' else [])
            items = []
            for n in pool:
                al = ctx.nm('al') if alias and (n == ens[0] or ctx.rnd.random() < 0.5) else None
                items.append((n, al))
                names[n] = al or n
            if alias and not any(a for _, a in items):
                items[0] = (items[0][0], ctx.nm('al'))
                names[items[0][0]] = items[0][1]
            items = tuple(sorted(items, key=repr))
        user = mk_entity(ctx.nm('e'), attrs=[(V('r%d' % i), False, NAMED(names[e])) for i, e in enumerate(ens)] + [(V('s'), False, NAMED(names[tn]))])
        return Item(name, [user], 'schema', interfaces=[(what, None, items)], lib=lib)


_iface('use:all', 'use', False, False)
_iface('use:items', 'use', True, False)
_iface('use:as', 'use', True, True)
_iface('reference:all', 'reference', False, False)
_iface('reference:items', 'reference', True, False)
_iface('reference:as', 'reference', True, True)


# ------------------------------------------------------------------ schemas
class Schema(object):
    """model of one generated file: main schema (+ optional library schema)"""

    def __init__(self, name, items, style):
        self.name = name
        self.items = list(items)
        self.style = style
        self.lib = name + '_lib'

    def has_lib(self):
        return any(it.lib for it in self.items)

    def subset(self, idx):
        return Schema(self.name, [self.items[i] for i in idx], self.style)

    def model(self):
        """{key: tree}, {key: item index} exactly as c07_ref.parse() keys the text"""
        m, owner = {((), 'schema', self.name): ('schema', self.name)}, {}
        if self.has_lib():
            m[((), 'schema', self.lib)] = ('schema', self.lib)
        for i, it in enumerate(self.items):
            for d in it.decls:
                k = ((self.name,), d[0], d[1])
                m[k] = d
                owner[k] = i
            for alg, ds in it.nested.items():
                for d in ds:
                    k = ((self.name, alg), d[0], d[1])
                    m[k] = d
                    owner[k] = i
            for d in it.lib:
                k = ((self.lib,), d[0], d[1])
                m[k] = d
                owner[k] = i
            for what, _, items in it.interfaces:
                k = ((self.name,), what, self.lib)
                old = m.get(k)
                its = tuple(sorted(set(items) | set(old[2] if old else ()), key=repr))
                m[k] = (what, self.lib, its)
                owner[k] = i
        return m, owner

    def text(self, seed=0):
        st = Style(random.Random('c07style/%s/%s' % (self.name, seed)), plain=self.style == 'plain') if isinstance(self.style, str) else self.style
        r = st.rnd
        out = []
        for sch, body in ((self.lib, 'lib'), (self.name, 'main')):
            if body == 'lib' and not self.has_lib():
                continue
            em = Emitter(st)
            em.k('schema')
            em.name(sch)
            em.o(';')
            em.nl()
            decls = []
            for it in self.items:
                if body == 'lib':
                    decls += [(d, None) for d in it.lib]
                else:
                    for what, _, items in it.interfaces:
                        em.interface((what, self.lib, items))
                    decls += [(d, it.nested) for d in it.decls]
            consts = [d for d, _ in decls if d[0] == 'constant']
            if consts:
                em.constants(consts)
            rest = [(d, n) for d, n in decls if d[0] != 'constant']
            if not st.plain:
                r.shuffle(rest)
            for d, n in rest:
                em.decl(d, n)
            em.k('end_schema')
            em.o(';')
            em.tail(sch)
            out.append(em.text())
        return '\n'.join(out) + '\n'


ASSOC_PRINTED = ('+', '*', 'and', 'or', 'xor', '=', '||', 'andor')


def sanitize(t, masked):
    """rewrite the sub-shapes named by masked kinds that the random expression generator may produce by chance"""
    if not isinstance(t, tuple):
        return t
    t = tuple(sanitize(c, masked) for c in t)
    while (len(t) == 4 and t[0] == 'op' and t[1] in ASSOC_PRINTED and isinstance(t[3], tuple) and len(t[3]) == 4
           and t[3][0] == 'op' and t[3][1] == t[1] and ('expr:right-nested:' + t[1] in masked or
                                                       (t[1] == '+' and 'expr:right-nested:str+' in masked))):
        t = ('op', t[1], sanitize(('op', t[1], t[2], t[3][2]), masked), t[3][3])
    return t


def finish_item(it, masked):
    if masked and not it.kind.startswith(('expr:right-nested', 'entity:supertype-right-nested')):
        it.decls = [sanitize(d, masked) for d in it.decls]
    return it


def make_item(kind_name, rnd, tag='', masked=()):
    return finish_item(KINDS[kind_name][0](Ctx(rnd, tag, masked)), masked)


def random_schema(rnd, name, n_items, masked=(), must=()):
    """items of the kinds in `must`, filled up to n_items with random kinds outside `masked` (kinds with an open finding)"""
    pool = [(k, w) for k, (f, w) in sorted(KINDS.items()) if k not in masked]
    ctx = Ctx(rnd, masked=masked)
    items = []
    lib_used = any(k.startswith(('use:', 'reference:')) for k in must)
    for k in must:
        items.append(finish_item(KINDS[k][0](ctx), masked))
    tries = 0
    while len(items) < n_items and tries < 10 * n_items:
        tries += 1
        k = rnd.choices([p[0] for p in pool], [p[1] for p in pool])[0]
        if k.startswith(('use:', 'reference:')):
            if lib_used:
                continue
            lib_used = True
        items.append(finish_item(KINDS[k][0](ctx), masked))
    rnd.shuffle(items)
    return Schema(name, items, Style(random.Random(rnd.random())))


def deal_kinds(rnd, n_schemas, masked=(), per_schema=6):
    """every unmasked kind at least once per run: shuffled decks dealt round-robin; -> [kinds] per schema"""
    kinds = sorted(k for k in KINDS if k not in masked)
    iface = [k for k in kinds if k.startswith(('use:', 'reference:'))]
    rest = [k for k in kinds if k not in iface]
    musts = [[] for _ in range(n_schemas)]
    pos = 0
    while min(len(m) for m in musts) < per_schema:
        deck = rest[:]
        rnd.shuffle(deck)
        for k in deck:
            musts[pos % n_schemas].append(k)
            pos += 1
    for i in range(0, n_schemas, 3):
        if iface:
            musts[i].append(iface[(i // 3) % len(iface)])
    return musts


def probe_schema(kind_name, variant=0, masked=()):
    """fixed schema holding just that construct: depends on (kind, variant) only, never on the run's seed;
    shapes of OTHER masked kinds that the expression generator produces by chance are rewritten as in random schemas"""
    rnd = random.Random('c07probe/%s/%d' % (kind_name, variant))
    it = make_item(kind_name, rnd, masked=frozenset(masked) - {kind_name})
    nm = 'probe_' + ''.join(c if c.isalnum() else '_' for c in kind_name).strip('_').lower() + '_%d' % variant
    return Schema(nm, [it], Style(random.Random(0), plain=True))
