"""C20 helpers: deterministic lexical fault matrix, a lexical oracle that reads the input itself, faults wrapped in
warning-only context, two faults in one file.

1. lex_findings(): every PE030 / PE031 / PE032 / PE033 diagnostic of ANY run is compared with the input text: the quoted
   non-hex character must be a non-hex character of an encoded string literal "...." on the reported line, the quoted
   digit count must be the length of an encoded string literal on that line whose length is not a multiple of 8, the
   quoted identifier must be a `_name` on that line, the quoted character one of the illegal characters on that line; a
   literal with a wrong length must get its count diagnostic (exactly one), a literal with non-hex characters at least
   one (and at most one per such character) digit diagnostic.
2. enc_cases(): encoded string literals of every length class x every index class of a bad digit (none / first / inner /
   7 / 8 / 9 / 15 / 16 / last but one / last), two bad digits, all bad, two literals in one file, two on one line; the
   literal sits between two REAL constants that make the scanner print a `limits` warning when warnings are on.
3. wrap(): a single-fault mutant plus warning-only declarations (all seven named classes + the unnamed argument-count
   warning) placed before and / or after the fault.
4. pair(): two single-fault mutants of two different schemas in one file.
"""
import copy
import random
import re

HEX = set('0123456789abcdefABCDEF')
ILLEGAL = set('$%&@^{}~')
CLS = {30: 'encoded string: non-hex digit', 31: 'encoded string: digit count not a multiple of 8',
       32: 'identifier starting with underscore', 33: 'illegal character'}

_ENC = re.compile(r'"([^"\n]*)"')
_UND = re.compile(r'(?<![A-Za-z0-9_])_[A-Za-z0-9_]*')
_ARG = {30: re.compile(r'^non-hex digit \(([\s\S]*)\) in encoded string literal$'),
        31: re.compile(r'^number of digits \((.*)\) in encoded string literal is not divisible by 8$'),
        32: re.compile(r'^identifier \(([\s\S]*)\) cannot start with underscore$'),
        33: re.compile(r'^character \(([\s\S]*)\) is not a valid lexical element by itself$')}


def _text(data):
    return data.decode('latin-1') if isinstance(data, bytes) else data


def literals_by_line(text):
    """{1-based line: [content of each encoded string literal on it]}; lines with an apostrophe or a remark are left
    out (a double quote may be part of a simple string or of a remark there)."""
    out = {}
    for i, l in enumerate(_text(text).split('\n')):
        if '"' not in l or "'" in l or '--' in l or '(*' in l or '*)' in l:
            continue
        lits = _ENC.findall(l)
        if lits and l.count('"') == 2 * len(lits):
            out[i + 1] = lits
    return out


def _multiset_sub(a, b):
    """a <= b as multisets"""
    b = list(b)
    for x in a:
        if x not in b:
            return False
        b.remove(x)
    return True


def lex_findings(text, diags, shift=0, tool='check-express'):
    """-> [(key, what)] for the lexical diagnostics in `diags` against the input `text`."""
    out = []
    text = _text(text)
    lines = text.split('\n')
    lits = literals_by_line(text)
    skipped = set(i + 1 for i, l in enumerate(lines) if '"' in l) - set(lits)

    def key(code, sym):
        return '%s PE%03d x %s|%s' % (CLS[code], code, tool, sym)
    got = {30: {}, 31: {}, 32: {}, 33: {}}
    for d in diags:
        if d.code not in _ARG or d.sev != 'ERROR' or d.line is None:
            continue
        m = _ARG[d.code].match(d.msg)
        if not m:
            continue                 # format mismatch is reported by the caller
        got[d.code].setdefault(d.line - shift, []).append((m.group(1), d.raw))
    all_bad = [c for ls in lits.values() for s in ls for c in s if c not in HEX]
    all_len = [len(s) for ls in lits.values() for s in ls if len(s) % 8]
    # ---- PE030: quoted character
    for ln, qs in sorted(got[30].items()):
        if ln in skipped:
            continue
        bad = [c for s in lits.get(ln, []) for c in s if c not in HEX]
        quoted = [q for q, _r in qs]
        if _multiset_sub(quoted, bad):
            continue
        for q, raw in qs:
            if q not in bad:
                if q in all_bad:
                    out.append((key(30, 'line number wrong'), '%r: no literal on line %d has a non-hex digit %r' % (raw[:160], ln, q)))
                elif len(q) == 1 and q in HEX:
                    out.append((key(30, 'argument text wrong: got a valid hex digit'), '%r; literals on that line %r' % (raw[:160], lits.get(ln))))
                else:
                    out.append((key(30, 'argument text wrong: got text not from the input'), '%r; non-hex characters on that line %r' % (raw[:160], bad)))
                break
        else:
            out.append((key(30, 'more diagnostics than offending characters'), '%d x PE030 %r on line %d, offending characters %r' % (len(qs), quoted, ln, bad)))
    # ---- PE031: quoted count
    for ln, qs in sorted(got[31].items()):
        if ln in skipped:
            continue
        want = [str(len(s)) for s in lits.get(ln, []) if len(s) % 8]
        quoted = [q for q, _r in qs]
        if sorted(quoted) == sorted(want):
            continue
        have = [len(s) for s in lits.get(ln, [])]
        for q, raw in qs:
            if q not in want:
                if re.match(r'^\d+$', q) and int(q) in all_len:
                    out.append((key(31, 'line number wrong'), '%r: literals on line %d have %r digits' % (raw[:160], ln, have)))
                else:
                    out.append((key(31, 'argument text wrong: got a number that is not the digit count of the literal'),
                                '%r; literals on line %d have %r digits (%r)' % (raw[:160], ln, have, lits.get(ln))))
                break
        else:
            if len(quoted) > len(want):
                out.append((key(31, 'more diagnostics than offending literals'), '%d x PE031 %r on line %d, literals %r' % (len(qs), quoted, ln, lits.get(ln))))
    # ---- expected and absent
    for ln, ls in sorted(lits.items()):
        bad = [c for s in ls for c in s if c not in HEX]
        n_bad_lits = sum(1 for s in ls if any(c not in HEX for c in s))
        if bad and len(got[30].get(ln, [])) < n_bad_lits and not any(q in bad for x in got[30].values() for q, _r in x):
            out.append((key(30, 'diagnostic not produced'), 'line %d: %r has non-hex digits %r; PE030 lines: %r' % (ln, ls, bad, [r for x in got[30].values() for _q, r in x][:3])))
        want = [str(len(s)) for s in ls if len(s) % 8]
        have = [q for q, _r in got[31].get(ln, [])]
        if want and len(have) < len(want) and not any(q in want for x in got[31].values() for q, _r in x):
            out.append((key(31, 'diagnostic not produced'), 'line %d: %r has %s digits; PE031 lines: %r' % (ln, ls, want, [r for x in got[31].values() for _q, r in x][:3])))
    # ---- PE032 / PE033: quoted text occurs on the line
    for ln, qs in sorted(got[32].items()):
        src = lines[ln - 1] if 1 <= ln <= len(lines) else ''
        names = _UND.findall(src)
        for q, raw in qs:
            if q not in names:
                where = 'line number wrong' if any(q in _UND.findall(l) for l in lines) else 'argument text wrong: got text not from the input'
                out.append((key(32, where), '%r; line %d is %r' % (raw[:160], ln, src[:120])))
                break
    for ln, qs in sorted(got[33].items()):
        src = lines[ln - 1] if 1 <= ln <= len(lines) else ''
        if "'" in src or '"' in src or '--' in src or '(*' in src or '*)' in src:
            continue
        have = [c for c in src if c in ILLEGAL]
        quoted = [q for q, _r in qs]
        if quoted != have:
            raw = qs[0][1]
            if any(q not in ILLEGAL or len(q) != 1 for q in quoted) or not _multiset_sub(quoted, [c for c in text if c in ILLEGAL]):
                out.append((key(33, 'argument text wrong: got text not from the input'), '%r; illegal characters on line %d: %r' % (raw[:160], ln, have)))
            elif not _multiset_sub(quoted, have):
                out.append((key(33, 'line number wrong'), '%r; illegal characters on line %d: %r' % (raw[:160], ln, have)))
    return out


# ------------------------------------------------------------------------------------------------ encoded string matrix
class LexCase(object):
    """One input of the deterministic matrix; quacks like a c04_faults.Mutant where main() needs it."""
    cid = 'lex_matrix'
    variant = ''
    base = None

    def __init__(self, name, text, shape, lits, expect=None):
        self.name, self.text, self.shape, self.lits = name, text, shape, lits
        self.expect = expect          # [(code, 1-based line, quoted text)] in scanning order, None: derived from the literals
        self.cls = 'lexical matrix'
        self.lexeme = name

    def describe(self):
        return dict(cls=self.cls, shape=self.shape, literals=self.lits)


LENS = [1, 2, 3, 4, 5, 7, 8, 9, 11, 12, 15, 16, 17, 20, 23, 24, 25, 32]
BADCH = ['G', 'Z', 'g', 'z', 'x', '_', ' ', '.', '-', 'h', ':', '/', 'O', 'l']
SMALL = '1.0e-45'


def _index_classes(n):
    """(label, index) of the bad digit for a literal of n characters"""
    c = [('first', 0), ('second', 1), ('inner', n // 2), ('index 7', 7), ('index 8', 8), ('index 9', 9), ('index 15', 15),
         ('index 16', 16), ('last but one', n - 2), ('last', n - 1)]
    seen, out = set(), []
    for lab, i in c:
        if 0 <= i < n and i not in seen:
            seen.add(i)
            out.append((lab, i))
    return out


def _file(name, const_lines):
    lines = ['SCHEMA %s;' % name, 'CONSTANT', '  zl_w0 : REAL := %s;' % SMALL]
    lines += const_lines
    lines += ['  zl_w9 : REAL := %s;' % SMALL, 'END_CONSTANT;', 'ENTITY zl_e;', '  zl_a : STRING;', 'END_ENTITY;', 'END_SCHEMA;']
    return '\n'.join(lines) + '\n'


def enc_cases(seed, quick=True):
    """Encoded string literal matrix.  The shapes are fixed; only the valid hex digits are drawn per seed."""
    rng = random.Random('c20lex/%d' % seed)
    out = []
    k = [0]

    def digits(n):
        return [rng.choice('0123456789ABCDEFabcdef') for _ in range(n)]

    def badch():
        k[0] += 1
        return BADCH[k[0] % len(BADCH)]

    def add(shape, lits, same_line=False):
        name = 'zl_%d' % len(out)
        if same_line:
            cl = ['  zl_k1 : STRING := %s;' % ' + '.join('"%s"' % s for s in lits)]
        else:
            cl = []
            for j, s in enumerate(lits):
                cl.append('  zl_k%d : STRING := "%s";' % (j + 1, s))
                if j + 1 < len(lits):
                    cl.append('  zl_m%d : REAL := %s;' % (j + 1, SMALL))
        out.append(LexCase(name, _file(name, cl), shape, lits))

    for n in LENS:
        lc = 'length %s' % ('multiple of 8' if n % 8 == 0 else ('< 8' if n < 8 else 'not a multiple of 8'))
        add((lc, 'no bad digit'), [''.join(digits(n))])
        for lab, i in _index_classes(n):
            d = digits(n)
            d[i] = badch()
            add((lc, 'bad digit ' + lab), [''.join(d)])
    for n in (8, 11, 16, 20, 3):
        for i, j in ((0, n - 1), (3, 4), (7, 8), (1, 2)):
            if not (0 <= i < j < n):
                continue
            d = digits(n)
            d[i], d[j] = badch(), badch()
            add(('length %d' % n, 'two bad digits %d,%d' % (i, j)), [''.join(d)])
        add(('length %d' % n, 'all digits bad'), [''.join(badch() for _ in range(n))])
        d = digits(n)
        c = badch()
        d[0] = d[n - 1] = c
        add(('length %d' % n, 'same bad digit twice'), [''.join(d)])
    # two literals in one file: every combination of {fine, bad digit, bad count, both}
    def lit(kind, n_ok, n_bad):
        n = n_bad if 'count' in kind or kind == 'both' else n_ok
        d = digits(n)
        if 'digit' in kind or kind == 'both':
            d[rng.choice([x for x in (1, 2, 3, n - 1) if 0 < x < n] or [0])] = badch()
        return ''.join(d)
    kinds = ['fine', 'bad digit', 'bad count', 'both']
    for a in kinds:
        for b in kinds:
            if a == b == 'fine':
                continue
            add(('two literals', '%s, then %s' % (a, b)), [lit(a, 8, 11), lit(b, 16, 4)])
    for a, b in (('bad digit', 'bad count'), ('bad count', 'bad digit'), ('both', 'fine'), ('fine', 'both'), ('bad count', 'bad count')):
        add(('two literals on one line', '%s, then %s' % (a, b)), [lit(a, 8, 12), lit(b, 16, 5)], same_line=True)
    return out


# other lexical faults at fixed places: (shape, line text with the fault(s))
def other_cases():
    out = []

    def add(shape, body):
        name = 'zl_o%d' % len(out)
        lines = ['SCHEMA %s;' % name, 'CONSTANT', '  zl_w0 : REAL := %s;' % SMALL, '  zl_c : INTEGER := 1;', 'END_CONSTANT;', 'ENTITY zl_e;'] + body + \
                ['END_ENTITY;', 'FUNCTION zl_f(p : REAL) : BOOLEAN;', '  RETURN (p > %s);' % SMALL, 'END_FUNCTION;', 'END_SCHEMA;']
        exp = []
        for i, l in enumerate(lines):
            for t in re.findall(r'[$&^~@]|(?<![A-Za-z0-9_])_[A-Za-z0-9_]*', l):
                exp.append((32 if t[0] == '_' else 33, i + 1, t))
        out.append(LexCase(name, '\n'.join(lines) + '\n', shape, body, exp))
    for ch in '$&^~@':
        add(('illegal character', 'after colon'), ['  zl_a : %s INTEGER;' % ch])
        add(('illegal character', 'line start'), ['%s zl_a : INTEGER;' % ch])
        add(('illegal character', 'before semicolon'), ['  zl_a : INTEGER %s;' % ch])
    add(('illegal character', 'two different on one line'), ['  zl_a : $ INTEGER @;'])
    add(('illegal character', 'same twice on one line'), ['  zl_a : ~ INTEGER ~;'])
    add(('illegal character', 'two on consecutive lines'), ['  zl_a : & INTEGER;', '  zl_b : ^ REAL;'])
    add(('illegal character', 'adjacent'), ['  zl_a : $@ INTEGER;'])
    for nm in ('_a', '_', '__x', '_9', '_zl_long_name_1'):
        add(('underscore identifier', 'attribute name %d chars' % len(nm)), ['  %s : INTEGER;' % nm])
    add(('underscore identifier', 'two on two lines'), ['  _p1 : INTEGER;', '  _p2 : REAL;'])
    add(('underscore identifier', 'type position'), ['  zl_a : _ty;'])
    add(('mixed', 'underscore identifier and illegal character'), ['  _p1 : $ INTEGER;'])
    return out


# ------------------------------------------------------------------------------------------------ warning context
def warn_decls(P):
    """Declarations that are accepted by stepcode and make it print warnings of every named class (+ argument count,
    which has no class name) when warnings are on.  -> (constant line, declaration lines, {code: count})"""
    const = '  %sk : REAL := %s;' % (P, SMALL)
    d = ['TYPE %sen = ENUMERATION OF (%sred, %sgreen);' % (P, P, P), 'END_TYPE;',
         'TYPE %sen2 = ENUMERATION OF (%sup, %sdown);' % (P, P, P), 'END_TYPE;',
         'TYPE %ssel = SELECT (%sen, %sen2);' % (P, P, P), 'END_TYPE;',
         'TYPE %sl1 = LIST OF INTEGER;' % P, 'END_TYPE;',
         'TYPE %ss1 = SET OF INTEGER;' % P, 'END_TYPE;',
         'TYPE %sselagg = SELECT (%sl1, %ss1);' % (P, P, P), 'END_TYPE;',
         'ENTITY %ssup;' % P, '  %si : INTEGER;' % P, 'END_ENTITY;',
         'ENTITY %ssub' % P, '  SUBTYPE OF (%ssup);' % P, '  %sr : REAL;' % P, '  %sb : BINARY;' % P,
         'DERIVE', '  SELF\\%ssup.%si : INTEGER := 3;' % (P, P),
         'UNIQUE', '  %su : SELF\\%ssup.%si;' % (P, P, P), 'END_ENTITY;',
         'FUNCTION %sf(v : %ssup; b : BINARY; s : %ssel; g : %sselagg) : BOOLEAN;' % (P, P, P, P),
         '  IF v.%sr > %s THEN' % (P, SMALL), '    RETURN (b[1] = b[2]);', '  END_IF;',
         '  IF g[1] = 1 THEN', '    RETURN (TRUE);', '  END_IF;',
         '  CASE s OF', '    %ssel.%snolabel : RETURN (FALSE);' % (P, P), '    OTHERWISE : RETURN (TRUE);', '  END_CASE;',
         '  RETURN (%sg(1, 2, 3) > 0);' % P, 'END_FUNCTION;',
         'FUNCTION %sg(p, q : INTEGER) : INTEGER;' % P, '  RETURN (p + q);', 'END_FUNCTION;']
    return const, d


WHERE = ('before', 'after', 'both')
SYNTAX_CLASSES = ('drop_semicolon', 'drop_end_entity', 'stray_keyword')


def wrap(m, where):
    """Copy of mutant m with warning-only declarations before / after / on both sides of the rest of the file; recorded
    line numbers are moved along.  None when the text cannot be edited safely (bytes input)."""
    if isinstance(m.text, bytes):
        return None
    lines = m.text.split('\n')
    assert lines[-1] == ''
    lines = lines[:-1]
    ins = []         # (number of original lines before the insertion, new lines)
    if where in ('before', 'both'):
        cb, db = warn_decls('zb_')
        ic = next((i for i, l in enumerate(lines) if l.startswith('CONSTANT')), None)
        ie = next((i for i, l in enumerate(lines) if l.startswith('END_CONSTANT')), None)
        if ic is None or ie is None or ie < ic:
            return None
        ins.append((ic + 1, [cb]))
        ins.append((ie + 1, db))
    if where in ('after', 'both'):
        ca, da = warn_decls('za_')
        ends = [i for i, l in enumerate(lines) if l.startswith('END_SCHEMA')]
        iec = [i for i, l in enumerate(lines) if l.startswith('END_CONSTANT')]
        if not ends or not iec:
            return None
        ins.append((iec[-1], [ca]))               # last constant of the last CONSTANT block
        ins.append((ends[-1], da))
    ins.sort(key=lambda x: x[0])
    new, prev = [], 0
    for at, block in ins:
        new += lines[prev:at] + block
        prev = at
    new += lines[prev:]

    def mv(L):
        return None if L is None else L + sum(len(b) for at, b in ins if at < L)
    w = copy.copy(m)
    w.text = '\n'.join(new) + '\n'
    w.line, w.decl_line, w.first_line = mv(m.line), mv(m.decl_line), mv(m.first_line)
    w.lines_ok = set(mv(x) for x in m.lines_ok) if m.lines_ok else m.lines_ok
    w.where = where
    w.judge_lines = m.cid not in SYNTAX_CLASSES
    w.plain = m
    return w


# ------------------------------------------------------------------------------------------------ two faults in one file
# diagnostics of the first pass over the text (scanner, and the parser's symbol tables: redeclarations) / of the resolver
PAIR_LEX = ('illegal_char', 'underscore_ident', 'bad_hex_digit', 'bad_hex_count', 'dup_entity', 'dup_type', 'dup_attribute', 'dup_function', 'dup_constant')
PAIR_RES = ('undef_type', 'undef_supertype', 'undef_function', 'undef_procedure', 'undef_attr_ref', 'inherited_attr', 'inverse_missing_attr',
            'missing_supertype')


class Pair(object):
    cid = 'two_faults'
    variant = ''

    def __init__(self, a, b, phase):
        self.a, self.b, self.phase = a, b, phase
        self.off = a.text.count('\n') + 1
        self.text = a.text + '\n' + b.text
        self.cls = 'two faults in one file (%s)' % phase
        self.lexeme = (a.lexeme, b.lexeme)
        self.base = a.base

    def describe(self):
        return dict(cls=self.cls, first=self.a.describe(), second=self.b.describe(), second_line_offset=self.off)


def pairs(muts, seed, rounds):
    """Pairs (a, b) of single-fault mutants of two different single-schema files whose diagnostics belong to the same
    phase of the front end (scanner / resolver), so neither hides the other by ending the run."""
    rng = random.Random('c20pair/%d' % seed)
    out = []
    for phase, ids in (('first pass', PAIR_LEX), ('resolution', PAIR_RES)):
        pool = [m for m in muts if m.cid in ids and len(m.base.schemas) == 1 and not isinstance(m.text, bytes)]
        by = {}
        for m in pool:
            by.setdefault(m.cid, []).append(m)
        combos = [(x, y) for x in sorted(by) for y in sorted(by)]
        for x, y in combos * rounds:                 # every ordered pair of classes
            a = rng.choice(by[x])
            cb = [m for m in by[y] if m.base.name != a.base.name]
            if not cb:
                continue
            out.append(Pair(a, rng.choice(cb), phase))
    return out
