"""C02 oracle: what the run-time dictionary must contain according to the schema model, and the comparison
with what harness/regdump.cc printed.

Everything compared here is named in the property statement: entity / named-type SETS, per-entity supertypes (in
order), subtypes (as a set: EXPRESS gives subtypes no order), abstractness, explicit + derived (+ redeclared) attributes
in declaration order with name, optionality and type, inverse attributes, underlying types of defined types,
enumeration items in order, select members (set), aggregate kind / bounds / UNIQUE / OPTIONAL, and the attribute list
of a freshly created instance (Part 21 order from Schema.all_attrs).  Names compare case-insensitively (EXPRESS).

The library's encoding of an unbounded upper bound `?` is INT_MAX: src/express/expr.c sets LITERAL_INFINITY->u.integer
= INT_MAX, exp2cxx prints that integer in SetBound2(), and the hand-written header schema
(src/cleditor/SdaiHeaderSchemaInit.cc) uses SetBound2( 2147483647 ) for LIST [1:?].  An aggregate written without a
bound specification (`LIST OF x`) leaves both bounds unset (Bound1Type() == bound_unset); EXPRESS defines that as [0:?],
so either "unset" or constant 0 / INT_MAX is accepted.
"""
import json
from . import model as M

INT_MAX = 2147483647


def lc(s):
    return s.lower() if isinstance(s, str) else s


def parse_dump(text):
    """regdump stdout -> dict(schemas=[..], entities=[..], types=[..], insts={lname: obj}, begun=[..], done=bool, bad=[lines])."""
    d = dict(schemas=[], entities=[], types=[], insts={}, p21={}, begun=[], done=False, bad=[])
    for line in text.splitlines():
        if not line.startswith('{'):
            continue
        try:
            o = json.loads(line)
        except ValueError:
            d['bad'].append(line[:200])
            continue
        k = o.get('k')
        if k == 'schema':
            d['schemas'].append(o['name'])
        elif k == 'entity':
            d['entities'].append(o)
        elif k == 'type':
            d['types'].append(o)
        elif k == 'inst-begin':
            d['begun'].append(o['entity'])
        elif k == 'inst':
            d['insts'][lc(o['entity'])] = o
        elif k == 'inst-p21':
            d['p21'][lc(o['entity'])] = o.get('text')
        elif k == 'done':
            d['done'] = True
    return d


def p21_parameters(text):
    """'#0=E($,*,$);' -> ['$', '*', '$'] (top-level parameters of a simple entity instance record); None when the text
    is not of that form.  A fresh instance carries no strings, so parentheses and commas are structural."""
    t = (text or '').strip()
    i, j = t.find('('), t.rfind(')')
    if not t.startswith('#') or i < 0 or j < i or t[j + 1:].strip() != ';':
        return None
    body = t[i + 1:j]
    out, cur, depth = [], '', 0
    for c in body:
        if c == '(':
            depth += 1
        elif c == ')':
            depth -= 1
        if c == ',' and depth == 0:
            out.append(cur.strip())
            cur = ''
        else:
            cur += c
    if cur.strip() or out:
        out.append(cur.strip())
    return out


# ----------------------------------------------------------------------------------------------- type comparison
def underlying_nonref(schema, t):
    """NonRefType() the dictionary must report for a domain type (first non-REFERENCE fundamental type)."""
    u = schema.underlying(t)
    if isinstance(u, M.TypeDef):
        return 'ENUMERATION' if u.kind == 'enum' else 'SELECT'
    if u.kind in M.SIMPLE:
        return u.kind
    if u.kind == 'entity':
        return 'INSTANCE'
    return u.akind


def cmp_bounds(t, d, shape, out, where):
    if getattr(t, 'lob', None) is not None:
        # bound specifications other than integer literals / `?` (CONSTANT, function call, attribute of the instance)
        from . import c02_bounds
        c02_bounds.cmp_bounds(t, d, shape, out, where)
        return
    lo, hi = t.lo, t.hi
    b1t, b2t = d.get('b1t'), d.get('b2t')
    if lo is None and hi is None and t.akind != 'ARRAY':
        ok = (b1t == 'unset' and b2t == 'unset') or (b1t == 'constant' and b2t == 'constant' and d.get('b1') == 0 and d.get('b2') == INT_MAX)
        if not ok:
            out.append(('%s|%s without bound specification|bounds differ' % (where, shape),
                        'want unset or [0:%d], got %s %s / %s %s' % (INT_MAX, b1t, d.get('b1'), b2t, d.get('b2'))))
        return
    wlo = 0 if lo is None else lo
    whi = INT_MAX if hi is None else hi
    neg = ' (negative lower bound)' if wlo < 0 else ''
    if b1t != 'constant' or d.get('b1') != wlo:
        out.append(('%s|%s%s|Bound1 differs' % (where, shape, neg), 'want %d, got %s %s' % (wlo, b1t, d.get('b1'))))
    if b2t != 'constant' or d.get('b2') != whi:
        out.append(('%s|%s%s|Bound2 differs' % (where, shape, ' (negative upper bound)' if whi < 0 else ''),
                    'want %s, got %s %s' % ('? = %d' % INT_MAX if hi is None else whi, b2t, d.get('b2'))))


def elem_shape(schema, t):
    if t.kind == 'aggr':
        return 'aggregate'
    if t.kind == 'entity':
        return 'entity'
    if t.kind in M.SIMPLE:
        return 'simple'
    td = schema.type(t.name)
    if td.kind == 'simple':
        return typedef_shape(schema, td)
    return {'enum': 'enumeration', 'select': 'select'}[td.kind]


def cmp_type(schema, t, d, out, where, depth=0):
    """Model type expression t against a dumped type descriptor d (see tdj() in regdump.cc)."""
    if d is None:
        out.append(('%s|%s|type descriptor missing (null)' % (where, shape_of(schema, t, depth)), 'want %s' % t.text()))
        return
    if t.kind in M.SIMPLE:
        if d.get('c') == 'entity' or lc(d.get('name')) != t.kind.lower() or d.get('ft') != t.kind:
            out.append(('%s|%s|type differs' % (where, shape_of(schema, t, depth)), 'want %s, got %s' % (t.kind, brief(d))))
        return
    if t.kind == 'entity':
        if d.get('c') != 'entity' or lc(d.get('name')) != t.name.lower():
            out.append(('%s|%s|type differs' % (where, shape_of(schema, t, depth)), 'want entity %s, got %s' % (t.name, brief(d))))
        return
    if t.kind == 'named':
        if d.get('c') == 'entity' or lc(d.get('name')) != t.name.lower():
            out.append(('%s|%s|type differs' % (where, shape_of(schema, t, depth)), 'want defined type %s, got %s' % (t.name, brief(d))))
        return
    # aggregate written in place (unnamed descriptor)
    shape = shape_of(schema, t, depth)
    if d.get('c') == 'entity' or d.get('name'):
        out.append(('%s|%s|type differs' % (where, shape), 'want %s, got %s' % (t.text(), brief(d))))
        return
    cmp_aggr(schema, t, d, out, where, shape, depth)


def cmp_aggr(schema, t, d, out, where, shape, depth):
    if d.get('c') != t.akind.lower() or d.get('ft') != t.akind:
        out.append(('%s|%s|aggregate kind differs' % (where, shape), 'want %s, got class %s fundamental type %s' % (t.akind, d.get('c'), d.get('ft'))))
        return
    cmp_bounds(t, d, shape, out, where)
    uq = d.get('uniq')
    if (uq == 'T') != bool(t.unique) or uq not in ('T', 'F', 'unset'):
        out.append(('%s|%s|UNIQUE flag differs' % (where, shape), 'want %s, got %s' % (t.unique, uq)))
    if t.akind == 'ARRAY':
        oe = d.get('optel')
        if (oe == 'T') != bool(t.optional):
            out.append(('%s|%s|OPTIONAL elements flag differs' % (where, shape), 'want %s, got %s' % (t.optional, oe)))
    cmp_type(schema, t.elem, d.get('ref'), out, where + ' element', depth + 1)


def shape_of(schema, t, depth=0):
    if t.kind == 'aggr':
        return '%s OF %s' % (t.akind, elem_shape(schema, t.elem))
    return elem_shape(schema, t)


def brief(d):
    if d is None:
        return 'null'
    return '%s %s (%s)' % (d.get('c'), d.get('name'), d.get('ft'))


# ----------------------------------------------------------------------------------------------- expected lists
def expected_attr_list(ent):
    """ExplicitAttr() order: explicit attributes, then the DERIVE clause (EXPRESS fixes the clause order)."""
    exp = [('explicit', a) for a in ent.attrs]
    return exp + [('derived', d) for d in ent.derived]


def attr_name_matches(kind, a, got):
    """Declared name.  A re-declared attribute is written SELF\\sup.attr; the dictionary spells it 'sup.attr'."""
    g = lc(got) or ''
    if g.startswith('self\\'):
        g = g[5:]
    red = getattr(a, 'redeclares', None)
    nm = a.name.lower()
    if nm.startswith('self\\'):          # explicit re-declaration written as raw name text (extras)
        nm = nm[5:]
        return g in (nm, nm.split('.')[-1])
    if red:
        return g in (a.name.lower(), '%s.%s' % (red[0].lower(), a.name.lower()))
    return g == nm


def simple_attr_name(n):
    """'SELF\\sup.attr' / 'sup.attr' / 'attr' -> 'attr' (lower case)"""
    return n.lower().split('.')[-1]


def unique_rule_forms(ent):
    """{attribute simple name: set of (labelled?, joint?, written SELF\\sup.attr?)} over the UNIQUE rules of the entity."""
    out = {}
    for lab, names in ent.unique:
        for n in names:
            out.setdefault(simple_attr_name(n), set()).add((bool(lab), len(names) > 1, '\\' in n))
    return out


def compare(schema, dump, chk=None):
    """-> [(key, what)].  chk (optional) receives coverage: chk.seen(descriptor kind, field) for non-default model values."""
    out = []

    def seen(*t):
        if chk is not None:
            chk.seen(*t)

    # ---- schemas
    sn = [lc(x) for x in dump['schemas']]
    if sn != [schema.name.lower()]:
        out.append(('schema-set|any|registered schemas differ', 'want [%s], got %s' % (schema.name, dump['schemas'])))
    # ---- entity set
    want_e = [e.name.lower() for e in schema.entities]
    got_e = [lc(e['name']) for e in dump['entities']]
    if sorted(got_e) != sorted(set(got_e)):
        out.append(('entity-set|any|entity registered twice', str(sorted(x for x in set(got_e) if got_e.count(x) > 1))))
    miss = sorted(set(want_e) - set(got_e))
    extra = sorted(set(got_e) - set(want_e))
    if miss:
        out.append(('entity-set|any|entity missing from the dictionary', str(miss)))
    if extra:
        out.append(('entity-set|any|entity in the dictionary that the schema does not declare', str(extra)))
    seen('entity-set', len(want_e) > 1)
    gmap = {lc(e['name']): e for e in dump['entities']}
    for ent in schema.entities:
        g = gmap.get(ent.name.lower())
        if g is None:
            continue
        eshape = 'root' if not ent.supers else ('subtype of %d' % len(ent.supers) if len(ent.supers) < 2 else 'subtype of several')
        if (g.get('abstract') == 'T') != bool(ent.abstract) or g.get('abstract') not in ('T', 'F'):
            out.append(('entity|%s|abstract flag differs' % ('ABSTRACT' if ent.abstract else 'not abstract'), '%s: want %s, got %s' % (ent.name, ent.abstract, g.get('abstract'))))
        if ent.abstract:
            seen('entity', 'abstract')
        gs = [lc(x) for x in g.get('supers', [])]
        if gs != [x.lower() for x in ent.supers]:
            out.append(('entity|%s|supertype list differs' % eshape, '%s: want %s, got %s' % (ent.name, ent.supers, g.get('supers'))))
        if ent.supers:
            seen('entity', 'supertypes', min(len(ent.supers), 3))
        gsub = [lc(x) for x in g.get('subs', [])]
        wsub = [x.lower() for x in schema.subs(ent.name)]
        if sorted(gsub) != sorted(wsub):
            out.append(('entity|%s|subtype set differs' % eshape, '%s: want %s, got %s' % (ent.name, sorted(wsub), g.get('subs'))))
        if wsub:
            seen('entity', 'subtypes', min(len(wsub), 3))
        # ---- UNIQUE: the descriptors of an entity are the attributes it declares or re-declares; such an attribute is unique iff
        # one of the UNIQUE rules of THIS entity names it (a rule of a subtype over an inherited attribute constrains the
        # subtype's population only: the supertype's descriptor stays not unique)
        urf = unique_rule_forms(ent)

        def cmp_unique(where, a, ga, wopt):
            sn = simple_attr_name(a.name)
            wu = sn in urf
            red = bool(getattr(a, 'redeclares', None)) or a.name.lower().startswith('self\\')
            if red and wu and all(q for _l, _j, q in urf[sn]):
                # SELF\sup.attr in a rule of the entity that re-declares attr: the group qualifier designates the declaration
                # in sup (exp2cxx flags nothing and warns "possibly unnecessary qualifiers"); whether the descriptor of the
                # re-declaration counts as named is not decided by the schema -> either value
                seen(where, 'unique', 'qualified reference to an attribute the entity re-declares (not judged)')
                if ga.get('uniq') in ('T', 'F'):
                    return
            if (ga.get('uniq') == 'T') != wu or ga.get('uniq') not in ('T', 'F'):
                out.append(('%s|%s%s|unique flag differs' % (where, 'OPTIONAL, ' if wopt else '', 'named in a UNIQUE rule of its entity' if wu else 'not named in a UNIQUE rule of its entity'),
                            '%s.%s: want Unique() = %s, got %s' % (ent.name, a.name, wu, ga.get('uniq'))))
            for lab, joint, _q in sorted(urf.get(sn, [])):
                seen(where, 'unique', 'labelled' if lab else 'unlabelled', 'joint' if joint else 'single', bool(wopt))
        own_names = set(simple_attr_name(a.name) for a in ent.attrs + ent.derived + ent.inverse)
        if any(n not in own_names for n in urf):
            seen('entity', 'UNIQUE rule over an inherited attribute')
        # ---- explicit + derived attribute descriptors, in order
        want = expected_attr_list(ent)
        got = g.get('attrs', [])
        if len(want) != len(got) or not all(attr_name_matches(k, a, ga.get('name')) for (k, a), ga in zip(want, got)):
            wn = [('SELF\\%s.%s' % a.redeclares) if getattr(a, 'redeclares', None) else a.name for _k, a in want]
            gn = [ga.get('name') for ga in got]
            sym = 'attribute list differs'
            if sorted(x.lower().split('.')[-1] for x in wn) == sorted((x or '').lower().split('.')[-1] for x in gn):
                sym = 'attribute order differs'
            out.append(('attr-list|%s%s|%s' % (eshape, ' with DERIVE' if ent.derived else '', sym), '%s: want %s, got %s' % (ent.name, wn, gn)))
        else:
            for (k, a), ga in zip(want, got):
                where = 'attr' if k == 'explicit' else 'derived-attr'
                shape = shape_of(schema, a.type)
                red = bool(getattr(a, 'redeclares', None)) or a.name.lower().startswith('self\\')
                if lc(ga.get('owner')) != ent.name.lower():
                    out.append(('%s|%s|owner differs' % (where, shape), '%s.%s: got owner %s' % (ent.name, a.name, ga.get('owner'))))
                wopt = bool(getattr(a, 'optional', False))
                if (ga.get('opt') == 'T') != wopt or ga.get('opt') not in ('T', 'F'):
                    out.append(('%s|%s|optional flag differs' % (where, 'OPTIONAL' if wopt else 'required'), '%s.%s: want %s, got %s' % (ent.name, a.name, wopt, ga.get('opt'))))
                if wopt:
                    seen(where, 'optional')
                cmp_unique(where, a, ga, wopt)
                # which of the four kinds of attribute the dictionary says this is (explicit / derived / re-declared; inverse
                # attributes are judged below).  exp2cxx prints the descriptor in a code path chosen by the kind of the
                # attribute's type, so the key names the clause and the kind of type the attribute is (re-)declared with.
                dshape = ('in-line ' if a.type.kind == 'aggr' else '') + shape
                if k == 'explicit':
                    wat = 'redefining' if red else 'explicit'
                    if ga.get('at') != wat or ga.get('derived') == 'T':
                        out.append(('attr|%s|attribute kind differs' % ('explicit re-declaration to %s' % dshape if red else 'explicit attribute, %s' % dshape),
                                    '%s.%s: want %s, got AttrType %s Derived()=%s' % (ent.name, a.name, 're-declared (AttrType_Redefining)' if red else 'explicit',
                                                                                       ga.get('at'), ga.get('derived'))))
                    if red:
                        seen(where, 're-declared', dshape)
                else:
                    if ga.get('at') != 'deriving' or ga.get('derived') != 'T':
                        out.append(('derived-attr|%s|attribute kind differs' % ('derived re-declaration to %s' % dshape if red else 'new derived attribute, %s' % dshape),
                                    '%s.%s: want derived, got AttrType %s Derived()=%s' % (ent.name, a.name, ga.get('at'), ga.get('derived'))))
                    seen(where, 'deriving', dshape if red else False)
                o2 = []
                cmp_type(schema, a.type, ga.get('type'), o2, where)
                for key, what in o2:
                    out.append((key, '%s.%s: %s' % (ent.name, a.name, what)))
                if not o2 and ga.get('type') is not None:
                    wn = underlying_nonref(schema, a.type)
                    if ga.get('nonref') != wn:
                        out.append(('%s|%s|NonRefType differs' % (where, shape), '%s.%s: want %s, got %s' % (ent.name, a.name, wn, ga.get('nonref'))))
                    if a.type.kind != 'aggr' and lc(ga.get('tname')) != (a.type.kind if a.type.kind in M.SIMPLE else a.type.name).lower():
                        out.append(('%s|%s|TypeName differs' % (where, shape), '%s.%s: want %s, got %s' % (ent.name, a.name, a.type.text(), ga.get('tname'))))
                seen(where, 'type', shape)
                if a.type.kind == 'aggr':
                    t = a.type
                    for _lv, bt in _levels(t):
                        if getattr(bt, 'lob', None) is not None:
                            seen('aggr-bounds', 'attribute', bt.akind, bt.lob.kind, bt.hib.kind, _lv)
                    seen('aggr', t.akind, 'bounded' if t.lo is not None else 'unbounded', 'hi?' if t.hi is None else 'hi', bool(t.unique), bool(t.optional), t.elem.kind == 'aggr')
        # ---- inverse
        gi = g.get('inverse', [])
        wi = ent.inverse
        if [lc(x.get('name')) for x in gi] != [i.name.lower() for i in wi]:
            out.append(('inverse-list|any|inverse attribute list differs', '%s: want %s, got %s' % (ent.name, [i.name for i in wi], [x.get('name') for x in gi])))
        else:
            for i, x in zip(wi, gi):
                if lc(x.get('inv_entity')) != i.entity.lower() or lc(x.get('inv_attr')) != i.attr.lower():
                    out.append(('inverse|%s|inverted entity/attribute differs' % ('aggregate' if i.akind else 'single'),
                                '%s.%s: want %s.%s, got %s.%s' % (ent.name, i.name, i.entity, i.attr, x.get('inv_entity'), x.get('inv_attr'))))
                if x.get('opt') != 'F':
                    out.append(('inverse|%s|optional flag differs' % ('aggregate' if i.akind else 'single'), '%s.%s: an INVERSE attribute is never OPTIONAL, got %s' % (ent.name, i.name, x.get('opt'))))
                cmp_unique('inverse', i, x, False)
                if x.get('at') != 'inverse':
                    out.append(('inverse|%s|attribute kind differs' % ('aggregate' if i.akind else 'single'), '%s.%s: AttrType %s' % (ent.name, i.name, x.get('at'))))
                t = M.AGG(i.akind, M.ENT(i.entity), i.lo, i.hi) if i.akind else M.ENT(i.entity)
                o2 = []
                cmp_type(schema, t, x.get('type'), o2, 'inverse')
                for key, what in o2:
                    out.append((key, '%s.%s: %s' % (ent.name, i.name, what)))
                seen('inverse', i.akind or 'single')
    # ---- named types
    want_t = [t.name.lower() for t in schema.types]
    got_t = [lc(t['d'].get('name')) for t in dump['types']]
    if sorted(got_t, key=str) != sorted(set(got_t), key=str):
        out.append(('type-set|any|type registered twice', str([x for x in set(got_t) if got_t.count(x) > 1])))
    tmap = {lc(t['d'].get('name')): t['d'] for t in dump['types']}
    for n in sorted(set(want_t) - set(got_t)):
        out.append(('type-set|%s|defined type missing from the dictionary' % typedef_shape(schema, schema.type(_orig(schema, n))), n))
    extra = sorted((x for x in set(got_t) - set(want_t)), key=str)
    if extra:
        out.append(('type-set|any|type in the dictionary that the schema does not declare', str(extra)))
    for td in schema.types:
        d = tmap.get(td.name.lower())
        if d is None:
            continue
        shape = typedef_shape(schema, td)
        if td.kind == 'enum':
            want = [x.upper() for x in td.items]
            got = d.get('items')
            if d.get('ft') != 'ENUMERATION' or d.get('c') != 'enum':
                out.append(('type|enum|underlying type differs', '%s: got %s' % (td.name, brief(d))))
            elif got is None or [str(x).upper() for x in got] != want:
                sym = 'items differ'
                if got is not None and sorted(str(x).upper() for x in got) == sorted(want):
                    sym = 'item order differs'
                out.append(('type|enum|%s' % sym, '%s: want %s, got %s' % (td.name, want, got)))
            seen('type', 'enum', min(len(want), 4))
        elif td.kind == 'select':
            got = d.get('members')
            if d.get('ft') != 'SELECT' or d.get('c') != 'select' or got is None:
                out.append(('type|select|underlying type differs', '%s: got %s' % (td.name, brief(d))))
            else:
                gm = [lc(m.get('name')) if m else None for m in got]
                wm = [m.lower() for m in td.members]
                if sorted(gm, key=str) != sorted(wm):
                    out.append(('type|select|members differ', '%s: want %s, got %s' % (td.name, sorted(wm), gm)))
                else:
                    for m in got:
                        ise = schema.has_entity(_orig_e(schema, lc(m.get('name'))))
                        if ise != (m.get('c') == 'entity'):
                            out.append(('type|select|member kind differs', '%s: member %s is %s' % (td.name, m.get('name'), m.get('c'))))
            seen('type', 'select', any(schema.has_entity(m) for m in td.members), any((not schema.has_entity(m)) and schema.type(m).kind == 'select' for m in td.members))
        else:
            b = td.base
            if b.kind in M.SIMPLE:
                r = d.get('ref')
                if d.get('ft') != b.kind or r is None or lc(r.get('name')) != b.kind.lower():
                    out.append(('type|%s|underlying type differs' % shape, '%s: want %s, got %s referring to %s' % (td.name, b.kind, d.get('ft'), brief(r))))
            elif b.kind == 'named':
                r = d.get('ref')
                wn = underlying_nonref(schema, b)
                if d.get('ft') != 'REFERENCE' or r is None or lc(r.get('name')) != b.name.lower():
                    out.append(('type|%s|underlying type differs' % shape, '%s: want reference to %s, got %s referring to %s' % (td.name, b.name, d.get('ft'), brief(r))))
                elif d.get('nonref') != wn:
                    out.append(('type|%s|NonRefType differs' % shape, '%s: want %s, got %s' % (td.name, wn, d.get('nonref'))))
            elif b.kind == 'entity':
                r = d.get('ref')
                if r is None or r.get('c') != 'entity' or lc(r.get('name')) != b.name.lower():
                    out.append(('type|%s|underlying type differs' % shape, '%s: want entity %s, got %s' % (td.name, b.name, brief(r))))
            else:
                o2 = []
                cmp_aggr(schema, b, d, o2, 'type', shape, 0)
                for key, what in o2:
                    out.append((key, '%s: %s' % (td.name, what)))
                for _lv, bt in _levels(b):
                    if getattr(bt, 'lob', None) is not None:
                        seen('aggr-bounds', 'defined type', bt.akind, bt.lob.kind, bt.hib.kind, _lv)
                seen('aggr', b.akind, 'bounded' if b.lo is not None else 'unbounded', 'hi?' if b.hi is None else 'hi', bool(b.unique), bool(b.optional), b.elem.kind == 'aggr')
            seen('type', shape)
    return out


def _levels(t):
    n = 0
    while t is not None and t.kind == 'aggr':
        yield n, t
        n, t = n + 1, t.elem


def _orig(schema, lname):
    for t in schema.types:
        if t.name.lower() == lname:
            return t.name
    return lname


def _orig_e(schema, lname):
    for e in schema.entities:
        if e.name.lower() == lname:
            return e.name
    return lname


def typedef_shape(schema, td):
    if td.kind == 'enum':
        return 'enum'
    if td.kind == 'select':
        return 'select'
    b = td.base
    if b.kind in M.SIMPLE:
        return 'defined(simple)'
    if b.kind == 'named':
        u = schema.underlying(b)
        k = u.kind if isinstance(u, M.TypeDef) else ('aggregate' if u.kind == 'aggr' else 'simple')
        return 'renamed %s' % k
    if b.kind == 'entity':
        return 'defined(entity)'
    return 'defined(%s)' % shape_of(schema, b)


# ----------------------------------------------------------------------------------------------- instances
def compare_instances(schema, dump, chk=None):
    out = []
    for ent in schema.entities:
        g = dump['insts'].get(ent.name.lower())
        multi = len(ent.supers) > 1 or any(len(schema.entity(a).supers) > 1 for a in schema.ancestors(ent.name))
        ishape = ('several supertypes' if multi else 'single inheritance' if ent.supers else 'root') + (', abstract' if ent.abstract else '')
        if g is None:
            if ent.name.lower() in [lc(x) for x in dump['begun']] or not dump['done']:
                continue   # the process died here: reported by the caller as a crash
            out.append(('instance|%s|no instance record' % ishape, ent.name))
            continue
        if not g.get('created'):
            out.append(('instance|%s|ObjCreate returned no instance' % ishape, ent.name))
            continue
        # an explicit re-declaration (SELF\\sup.attr : narrower type) is not a new attribute: one value, at the supertype's position
        want = [(a.name.lower(), o.lower(), bool(der)) for o, a, der in schema.all_attrs(ent.name) if not a.name.lower().startswith('self\\')]
        got = [(lc(x.get('name')), lc(x.get('owner')), bool(x.get('derived'))) for x in g.get('attrs', [])]
        if chk is not None:
            chk.seen('instance', ishape, any(w[2] for w in want))
        xr = any(a.name.lower().startswith('self\\') for _o, a, _d in schema.all_attrs(ent.name))
        # the Part 21 record the library writes for the fresh instance: one parameter per inherited-then-own explicit
        # attribute (`*` where a subtype re-declared it as derived, `$` = unset otherwise)
        if ent.name.lower() in dump.get('p21', {}):
            gp = p21_parameters(dump['p21'][ent.name.lower()])
            wp = ['*' if w[2] else '$' for w in want]
            if chk is not None:
                chk.ev()
                chk.seen('instance record', ishape, len(wp) > 0, '*' in wp, xr)
            rshape = ishape + (', explicit re-declaration' if xr else '')
            if gp is None:
                out.append(('instance record|%s|not a Part 21 instance record' % rshape, '%s: %r' % (ent.name, dump['p21'][ent.name.lower()])))
            elif len(gp) != len(wp):
                out.append(('instance record|%s|number of Part 21 parameters differs' % rshape,
                            '%s: a fresh instance is written with %d parameters, the entity has %d explicit attributes (inherited + own): %s'
                            % (ent.name, len(gp), len(wp), dump['p21'][ent.name.lower()].strip())))
            elif gp != wp and not xr:
                # with an explicit re-declaration the library marks the inherited attribute `*` (part of the open finding
                # "explicit re-declaration|attribute list differs", judged below on the attribute list itself)
                out.append(('instance record|%s|unset / derived markers of a fresh instance differ' % rshape,
                            '%s: want %s, got %s' % (ent.name, ','.join(wp), dump['p21'][ent.name.lower()].strip())))
        if want == got:
            continue
        wn = [w[:2] for w in want]
        gn = [x[:2] for x in got]
        red = any(w[2] for w in want)
        if xr:
            ishape += ', explicit re-declaration'
        if len(set(gn)) < len(gn) and sorted(set(gn)) == sorted(wn):
            dup = sorted(set(x for x in gn if gn.count(x) > 1))
            out.append(('instance|%s%s|an attribute appears twice' % (ishape, ', attribute re-declared as derived' if red else ''),
                        '%s: %s listed twice: want %s, got %s' % (ent.name, dup, wn, gn)))
        elif wn == gn:
            bad = [w[0] for w, x in zip(want, got) if w[2] != x[2]]
            out.append(('instance|%s%s|derived flag of an attribute differs' % (ishape, ', attribute re-declared as derived' if red else ''),
                        '%s: attributes %s: want %s, got %s' % (ent.name, bad, want, got)))
        elif sorted(wn) == sorted(gn):
            out.append(('instance|%s|attribute order differs from Part 21 order' % ishape, '%s: want %s, got %s' % (ent.name, wn, gn)))
        else:
            out.append(('instance|%s|attribute list differs' % ishape, '%s: want %s, got %s' % (ent.name, wn, gn)))
    return out
