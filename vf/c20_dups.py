"""C20 helper: deterministic matrix of duplicate-name faults of every kind.

Every case is a file (or a few files) that is valid EXPRESS except for ONE name that is declared twice in one scope.  The
text is written one declaration element per line, so the first and the second declaration have their own lines, which
the case records together with the duplicated NAME.  Families:

  scope      two declarations of each ordered pair of kinds (entity, type, function, procedure, rule, constant,
             subtype constraint-free) in one schema scope;
  local      formal parameter / local variable duplicates in FUNCTION, PROCEDURE and RULE;
  attribute  an attribute name declared twice in one entity: explicit / derived / inverse in every order, and the
             redeclaration form SELF\\super.attr twice (explicit, derived, mixed) or next to a new attribute of that name;
  enum       an enumeration item listed twice in one enumeration;
  label      the same label on two WHERE rules (entity, defined type, RULE) or two UNIQUE rules;
  interface  USE / REFERENCE ... AS clashes: two items of two schemas (or of one schema) renamed to one alias, an alias
             equal to a plainly interfaced name, an alias equal to a local declaration; the exporting schemas live in
             the same file or in their own files found through the schema search path.

The oracle (dup_findings) judges what the property says about such a diagnostic: the quoted identifier is the duplicated
name (never `(null)`, never the other name of a rename), it is attributed to the file and line of one of the two
declarations and the "previous declaration" line (and file) is that of the other one.
"""
import re

ID = r'[A-Za-z_][A-Za-z0-9_]*'
FMT1 = re.compile(r'^Redeclaration of (?P<name>.*)\.  Previous declaration was on line (?P<prev>-?\d+)\.$')
FMT2 = re.compile(r'^Redeclaration of (?P<name>.*)\.  Previous declaration was on line (?P<prev>-?\d+) in file (?P<pfile>.*)\.$')


class DupCase(object):
    cid = 'dup_matrix'
    variant = ''
    base = None

    def __init__(self, family, shape, files, main, name, first, second, other_names=(), path=None):
        """files: {file name: text}; main: the file handed to the tool; first / second: (file name, 1-based line) of the
        two declarations; other_names: identifiers a WRONG diagnostic would be tempted to quote (original names behind AS)."""
        self.family, self.shape, self.files, self.main = family, shape, files, main
        self.name, self.first, self.second = name, first, second
        self.other_names = tuple(other_names)
        self.path = path                      # None: libs (if any) sit in the working directory, else EXPRESS_PATH layout id
        self.cls = 'duplicate name: %s' % family
        self.lexeme = name
        self.text = files[main]

    def describe(self):
        return dict(cls=self.cls, shape=self.shape, name=self.name, first=self.first, second=self.second, files=sorted(self.files))


def _numbered(lines):
    """lines may carry markers '<<1' / '<<2' at their end: -> (clean lines, line of <<1, line of <<2)"""
    out, l1, l2 = [], None, None
    for i, l in enumerate(lines):
        if l.endswith('<<1'):
            l, l1 = l[:-3].rstrip(), i + 1
        elif l.endswith('<<2'):
            l, l2 = l[:-3].rstrip(), i + 1
        out.append(l)
    return out, l1, l2


# ------------------------------------------------------------------------------------------------ declarations by kind
def _decl(kind, name, tag):
    """lines of a schema-level declaration of `name`; tag keeps the inner names of two declarations apart"""
    if kind == 'entity':
        return ['ENTITY %s;' % name, '  zd_%s_a : INTEGER;' % tag, 'END_ENTITY;']
    if kind == 'type':
        return ['TYPE %s = INTEGER;' % name, 'END_TYPE;']
    if kind == 'enum type':
        return ['TYPE %s = ENUMERATION OF (zd_%s_i1, zd_%s_i2);' % (name, tag, tag), 'END_TYPE;']
    if kind == 'select type':
        return ['TYPE %s = SELECT (zd_base_e, zd_base_t);' % name, 'END_TYPE;']
    if kind == 'function':
        return ['FUNCTION %s(zd_%s_p : INTEGER) : INTEGER;' % (name, tag), '  RETURN (zd_%s_p);' % tag, 'END_FUNCTION;']
    if kind == 'procedure':
        return ['PROCEDURE %s(VAR zd_%s_p : INTEGER);' % (name, tag), '  zd_%s_p := zd_%s_p + 1;' % (tag, tag), 'END_PROCEDURE;']
    if kind == 'rule':
        return ['RULE %s FOR (zd_base_e);' % name, 'WHERE', '  zd_%s_w : SIZEOF(zd_base_e) >= 0;' % tag, 'END_RULE;']
    if kind == 'subtype constraint':
        return ['SUBTYPE_CONSTRAINT %s FOR zd_base_e;' % name, 'END_SUBTYPE_CONSTRAINT;']
    raise KeyError(kind)


SCOPE_KINDS = ['entity', 'type', 'enum type', 'select type', 'function', 'procedure', 'rule']


def _schema(name, body, consts=None, iface=()):
    o = ['SCHEMA %s;' % name] + list(iface)
    if consts is not None:
        o += ['CONSTANT'] + consts + ['END_CONSTANT;']
    o += ['TYPE zd_base_t = STRING;', 'END_TYPE;', 'ENTITY zd_base_e;', '  zd_base_a : zd_base_t;', 'END_ENTITY;']
    o += body
    o += ['END_SCHEMA;']
    return o


def _one(family, shape, lines, name, other=()):
    lines, l1, l2 = _numbered(lines)
    assert l1 and l2, (family, shape)
    return DupCase(family, shape, {'in.exp': '\n'.join(lines) + '\n'}, 'in.exp', name, ('in.exp', l1), ('in.exp', l2), other)


def scope_cases():
    out = []
    N = NAME[0]

    def mark(lines, k):
        return [lines[0] + ' <<%d' % k] + lines[1:]
    for a in SCOPE_KINDS:
        for b in SCOPE_KINDS:
            body = mark(_decl(a, N, 'x'), 1) + mark(_decl(b, N, 'y'), 2)
            out.append(_one('scope', '%s, then %s' % (a, b), _schema('zd_s', body), N))
    # a constant against every kind, both orders, and two constants (same block / the only two)
    for b in SCOPE_KINDS:
        out.append(_one('scope', 'constant, then %s' % b, _schema('zd_s', mark(_decl(b, N, 'y'), 2), consts=['  %s : INTEGER := 1; <<1' % N]), N))
    out.append(_one('scope', 'constant, then constant', _schema('zd_s', [], consts=['  %s : INTEGER := 1; <<1' % N, '  zd_other : REAL := 2.0;', '  %s : REAL := 3.0; <<2' % N]), N))
    out.append(_one('scope', 'constant, then constant (adjacent)', _schema('zd_s', [], consts=['  %s : INTEGER := 1; <<1' % N, '  %s : INTEGER := 1; <<2' % N]), N))
    # three declarations apart from each other: the duplicate is far from the first
    body = mark(_decl('entity', N, 'x'), 1) + _decl('entity', 'zd_mid1', 'm1') + _decl('function', 'zd_mid2', 'm2') + mark(_decl('type', N, 'y'), 2)
    out.append(_one('scope', 'entity, then type (declarations in between)', _schema('zd_s', body), N))
    # upper / lower case spelling of the same name
    body = mark(_decl('entity', N, 'x'), 1) + mark(_decl('entity', N.upper(), 'y'), 2)
    out.append(_one('scope', 'entity, then entity (second in upper case)', _schema('zd_s', body), N))
    # two schemas of one name in one file
    lines = ['SCHEMA zd_s; <<1', 'ENTITY zd_e1;', '  zd_a1 : INTEGER;', 'END_ENTITY;', 'END_SCHEMA;', '', 'SCHEMA zd_s; <<2', 'ENTITY zd_e2;', '  zd_a2 : INTEGER;',
             'END_ENTITY;', 'END_SCHEMA;']
    out.append(_one('scope', 'schema, then schema', lines, 'zd_s'))
    return out


def local_cases():
    out = []
    N = NAME[0]

    def fn(kind, head_params, local_lines, stmts):
        """head_params: list of parameter lines (each ends without ';'), printed one per line"""
        hd = {'function': 'FUNCTION zd_f(', 'procedure': 'PROCEDURE zd_f(', 'rule': None}[kind]
        if kind == 'rule':
            o = ['RULE zd_f FOR (zd_base_e);']
        else:
            o = [hd]
            for i, p in enumerate(head_params):
                mk = ''
                mm = re.search(r' <<[12]$', p)
                if mm:
                    p, mk = p[:mm.start()], mm.group(0)
                o.append('    %s%s%s' % (p, ';' if i + 1 < len(head_params) else '', mk))
            o.append('  ) : INTEGER;' if kind == 'function' else '  );')
        if local_lines:
            o += ['LOCAL'] + local_lines + ['END_LOCAL;']
        o += stmts
        if kind == 'function':
            o += ['  RETURN (1);', 'END_FUNCTION;']
        elif kind == 'procedure':
            o += ['END_PROCEDURE;']
        else:
            o += ['WHERE', '  zd_w1 : TRUE;', 'END_RULE;']
        return o
    for kind in ('function', 'procedure'):
        out.append(_one('local', '%s: two formal parameters' % kind, _schema('zd_s', fn(kind, ['%s : INTEGER <<1' % N, 'zd_q : REAL', '%s : REAL <<2' % N], [], [])), N))
        out.append(_one('local', '%s: two formal parameters (adjacent, same type)' % kind, _schema('zd_s', fn(kind, ['%s : INTEGER <<1' % N, '%s : INTEGER <<2' % N], [], [])), N))
        out.append(_one('local', '%s: formal parameter, then local' % kind, _schema('zd_s', fn(kind, ['%s : INTEGER <<1' % N], ['  %s : REAL; <<2' % N], [])), N))
    for kind in ('function', 'procedure', 'rule'):
        prm = ['zd_p : INTEGER'] if kind != 'rule' else []
        out.append(_one('local', '%s: two locals' % kind, _schema('zd_s', fn(kind, prm, ['  %s : INTEGER; <<1' % N, '  zd_l2 : REAL;', '  %s : REAL; <<2' % N], [])), N))
        out.append(_one('local', '%s: two locals (initialised)' % kind, _schema('zd_s', fn(kind, prm, ['  %s : INTEGER := 0; <<1' % N, '  %s : INTEGER := 1; <<2' % N], [])), N))
    # nested function inside a function, named like a local of the outer one
    o = ['FUNCTION zd_f(zd_p : INTEGER) : INTEGER;', '  FUNCTION %s(zd_i : INTEGER) : INTEGER; <<1' % N, '    RETURN (zd_i);', '  END_FUNCTION;',
         '  FUNCTION %s(zd_j : INTEGER) : INTEGER; <<2' % N, '    RETURN (zd_j);', '  END_FUNCTION;', '  RETURN (zd_p);', 'END_FUNCTION;']
    out.append(_one('local', 'function: two inner functions', _schema('zd_s', o), N))
    return out


def attribute_cases():
    out = []
    N = NAME[0]
    forms = {
        'explicit': ('', '  %s : INTEGER;' % N),
        'optional': ('', '  %s : OPTIONAL REAL;' % N),
        'derived': ('DERIVE', '  %s : INTEGER := 1;' % N),
        'inverse': ('INVERSE', '  %s : SET OF zd_user FOR zd_ref;' % N),
    }
    order = ['', 'DERIVE', 'INVERSE']

    def entity(first, second, between=False):
        sec = {'': [], 'DERIVE': [], 'INVERSE': []}
        sa, la = forms[first]
        sb, lb = forms[second]
        sec[sa].append(la + ' <<1')
        if between:
            sec[sa].append({'': '  zd_mid : STRING;', 'DERIVE': '  zd_mid : STRING := \'m\';', 'INVERSE': '  zd_mid : SET OF zd_user FOR zd_ref2;'}[sa])
        sec[sb].append(lb + ' <<2')
        o = ['ENTITY zd_e;']
        for s in order:
            if sec[s]:
                if s:
                    o.append(s)
                o += sec[s]
        o.append('END_ENTITY;')
        o += ['ENTITY zd_user;', '  zd_ref : zd_e;', '  zd_ref2 : zd_e;', 'END_ENTITY;']
        return o
    names = list(forms)
    for a in names:
        for b in names:
            if order.index(forms[a][0]) > order.index(forms[b][0]):
                continue                # sections have a fixed order in an entity body
            out.append(_one('attribute', '%s, then %s' % (a, b), _schema('zd_s', entity(a, b)), N))
    out.append(_one('attribute', 'explicit, then explicit (attribute in between)', _schema('zd_s', entity('explicit', 'explicit', True)), N))
    out.append(_one('attribute', 'one declaration lists the name twice', _schema('zd_s', ['ENTITY zd_e;', '  %s, <<1' % N, '  %s : INTEGER; <<2' % N, 'END_ENTITY;']), N))
    # redeclarations SELF\super.attr
    sup = ['ENTITY zd_sup;', '  %s : NUMBER;' % N, '  zd_keep : NUMBER;', 'END_ENTITY;']

    def sub(lines_a, lines_b):
        """lines_*: (section, line)"""
        sec = {'': [], 'DERIVE': []}
        sec[lines_a[0]].append(lines_a[1] + ' <<1')
        sec[lines_b[0]].append(lines_b[1] + ' <<2')
        o = ['ENTITY zd_sub', '  SUBTYPE OF (zd_sup);']
        for s in ('', 'DERIVE'):
            if sec[s]:
                if s:
                    o.append(s)
                o += sec[s]
        o.append('END_ENTITY;')
        return sup + o
    rx = ('', '  SELF\\zd_sup.%s : REAL;' % N)
    ri = ('', '  SELF\\zd_sup.%s : INTEGER;' % N)
    rd = ('DERIVE', '  SELF\\zd_sup.%s : REAL := 1.0;' % N)
    rd2 = ('DERIVE', '  SELF\\zd_sup.%s : INTEGER := 2;' % N)
    pl = ('', '  %s : INTEGER;' % N)
    pd = ('DERIVE', '  %s : INTEGER := 3;' % N)
    for lab, a, b in (('redeclared explicit twice', rx, ri), ('redeclared explicit, then redeclared derived', rx, rd), ('redeclared derived twice', rd, rd2),
                      ('redeclared explicit, then new explicit attribute', rx, pl), ('new explicit attribute, then redeclared explicit', pl, rx),
                      ('redeclared explicit, then new derived attribute', rx, pd), ('new explicit attribute, then redeclared derived', pl, rd)):
        out.append(_one('attribute', lab, _schema('zd_s', sub(a, b)), N))
    return out


def enum_cases():
    out = []
    N = NAME[0]
    for lab, items in (('first and last of three', ['%s, <<1' % N, 'zd_i2,', '%s <<2' % N]), ('adjacent', ['%s, <<1' % N, '%s <<2' % N]),
                       ('second and third of four', ['zd_i1,', '%s, <<1' % N, '%s, <<2' % N, 'zd_i4'])):
        o = ['TYPE zd_en = ENUMERATION OF ('] + ['    ' + x for x in items] + ['  );', 'END_TYPE;']
        out.append(_one('enum', 'item listed twice: ' + lab, _schema('zd_s', o), N))
    return out


def label_cases():
    out = []
    N = NAME[0]
    ent = ['ENTITY zd_e;', '  zd_a : INTEGER;', '  zd_b : INTEGER;']
    out.append(_one('label', 'two WHERE rules of an entity', _schema('zd_s', ent + ['WHERE', '  %s : zd_a > 0; <<1' % N, '  zd_w2 : zd_b > 0;', '  %s : zd_a > zd_b; <<2' % N, 'END_ENTITY;']), N))
    out.append(_one('label', 'two WHERE rules of an entity (adjacent)', _schema('zd_s', ent + ['WHERE', '  %s : zd_a > 0; <<1' % N, '  %s : zd_b > 0; <<2' % N, 'END_ENTITY;']), N))
    out.append(_one('label', 'two UNIQUE rules of an entity', _schema('zd_s', ent + ['UNIQUE', '  %s : zd_a; <<1' % N, '  %s : zd_b; <<2' % N, 'END_ENTITY;']), N))
    out.append(_one('label', 'two UNIQUE rules of an entity (rule in between)', _schema('zd_s', ent + ['UNIQUE', '  %s : zd_a; <<1' % N, '  zd_u2 : zd_a, zd_b;', '  %s : zd_b; <<2' % N, 'END_ENTITY;']), N))
    out.append(_one('label', 'two WHERE rules of a defined type', _schema('zd_s', ['TYPE zd_t = INTEGER;', 'WHERE', '  %s : SELF > 0; <<1' % N, '  %s : SELF < 9; <<2' % N, 'END_TYPE;']), N))
    out.append(_one('label', 'two WHERE rules of a RULE', _schema('zd_s', ['RULE zd_r FOR (zd_base_e);', 'WHERE', '  %s : SIZEOF(zd_base_e) >= 0; <<1' % N, '  %s : SIZEOF(zd_base_e) < 9; <<2' % N, 'END_RULE;']), N))
    return out


# ------------------------------------------------------------------------------------------------ interface clashes
def _lib(name, P):
    """an exporting schema: entity, defined type, function, constant - all prefixed"""
    return ['SCHEMA %s;' % name, 'CONSTANT', '  %sk : INTEGER := 1;' % P, 'END_CONSTANT;', 'TYPE %st = STRING;' % P, 'END_TYPE;',
            'ENTITY %se;' % P, '  %sa : REAL;' % P, 'END_ENTITY;', 'ENTITY %se2;' % P, '  %sa2 : REAL;' % P, 'END_ENTITY;',
            'FUNCTION %sf(%sp : INTEGER) : INTEGER;' % (P, P), '  RETURN (%sp);' % P, 'END_FUNCTION;', 'END_SCHEMA;']


def interface_cases():
    """-> cases whose exporting schemas are in the same file, and the same cases with one file per schema."""
    out = []
    N = NAME[1]
    A, B = 'zd_lib_a', 'zd_lib_b'
    shapes = []      # (label, interface lines with <<1 <<2, body lines, duplicated name, other names)
    use_body = ['ENTITY zd_top;', '  zd_f : %s;' % N, 'END_ENTITY;']
    for k1, k2 in (('REFERENCE', 'REFERENCE'), ('USE', 'USE'), ('USE', 'REFERENCE'), ('REFERENCE', 'USE')):
        for what, x, y in (('entities', 'la_e', 'lb_e'), ('defined types', 'la_t', 'lb_t'), ('entity and defined type', 'la_e', 'lb_t')):
            shapes.append(('%s / %s: two %s AS one alias' % (k1, k2, what), ['%s FROM %s (%s AS %s); <<1' % (k1, A, x, N), '%s FROM %s (%s AS %s); <<2' % (k2, B, y, N)],
                           use_body, N, (x, y)))
    shapes.append(('REFERENCE / REFERENCE: two functions AS one alias', ['REFERENCE FROM %s (la_f AS %s); <<1' % (A, N), 'REFERENCE FROM %s (lb_f AS %s); <<2' % (B, N)],
                   ['ENTITY zd_top;', '  zd_i : INTEGER;', 'DERIVE', '  zd_d : INTEGER := %s(1);' % N, 'END_ENTITY;'], N, ('la_f', 'lb_f')))
    shapes.append(('REFERENCE / REFERENCE: two constants AS one alias', ['REFERENCE FROM %s (la_k AS %s); <<1' % (A, N), 'REFERENCE FROM %s (lb_k AS %s); <<2' % (B, N)],
                   ['ENTITY zd_top;', '  zd_i : INTEGER;', 'DERIVE', '  zd_d : INTEGER := %s;' % N, 'END_ENTITY;'], N, ('la_k', 'lb_k')))
    for kw in ('REFERENCE', 'USE'):
        shapes.append(('%s: two items of one schema AS one alias (two clauses)' % kw, ['%s FROM %s (la_e AS %s); <<1' % (kw, A, N), '%s FROM %s (la_e2 AS %s); <<2' % (kw, A, N)],
                       use_body, N, ('la_e', 'la_e2')))
        shapes.append(('%s: two items of one schema AS one alias (one clause)' % kw, ['%s FROM %s' % (kw, A), '  (la_e AS %s, <<1' % N, '   la_e2 AS %s); <<2' % N],
                       use_body, N, ('la_e', 'la_e2')))
        shapes.append(('%s: alias equal to a plainly interfaced name (alias second)' % kw, ['%s FROM %s (lb_e); <<1' % (kw, B), '%s FROM %s (la_e AS lb_e); <<2' % (kw, A)],
                       ['ENTITY zd_top;', '  zd_f : lb_e;', 'END_ENTITY;'], 'lb_e', ('la_e',)))
        shapes.append(('%s: alias equal to a plainly interfaced name (alias first)' % kw, ['%s FROM %s (la_e AS lb_e); <<1' % (kw, A), '%s FROM %s (lb_e); <<2' % (kw, B)],
                       ['ENTITY zd_top;', '  zd_f : lb_e;', 'END_ENTITY;'], 'lb_e', ('la_e',)))
        shapes.append(('%s: alias equal to a local entity' % kw, ['%s FROM %s (la_e AS %s); <<1' % (kw, A, N)],
                       ['ENTITY %s; <<2' % N, '  zd_i : INTEGER;', 'END_ENTITY;'], N, ('la_e',)))
        shapes.append(('%s: alias equal to a local defined type' % kw, ['%s FROM %s (la_t AS %s); <<1' % (kw, A, N)],
                       ['TYPE %s = INTEGER; <<2' % N, 'END_TYPE;'], N, ('la_t',)))
    for lab, iface, body, name, other in shapes:
        main = ['SCHEMA zd_main;'] + iface + body + ['END_SCHEMA;']
        # (1) all schemas in one file, exporters first
        libs = _lib(A, 'la_') + [''] + _lib(B, 'lb_') + ['']
        lines, l1, l2 = _numbered(libs + main)
        out.append(DupCase('interface', lab + ' [one file]', {'in.exp': '\n'.join(lines) + '\n'}, 'in.exp', name, ('in.exp', l1), ('in.exp', l2), other))
        # (2) one file per schema; the exporters are found through the search path
        ml, l1, l2 = _numbered(main)
        files = {'in.exp': '\n'.join(ml) + '\n', A + '.exp': '\n'.join(_lib(A, 'la_')) + '\n', B + '.exp': '\n'.join(_lib(B, 'lb_')) + '\n'}
        out.append(DupCase('interface', lab + ' [file per schema]', files, 'in.exp', name, ('in.exp', l1), ('in.exp', l2), other, path='cwd'))
    return out


NAMES = [('zd_twice', 'zd_alias'), ('zd_dup_name', 'zd_other_name'), ('zd_x', 'zd_y'), ('zd_again_1', 'zd_as_2'), ('zd_long_duplicated_identifier_name', 'zd_renamed_item'),
         ('zd_tt', 'zd_aa'), ('zd_n9', 'zd_n8')]
NAME = list(NAMES[0])


def all_cases(seed=0):
    """The shapes are fixed; the seed only picks the spelling of the duplicated name."""
    NAME[:] = NAMES[seed % len(NAMES)]
    return _all_cases()


def _all_cases():
    return scope_cases() + local_cases() + attribute_cases() + enum_cases() + label_cases() + interface_cases()


# ------------------------------------------------------------------------------------------------ oracle
# families / shapes that stepcode accepts without any diagnostic (whether that is right is the business of the accept /
# reject property C04); they stay in the matrix: IF a diagnostic is printed for them it is judged like every other
def must_diagnose(c):
    if c.family == 'label' and 'UNIQUE' in c.shape:
        return False
    if c.family == 'interface' and (c.shape.startswith('USE / REFERENCE') or c.shape.startswith('REFERENCE / USE') or 'equal to a local' in c.shape):
        return False
    return True


def text_class(got, ids):
    if got == '':
        return 'empty'
    if re.match('^' + ID + '$', got) and len(got) > 1 and got.lower() in ids:
        return 'another name from the input'
    return 'text not from the input'


def dup_findings(c, mr, shift=0, tool='check-express'):
    """-> ([(key, what)], diagnosed?) for the run `mr` (c20_multi.MultiRun) of duplicate case c."""
    out = []
    tr = mr.tr
    ids = set(x.lower() for t in c.files.values() for x in re.findall(ID, t))
    nlines = dict((n, t.count('\n') + 1) for n, t in c.files.items())

    def key(code, sym):
        return '%s PE%03d x %s|%s' % (c.cls, code, tool, sym)
    hits = 0
    for raw in tr.odd:
        out.append(('%s x %s|diagnostic line not in the file:line: form' % (c.cls, tool), raw[:200]))
    for d in tr.diags:
        ln = mr.logical(d)
        if d.file is None:
            if d.code != 3:
                out.append((key(d.code, 'diagnostic not attributed to any file'), d.raw[:200]))
        elif ln is None:
            out.append((key(d.code, 'diagnostic attributed to a file that is not part of the input'), mr.strip(d.raw[:200])))
        elif d.line is not None and not (1 <= d.line - shift <= nlines[ln]):
            out.append((key(d.code, 'line number outside the file'), mr.strip(d.raw[:200])))
        if d.code not in (1, 2):
            continue
        mm = (FMT1 if d.code == 1 else FMT2).match(d.msg)
        if not mm:
            out.append((key(d.code, 'message text does not fit the format of its code'), mr.strip(d.raw[:200])))
            continue
        # the case holds ONE duplicated name, so every redeclaration diagnostic is about it
        got = mm.group('name')
        if got.lower() != c.name.lower():
            out.append((key(d.code, 'argument text wrong: got %s' % text_class(got, ids)),
                        'quoted %r, the name declared twice is %r (declarations on lines %s and %s); line: %r' % (got, c.name, c.first[1], c.second[1], mr.strip(d.raw[:200]))))
            continue
        hits += 1
        here, prev = (ln, d.line - shift if d.line is not None else None), int(mm.group('prev')) - shift
        pfile = mr.logical_path(mm.group('pfile')) if d.code == 2 else ln
        ok = here == c.second and (pfile, prev) == c.first
        if not ok and c.family == 'interface':      # the order in which interface clauses are worked off is not prescribed
            ok = here == c.first and (pfile, prev) == c.second
        if not ok:
            if here[0] not in (c.first[0], c.second[0]):
                sym = 'diagnostic attributed to another file'
            elif here != c.second and not (c.family == 'interface' and here == c.first):
                sym = 'line number wrong'
            elif pfile != (c.first[0] if here == c.second else c.second[0]):
                sym = 'file of the previous declaration wrong'
            else:
                sym = 'previous-declaration line wrong'
            out.append((key(d.code, sym), '%r; first declaration %s:%s, second %s:%s' % (mr.strip(d.raw[:200]), c.first[0], c.first[1], c.second[0], c.second[1])))
    diagnosed = bool(tr.errors)
    if hits == 0 and not out and not tr.r.sig and not tr.r.timed_out:
        if tr.errors or must_diagnose(c):
            got = sorted(set('PE%03d' % d.code for d in tr.errors))
            out.append((key(1, 'diagnostic not produced'), 'expected a redeclaration diagnostic quoting %r; got %s, exit %s' % (c.name, got or 'no diagnostic', tr.r.rc)))
    if hits > 1:
        out.append((key(1, 'more diagnostics than duplicates'), '%d redeclaration diagnostics for one duplicate: %r' % (hits, [mr.strip(d.raw) for d in tr.errors if d.code in (1, 2)][:3])))
    return out, diagnosed
