"""Per-run verdict bookkeeping: known-findings matching, replay directories, evidence file, exit status.

Exit status: 0 held on what was observed (only KNOWN-FINDING lines), 1 >= 1 VIOLATION line,
2 inconclusive / harness failure (INCONCLUSIVE line).  Never folds one into another.
"""
import hashlib
import json
import os
import re
import shutil
import sys
import time

VERIF = os.path.dirname(os.path.dirname(os.path.abspath(__file__)))
KF_PATH = os.path.join(VERIF, 'known_findings.json')
EVID_SCHEMA = '/root/.vp/EVIDENCE.schema.json'


def load_known():
    """known_findings.json plus one optional fragment per property under known_findings.d/ (all committed)."""
    out = []
    paths = [KF_PATH]
    dd = os.path.join(VERIF, 'known_findings.d')
    if os.path.isdir(dd):
        paths += [os.path.join(dd, f) for f in sorted(os.listdir(dd)) if f.endswith('.json')]
    for p in paths:
        try:
            with open(p) as f:
                out += json.load(f).get('findings', [])
        except (OSError, ValueError) as e:
            sys.stderr.write('warning: cannot read %s: %s\n' % (p, e))
    return out


def _trunc(o, n=1500):
    if isinstance(o, str):
        return o if len(o) <= n else o[:n] + '...[%d more]' % (len(o) - n)
    if isinstance(o, bytes):
        return _trunc(o.decode('latin-1'), n)
    if isinstance(o, dict):
        return {str(k): _trunc(v, n) for k, v in o.items()}
    if isinstance(o, (list, tuple)):
        return [_trunc(v, n) for v in list(o)[:40]]
    if isinstance(o, (set, frozenset)):
        return sorted(_trunc(v, n) for v in o)[:40]
    return o


class Check(object):
    def __init__(self, pid, tier='quick', seed=1, level='exploration'):
        self.pid = pid
        self.tier = tier
        self.seed = int(seed)
        self.level = level
        self.t0 = time.time()
        self.evaluations = 0
        self.distinct = set()
        self.samples = []
        self.tags = {}
        self.violations = {}      # key -> dict(what, files, case, count)
        self.known_hit = {}       # key -> count
        self.inconclusive = []    # reasons
        self.extra = {}
        self.known = [k for k in load_known() if k.get('property') == pid]
        self.open_keys = {k['key']: k for k in self.known if k.get('status') == 'open'}
        self.counters = {}
        if not os.environ.get('VERIF_KEEP_REPLAY'):
            shutil.rmtree(os.path.join(os.environ.get('VERIF_REPLAY_DIR') or os.path.join(VERIF, 'replay'), pid), ignore_errors=True)

    # ----- observations
    def ev(self, n=1):
        self.evaluations += n

    def seen(self, *tag):
        """Record one distinct non-trivial case (tuple of hashables)."""
        self.distinct.add(tag if len(tag) != 1 else tag[0])

    def tag(self, t, n=1):
        self.tags[t] = self.tags.get(t, 0) + n

    def count(self, name, n=1):
        self.counters[name] = self.counters.get(name, 0) + n

    def sample(self, obj, limit=5):
        if len(self.samples) < limit:
            self.samples.append(_trunc(obj))

    # ----- verdicts
    def is_known(self, key):
        return key in self.open_keys

    def violation(self, key, what, files=None, case=None):
        """Report one violation by key.  Returns True when it is a listed open finding."""
        if key in self.open_keys:
            self.known_hit[key] = self.known_hit.get(key, 0) + 1
            return True
        v = self.violations.get(key)
        if v is None:
            self.violations[key] = dict(what=what, files=files or {}, case=case or {}, count=1)
        else:
            v['count'] += 1
        return False

    def inconc(self, reason):
        self.inconclusive.append(reason)

    # ----- end of run
    def _write_replay(self, key, v):
        kd = re.sub(r'[^A-Za-z0-9_.-]+', '_', key)[:80] + '-' + hashlib.sha1(key.encode()).hexdigest()[:8]
        d = os.path.join(os.environ.get('VERIF_REPLAY_DIR') or os.path.join(VERIF, 'replay'), self.pid, kd)
        shutil.rmtree(d, ignore_errors=True)
        os.makedirs(d)
        for name, content in v['files'].items():
            p = os.path.join(d, name)
            os.makedirs(os.path.dirname(p), exist_ok=True)
            mode = 'wb' if isinstance(content, bytes) else 'w'
            with open(p, mode) as f:
                f.write(content)
        case = dict(property=self.pid, key=key, what=v['what'], seed=self.seed, tier=self.tier, count=v['count'], case=v['case'])
        with open(os.path.join(d, 'case.json'), 'w') as f:
            json.dump(case, f, indent=1, default=str)
        with open(os.path.join(d, 'cmd.txt'), 'w') as f:
            f.write('cd /verif && VERIF_SEED=%d ./check %s --tier %s    # full re-run\ncd /verif && ./check %s --replay %s\n'
                    % (self.seed, self.pid, self.tier, self.pid, d))
        return d

    def finish(self, rule, assumptions=(), floor=2, exhaustive=None, extra=None):
        wall = time.time() - self.t0
        cov = dict(evaluations=int(self.evaluations), distinct_nontrivial=len(self.distinct), rule=rule,
                   samples=self.samples or [], feature_tags_covered=dict(sorted(self.tags.items())),
                   known_findings_hit=dict(sorted(self.known_hit.items())),
                   new_violation_keys=sorted(self.violations), inconclusive=self.inconclusive[:20],
                   counters=dict(sorted(self.counters.items())))
        if exhaustive is not None:
            cov['exhaustive'] = bool(exhaustive)
        cov.update(self.extra)
        if extra:
            cov.update(extra)
        ev = dict(property_id=self.pid, tier=self.tier, seed=self.seed, level=self.level, coverage=cov,
                  assumptions=list(assumptions), wall_s=round(wall, 2), violations=len(self.violations))
        evdir = os.environ.get('VERIF_EVIDENCE_DIR') or os.path.join(VERIF, 'evidence')   # experiments on scratch trees redirect this
        os.makedirs(evdir, exist_ok=True)
        path = os.path.join(evdir, self.pid + '.json')
        with open(path + '.tmp', 'w') as f:
            json.dump(ev, f, indent=1, default=str)
            f.write('\n')
        os.rename(path + '.tmp', path)
        self._validate(ev)
        for key in sorted(self.known_hit):
            k = self.open_keys[key]
            print('KNOWN-FINDING: property=%s %s -- %s (seen %d times)' % (self.pid, key, k.get('what', ''), self.known_hit[key]))
        rc = 0
        for key in sorted(self.violations):
            v = self.violations[key]
            d = self._write_replay(key, v)
            print('VIOLATION property=%s replay=%s' % (self.pid, d))
            print('  key: %s' % key)
            print('  what: %s (seen %d times)' % (v['what'], v['count']))
            rc = 1
        few = self.evaluations < 1 or len(self.distinct) < floor
        if rc == 0 and (self.inconclusive or few):
            for r in self.inconclusive[:10]:
                print('INCONCLUSIVE property=%s %s' % (self.pid, r))
            if few:
                print('INCONCLUSIVE property=%s too few observations (evaluations=%d distinct=%d floor=%d)'
                      % (self.pid, self.evaluations, len(self.distinct), floor))
            rc = 2
        print('%s tier=%s seed=%d: evaluations=%d distinct_nontrivial=%d known=%d new=%d wall=%.1fs -> exit %d'
              % (self.pid, self.tier, self.seed, self.evaluations, len(self.distinct), len(self.known_hit), len(self.violations), wall, rc))
        sys.stdout.flush()
        return rc

    def _validate(self, ev):
        try:
            import jsonschema  # optional
            with open(EVID_SCHEMA) as f:
                jsonschema.validate(ev, json.load(f))
        except ImportError:
            c = ev['coverage']
            assert isinstance(c['evaluations'], int) and isinstance(c['samples'], list) and isinstance(c['rule'], str)
        except OSError:
            pass
