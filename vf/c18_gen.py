"""C18 workload: seeded EXPRESS data schemas aimed at the Python generator (exp2python).

Two sources are mixed by corpus():
  * vf/gen_schema.py (shared data-schema generator: attribute type zoo, derived / inverse / supertype expressions);
  * Gen18 below: inheritance SHAPES (chain, fan, diamond, several supertypes of equal / unequal depth, three supertypes,
    entities without attributes) and IDENTIFIERS that are Python keywords, soft keywords or builtins in every role
    an identifier can play in the generated module (entity, supertype, attribute, defined type, enumeration type,
    select type, enumeration item, select member, attribute type).

Every feature has a name (Schema.tags); `avoid` masks features.  A masked feature is tied to an open finding and is
exercised by a deterministic probe in vf/c18_probes.py which goes through the same oracle.
"""
import keyword
import random
from .model import Schema, TypeDef, Entity, Attr, Derived, Inverse, T, INT, REAL, STR, NAMED, ENT, AGG
from . import gen_schema

# ---- identifier classes ------------------------------------------------------------------------------------------
# EXPRESS reserved words cannot be identifiers at all, so `list`, `set`, `type`, `self`, `in`, `for`, `if`, `abs` ... are
# out of reach; what is left of Python's vocabulary:
KW_DOC = ['class', 'pass', 'property']             # the generator's own escape list (is_python_keyword): emitted as <id>_
KW_HARD = ['assert', 'async', 'await', 'break', 'continue', 'def', 'del', 'elif', 'except', 'finally', 'global', 'import',
           'is', 'lambda', 'nonlocal', 'raise', 'try', 'with', 'yield']      # Python hard keywords, legal EXPRESS identifiers
SOFT = ['match']                                   # soft keyword: an ordinary identifier for Python's compiler
BUILTIN = ['id', 'print', 'str', 'int', 'object', 'len', 'super', 'dict', 'tuple', 'float', 'range', 'max', 'min', 'sum',
           'none', 'input', 'open', 'map', 'filter', 'vars', 'dir', 'iter', 'next', 'hash', 'repr', 'isinstance', 'bytes',
           'zip', 'any', 'all']
IDCLASS = {'kw_doc': KW_DOC, 'kw_hard': KW_HARD, 'soft': SOFT, 'builtin': BUILTIN}
ROLES = ['entity', 'super', 'attr', 'inh_attr', 'type_simple', 'type_enum', 'type_select', 'enum_item', 'attr_type_entity',
         'attr_type_defined', 'select_member', 'aggr_elem']

EXPRESS_RESERVED = set('''abs abstract acos aggregate alias and andor array as asin atan bag begin binary blength boolean by case
constant const_e context cos derive div else end end_alias end_case end_constant end_context end_entity end_function end_if
end_local end_model end_procedure end_repeat end_rule end_schema end_type entity enumeration escape exists exp false fixed for
format from function generic hibound hiindex if in insert integer inverse length like list lobound local log log10 log2 logical
loindex mod model not number nvl odd of oneof optional or otherwise pi procedure query real reference remove repeat return
rolesof rule schema select self set sin sizeof skip sqrt string subtype supertype tan then to true type typeof unique unknown
until use usedin value value_in value_unique var where while xor'''.split())
for _c, _l in IDCLASS.items():
    for _w in _l:
        assert _w not in EXPRESS_RESERVED, _w
for _w in KW_HARD:
    assert keyword.iskeyword(_w), _w


def id_class(name):
    for c, l in IDCLASS.items():
        if name in l:
            return c
    return None


SHAPES = ['flat', 'chain', 'fan', 'diamond', 'diamond_tail', 'multi_equal', 'multi_deep_first', 'multi_shallow_first', 'triple',
          'no_attr_root', 'no_attr_sub', 'wide_diamond']

ITEMS = ['red', 'green', 'blue', 'cyan', 'amber', 'violet', 'white', 'grey', 'black', 'pink', 'teal', 'olive', 'navy', 'plum']


def c3_ok(schema):
    """Python can linearise the classes when each lists its supertypes in declaration order."""
    memo = {}

    def merge(seqs):
        res = []
        seqs = [list(s) for s in seqs if s]
        while seqs:
            for s in seqs:
                h = s[0]
                if not any(h in t[1:] for t in seqs):
                    break
            else:
                return None
            res.append(h)
            seqs = [[x for x in t if x != h] for t in seqs]
            seqs = [t for t in seqs if t]
        return res

    def mro(n):
        if n in memo:
            return memo[n]
        sup = schema.entity(n).supers
        ms = []
        for s in sup:
            m = mro(s)
            if m is None:
                memo[n] = None
                return None
            ms.append(m)
        r = merge(ms + [list(sup)])
        memo[n] = None if r is None else [n] + r
        return memo[n]
    return all(mro(e.name) is not None for e in schema.entities)


class Gen18(object):
    def __init__(self, rng, avoid=()):
        self.rng = rng
        self.avoid = set(avoid)

    def ok(self, f):
        return f not in self.avoid

    # ---- hierarchy clusters: each returns [(local name, [local supers])] in declaration order
    def cluster(self, shape):
        r = self.rng
        if shape == 'flat':
            return [('a', [])]
        if shape == 'chain':
            n = r.randint(2, 4)
            return [('c%d' % i, ['c%d' % (i - 1)] if i else []) for i in range(n)]
        if shape == 'fan':
            n = r.randint(2, 4)
            return [('r', [])] + [('f%d' % i, ['r']) for i in range(n)]
        if shape == 'diamond':
            return [('a', []), ('b', ['a']), ('c', ['a']), ('d', ['b', 'c'])]
        if shape == 'diamond_tail':
            return [('a', []), ('b', ['a']), ('c', ['a']), ('d', ['b', 'c']), ('t', ['d'])]
        if shape == 'wide_diamond':
            return [('a', []), ('b', ['a']), ('c', ['a']), ('m', ['a']), ('d', ['b', 'c', 'm'])]
        if shape == 'multi_equal':
            return [('p', []), ('q', []), ('x', ['p', 'q'])]
        if shape == 'multi_deep_first':
            return [('p', []), ('p1', ['p']), ('q', []), ('x', ['p1', 'q'])]
        if shape == 'multi_shallow_first':
            return [('p', []), ('p1', ['p']), ('q', []), ('x', ['q', 'p1'])]
        if shape == 'triple':
            return [('p', []), ('q', []), ('w', []), ('x', ['p', 'q', 'w'])]
        if shape == 'no_attr_root':
            return [('n', []), ('s', ['n'])]
        if shape == 'no_attr_sub':
            return [('n', []), ('s', ['n']), ('u', ['s'])]
        raise ValueError(shape)

    def schema(self, name):
        r = self.rng
        s = Schema(name)
        shapes = [x for x in SHAPES if self.ok('shape:' + x)]
        nclu = r.randint(1, 3)
        ents = []     # (name, supers, shape, local)
        k = 0
        for ci in range(nclu):
            shp = r.choice(shapes)
            s.tags.add('shape:' + shp)
            loc = {}
            for ln, sup in self.cluster(shp):
                nm = 'e%d' % k
                k += 1
                loc[ln] = nm
                ents.append([nm, [loc[x] for x in sup], shp, ln])
        # ---- special identifiers: plan (class, role) pairs, at most one use of each word per schema
        used = set()
        plan = []
        nspecial = r.choice([0, 1, 2, 2, 3, 4])
        for _ in range(nspecial):
            c = r.choice(list(IDCLASS))
            role = r.choice(ROLES)
            if not self.ok('id:%s:%s' % (c, role)) or not self.ok('id:%s' % c):
                continue
            w = r.choice([x for x in IDCLASS[c] if x not in used] or [None])
            if w is None:
                continue
            used.add(w)
            plan.append((c, role, w))
        ren_ent = {}
        has_sub = set(x for e in ents for x in e[1])

        def take_entity(pred):
            c = [e[0] for e in ents if e[0] not in ren_ent and pred(e)]
            return r.choice(c) if c else None
        want = {}
        for c, role, w in plan:
            if role == 'entity':
                t = take_entity(lambda e: e[0] not in has_sub)
            elif role == 'super':
                t = take_entity(lambda e: e[0] in has_sub)
            elif role in ('attr_type_entity', 'select_member', 'aggr_elem'):
                t = take_entity(lambda e: True)
            else:
                want.setdefault(role, []).append((c, w))
                continue
            if t is None:
                continue
            ren_ent[t] = w
            s.tags.add('id:%s:%s' % (c, role))
            want.setdefault('use_' + role, []).append(w)
        rn = lambda n: ren_ent.get(n, n)
        for e in ents:
            s.entities.append(Entity(rn(e[0]), supers=[rn(x) for x in e[1]]))
        names = [e.name for e in s.entities]
        # ---- defined types
        simple_bases = ['STRING', 'REAL', 'INTEGER', 'BOOLEAN', 'NUMBER', 'LOGICAL', 'BINARY']
        simple_bases = [b for b in simple_bases if self.ok('type_base:' + b)]
        tnames = []

        def tname(role, default):
            lst = want.get(role)
            if lst:
                c, w = lst.pop()
                s.tags.add('id:%s:%s' % (c, role))
                return w
            return default
        nsimple = r.randint(1, 4)
        for i in range(nsimple):
            n = tname('type_simple', 't%d' % i)
            b = r.choice(simple_bases)
            s.types.append(TypeDef(n, 'simple', base=T(b)))
            s.tags.add('type_base:' + b)
            tnames.append(n)
        if self.ok('type_rename') and r.random() < .5:
            s.types.append(TypeDef('tr', 'simple', base=NAMED(r.choice(tnames))))
            s.tags.add('type_rename')
        if want.get('attr_type_defined'):
            c, w = want['attr_type_defined'].pop()
            s.types.append(TypeDef(w, 'simple', base=T(r.choice(simple_bases))))
            s.tags.add('id:%s:attr_type_defined' % c)
            want.setdefault('use_attr_type_defined', []).append(w)
        if self.ok('defined_aggr') and r.random() < .6:
            ak = r.choice(['LIST', 'SET', 'BAG', 'ARRAY'])
            elems = [INT(), REAL(), STR(), NAMED(tnames[0]), ENT(r.choice(names))]
            elems += [T(k) for k in ('BOOLEAN', 'LOGICAL', 'NUMBER', 'BINARY') if self.ok('defined_aggr_elem:' + k)]
            el = r.choice(elems)
            if el.kind == 'entity' and id_class(el.name) and not self.ok('id:%s:aggr_elem' % id_class(el.name)):
                # the drawn entity carries a special identifier through another role while that identifier class is masked as an
                # aggregate element (open finding, exercised by a probe): take an entity with an ordinary name instead
                plain = [n for n in names if not id_class(n)]
                el = ENT(plain[0]) if plain else INT()
            for w in want.get('use_aggr_elem', []):
                el = ENT(w)
                s.tags.add('defined_aggr_elem:special identifier')
            s.tags.add('defined_aggr_elem:' + (el.kind if el.kind not in ('named', 'entity') else el.kind))
            if ak == 'ARRAY':
                lo = r.choice([0, 1, -2] if self.ok('neg_bound') else [0, 1, 3])
                base = AGG(ak, el, lo, lo + r.randint(0, 4))
                if lo < 0:
                    s.tags.add('neg_bound')
            else:
                lo = r.choice([0, 1, 2])
                base = AGG(ak, el, lo, r.choice([None, lo + 2]))
            if self.ok('nested_aggr') and r.random() < .3:
                base = AGG('LIST', base, 1, r.choice([None, 4]))
                s.tags.add('defined_nested_aggr')
            s.types.append(TypeDef('tagg', 'simple', base=base))
            s.tags.add('defined_aggr:' + ak)
        # enumerations
        nenum = r.randint(1, 2)
        enames = []
        for i in range(nenum):
            n = tname('type_enum', 'en%d' % i)
            big = self.ok('enum_many') and r.random() < .3
            cnt = r.randint(6, 12) if big else r.randint(2, self.max_enum_items())
            items = r.sample(ITEMS, cnt)
            items = ['%s%d' % (x, i) for x in items]          # items are unique across enumerations of a schema
            lst = want.get('enum_item')
            if lst:
                c, w = lst.pop()
                items[r.randrange(len(items))] = w
                s.tags.add('id:%s:enum_item' % c)
            s.types.append(TypeDef(n, 'enum', items=items))
            s.tags.add('enum_items:%s' % ('1-2' if cnt <= 2 else '3-5' if cnt <= 5 else '6+'))
            enames.append(n)
        if self.ok('renamed_enum') and r.random() < .4:
            esc = id_class(enames[0]) in ('kw_doc', 'kw_hard')
            if not esc or self.ok('renamed_escaped_enum'):
                s.types.append(TypeDef('enr', 'simple', base=NAMED(enames[0])))
                s.tags.add('renamed_escaped_enum' if esc else 'renamed_enum')
        # selects
        nsel = r.randint(1, 2)
        snames = []
        for i in range(nsel):
            n = tname('type_select', 'sl%d' % i)
            pool = tnames + enames + names
            mem = r.sample(pool, min(len(pool), r.randint(2, 5)))
            for w in want.get('use_select_member', []):
                if w not in mem:
                    mem.append(w)
            if i == 1 and self.ok('select_of_select') and r.random() < .6:
                mem.append(snames[0])
                s.tags.add('select_of_select')
            r.shuffle(mem)
            s.types.append(TypeDef(n, 'select', members=mem))
            snames.append(n)
            if any(m in names for m in mem):
                s.tags.add('select_entity_member')
        if self.ok('renamed_select') and r.random() < .3:
            s.types.append(TypeDef('slr', 'simple', base=NAMED(snames[0])))
            s.tags.add('renamed_select')
        # ---- attributes
        alltypes = [t.name for t in s.types]

        def atype(depth=0):
            ch = r.choices(['simple', 'named', 'entity', 'aggr'], [4, 4, 3, 3 if depth < 2 else 0])[0]
            if ch == 'simple':
                return T(r.choice(['STRING', 'REAL', 'INTEGER', 'BOOLEAN', 'NUMBER', 'LOGICAL', 'BINARY']))
            if ch == 'named':
                return NAMED(r.choice(alltypes))
            if ch == 'entity':
                return ENT(r.choice(names))
            ak = r.choice(['LIST', 'SET', 'BAG', 'ARRAY'])
            el = atype(depth + 1)
            if ak == 'ARRAY':
                lo = r.choice([0, 1, -1])
                return AGG(ak, el, lo, lo + r.randint(0, 3), optional=(r.random() < .2 and el.kind != 'aggr'))
            if r.random() < .4:
                return AGG(ak, el)
            lo = r.choice([0, 1, 2])
            return AGG(ak, el, lo, r.choice([None, lo + 1, lo + 3]), unique=(ak == 'LIST' and r.random() < .2))
        for e, meta in zip(s.entities, ents):
            shp, ln = meta[2], meta[3]
            if (shp == 'no_attr_root' and ln == 'n') or (shp == 'no_attr_sub' and ln in ('s',)):
                s.tags.add('entity without own attributes')
                continue
            k = r.randint(1, 3) if r.random() < .85 else 0
            if k == 0:
                s.tags.add('entity without own attributes')
            for j in range(k):
                e.attrs.append(Attr('%s_a%d' % (e.name if id_class(e.name) is None else 'x%d' % names.index(e.name), j), atype(), r.random() < .25))
        # special attribute names / attribute types
        for role in ('attr', 'inh_attr'):
            for c, w in want.get(role, []):
                if role == 'attr':
                    cand = [e for e in s.entities if not s.subs(e.name)]
                else:
                    cand = [e for e in s.entities if s.subs(e.name)]
                if not cand:
                    continue
                e = r.choice(cand)
                e.attrs.insert(r.randint(0, len(e.attrs)), Attr(w, atype(), r.random() < .25))
                s.tags.add('id:%s:%s' % (c, role))
        for w in want.get('use_attr_type_entity', []):
            e = r.choice(s.entities)
            e.attrs.append(Attr('%s_r%d' % ('x%d' % names.index(e.name), len(e.attrs)), ENT(w)))
        for w in want.get('use_attr_type_defined', []):
            e = r.choice(s.entities)
            e.attrs.append(Attr('%s_r%d' % ('x%d' % names.index(e.name), len(e.attrs)), NAMED(w)))
        for w in want.get('use_aggr_elem', []):
            e = r.choice(s.entities)
            e.attrs.append(Attr('%s_g%d' % ('x%d' % names.index(e.name), len(e.attrs)), AGG('LIST', ENT(w), 1, None)))
        # ---- derived (new and redeclaring) / inverse
        for e in s.entities:
            if e.supers and self.ok('derived_redecl') and r.random() < .2:
                sup = s.entity(e.supers[0])
                cand = [a for a in sup.attrs if a.type.kind in ('INTEGER', 'REAL', 'STRING', 'BOOLEAN')]
                if cand:
                    a = r.choice(cand)
                    lit = {'INTEGER': '5', 'REAL': '2.5', 'STRING': "'d'", 'BOOLEAN': 'TRUE'}[a.type.kind]
                    e.derived.append(Derived(a.name, T(a.type.kind), lit, redeclares=(sup.name, a.name)))
                    s.tags.add('derived_redecl')
            if self.ok('derived_new') and r.random() < .2:
                e.derived.append(Derived('d_%d' % names.index(e.name), INT(), '7'))
                s.tags.add('derived_new')
        if self.ok('inverse'):
            for e in s.entities:
                for a in e.attrs:
                    if a.type.kind == 'entity' and r.random() < .3 and id_class(a.name) is None:
                        tgt = s.entity(a.type.name)
                        if all(i.name != 'inv_%s' % a.name for i in tgt.inverse):
                            tgt.inverse.append(Inverse('inv_%s' % a.name, e.name, a.name, 'SET', 0, None))
                            s.tags.add('inverse')
        if r.random() < .3 and self.ok('abstract'):
            c = [e for e in s.entities if s.subs(e.name)]
            if c:
                r.choice(c).abstract = True
                s.tags.add('abstract')
        assert c3_ok(s)
        return s

    def max_enum_items(self):
        return 5


def corpus(seed, n, avoid=(), avoid_shared=()):
    """n deterministic schemas for a seed: every third from the shared data-schema generator, the rest from Gen18."""
    out = []
    n_shared = n // 3
    shared = gen_schema.corpus(seed, n_shared, avoid_shared, prefix='d') if n_shared else []
    for s in shared:
        s.tags = set('data:' + t for t in s.tags) | {'source:gen_schema'}
        out.append(s)
    for i in range(n - n_shared):
        rng = random.Random('c18/%d/%d' % (seed, i))
        s = Gen18(rng, avoid).schema('k%d_%d' % (seed, i))
        s.tags.add('source:gen18')
        out.append(s)
    return out
