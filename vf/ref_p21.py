"""Independent ISO 10303-21 (2002) exchange-structure lexer / parser / canonicaliser.

Values:  ('int', n) ('real', float, text) ('str', rawtext) ('bin', hextext) ('enum', 'NAME') ('ref', id)
         ('null',) ('star',) ('agg', [v..]) ('typed', 'KW', v)
Instance: Inst(id, parts=[(KW, [v..])..], complex=bool, state=letter|None)
"""
import re


class P21Error(Exception):
    pass


_TOK = re.compile(r'''
   (?P<ws>[ \t\r\n\f\v]+)
 | (?P<cmt>/\*.*?\*/)
 | (?P<str>'(?:[^']|'')*')
 | (?P<bin>"[0-3][0-9A-Fa-f]*")
 | (?P<enum>\.[A-Za-z_][A-Za-z0-9_]*\.)
 | (?P<real>[+-]?[0-9]+\.[0-9]*(?:[Ee][+-]?[0-9]+)?)
 | (?P<int>[+-]?[0-9]+)
 | (?P<ref>\#[0-9]+)
 | (?P<kw>!?[A-Za-z_][A-Za-z0-9_-]*)
 | (?P<p>[(),;=$*&])
''', re.X | re.S)


def tokenize(text, keep_comments=False):
    pos = 0
    n = len(text)
    out = []
    while pos < n:
        m = _TOK.match(text, pos)
        if not m:
            raise P21Error('lexical error at offset %d: %r' % (pos, text[pos:pos + 20]))
        k = m.lastgroup
        if k == 'ws' or (k == 'cmt' and not keep_comments):
            pos = m.end()
            continue
        out.append((k, m.group(0), pos))
        pos = m.end()
    return out


class Inst(object):
    __slots__ = ('id', 'parts', 'complex', 'state')

    def __init__(self, id, parts, complex=False, state=None):
        self.id, self.parts, self.complex, self.state = id, parts, complex, state

    def __repr__(self):
        return 'Inst(#%d %s%s)' % (self.id, '' if not self.state else self.state + ' ', self.parts)


class Parser(object):
    def __init__(self, text):
        self.toks = tokenize(text)
        self.i = 0

    def peek(self):
        return self.toks[self.i] if self.i < len(self.toks) else ('eof', '', -1)

    def next(self):
        t = self.peek()
        self.i += 1
        return t

    def expect(self, kind, val=None):
        t = self.next()
        if t[0] != kind or (val is not None and t[1] != val):
            raise P21Error('expected %s %r, got %r at %d' % (kind, val, t[1], t[2]))
        return t

    def value(self):
        k, s, pos = self.next()
        if k == 'int':
            return ('int', int(s))
        if k == 'real':
            return ('real', float(s), s)
        if k == 'str':
            return ('str', s[1:-1])
        if k == 'bin':
            return ('bin', s[1:-1].upper())
        if k == 'enum':
            return ('enum', s[1:-1].upper())
        if k == 'ref':
            return ('ref', int(s[1:]))
        if k == 'p' and s == '$':
            return ('null',)
        if k == 'p' and s == '*':
            return ('star',)
        if k == 'p' and s == '(':
            return ('agg', self.params_until_close())
        if k == 'kw':
            self.expect('p', '(')
            v = self.params_until_close()
            if len(v) != 1:
                raise P21Error('typed parameter %s with %d values at %d' % (s, len(v), pos))
            return ('typed', s.upper(), v[0])
        raise P21Error('unexpected token %r at %d' % (s, pos))

    def params_until_close(self):
        out = []
        if self.peek()[1] == ')' and self.peek()[0] == 'p':
            self.next()
            return out
        while True:
            out.append(self.value())
            t = self.next()
            if t[0] == 'p' and t[1] == ',':
                continue
            if t[0] == 'p' and t[1] == ')':
                return out
            raise P21Error('expected , or ) got %r at %d' % (t[1], t[2]))

    def record(self):
        kw = self.expect('kw')[1].upper()
        self.expect('p', '(')
        return (kw, self.params_until_close())

    def parse(self):
        """-> (header_records, instances, kind) ; kind 'ISO-10303-21' or 'STEP_WORKING_SESSION'"""
        t = self.next()
        if t[0] != 'kw' or t[1].upper() not in ('ISO-10303-21', 'STEP_WORKING_SESSION'):
            raise P21Error('bad magic %r' % (t[1],))
        kind = t[1].upper()
        self.expect('p', ';')
        self.expect('kw', 'HEADER')
        self.expect('p', ';')
        header = []
        while not (self.peek()[0] == 'kw' and self.peek()[1].upper() == 'ENDSEC'):
            header.append(self.record())
            self.expect('p', ';')
        self.next()
        self.expect('p', ';')
        insts = []
        t = self.expect('kw')
        if t[1].upper() != 'DATA':
            raise P21Error('expected DATA got %r' % t[1])
        self.expect('p', ';')
        while not (self.peek()[0] == 'kw' and self.peek()[1].upper() == 'ENDSEC'):
            state = None
            if self.peek()[0] == 'kw' and kind == 'STEP_WORKING_SESSION' and self.peek()[1] in ('C', 'I', 'N', 'D'):
                state = self.next()[1]
            r = self.expect('ref')
            iid = int(r[1][1:])
            self.expect('p', '=')
            if self.peek()[0] == 'p' and self.peek()[1] == '(':
                self.next()
                parts = []
                while not (self.peek()[0] == 'p' and self.peek()[1] == ')'):
                    parts.append(self.record())
                self.next()
                insts.append(Inst(iid, parts, True, state))
            else:
                insts.append(Inst(iid, [self.record()], False, state))
            self.expect('p', ';')
        self.next()
        self.expect('p', ';')
        t = self.expect('kw')
        if t[1].upper() not in ('END-ISO-10303-21', 'END-STEP_WORKING_SESSION'):
            raise P21Error('bad trailer %r' % t[1])
        self.expect('p', ';')
        if self.peek()[0] != 'eof':
            raise P21Error('trailing tokens')
        return header, insts, kind


def parse(text):
    return Parser(text).parse()


# ---------------------------------------------------------------- canonical comparison
def sig15(x):
    if x == 0 or x != x or x in (float('inf'), float('-inf')):
        return repr(x)
    return '%.14e' % x


def canon_value(v):
    """Canonical, comparable form: reals rounded to 15 significant digits."""
    k = v[0]
    if k == 'real':
        return ('real', sig15(v[1]))
    if k == 'agg':
        return ('agg', tuple(canon_value(x) for x in v[1]))
    if k == 'typed':
        return ('typed', v[1], canon_value(v[2]))
    return tuple(v)


def canon_inst(inst):
    parts = [(kw, tuple(canon_value(v) for v in vals)) for kw, vals in inst.parts]
    if inst.complex:
        parts = sorted(parts)
    return (inst.id, inst.complex, tuple(parts))


def value_refs(v, out=None):
    out = [] if out is None else out
    if v[0] == 'ref':
        out.append(v[1])
    elif v[0] == 'agg':
        for x in v[1]:
            value_refs(x, out)
    elif v[0] == 'typed':
        value_refs(v[2], out)
    return out


def inst_refs(inst):
    out = []
    for kw, vals in inst.parts:
        for v in vals:
            value_refs(v, out)
    return out


def diff_values(a, b, path=''):
    """First difference between two canonical values -> (path, kind) or None."""
    if a == b:
        return None
    if a[0] != b[0]:
        return (path, 'kind %s->%s' % (a[0], b[0]))
    if a[0] == 'agg':
        if len(a[1]) != len(b[1]):
            return (path, 'aggregate length %d->%d' % (len(a[1]), len(b[1])))
        for i, (x, y) in enumerate(zip(a[1], b[1])):
            d = diff_values(x, y, path + '[%d]' % i)
            if d:
                return d
        return (path, 'aggregate')
    if a[0] == 'typed':
        if a[1] != b[1]:
            return (path, 'select keyword changed')
        return diff_values(a[2], b[2], path + '.' + a[1])
    return (path, '%s value changed' % a[0])


def number_norm(v):
    """For NUMBER-typed positions: integers and reals compare by numeric value."""
    if v[0] == 'int':
        return ('real', float(v[1]), str(v[1]))
    if v[0] == 'agg':
        return ('agg', [number_norm(x) for x in v[1]])
    if v[0] == 'typed':
        return ('typed', v[1], number_norm(v[2]))
    return v
