"""Deterministic probes of open known findings + the masks they justify.

The randomized workloads stay inside the sub-space where no open finding triggers (otherwise one defect would
swamp every run and its key would depend on the seed).  Each masked feature is tied to a probe here: a fixed
input that exercises exactly that feature and goes through the same oracle, so that the finding is still
demonstrated (KNOWN-FINDING line) on every run and disappears from the output when it is repaired.
A mask without a probe is not allowed (checked in self_check()).
"""
from . import model as M
from . import gen_p21
from .ref_p21 import Inst

# property -> dict(schema=set(features), pop=set(features), variants=set(text variants))
MASKS = {}


def _m(prop):
    return MASKS.setdefault(prop, dict(schema=set(), pop=set(), variants=set()))


def masked_schema_features(prop):
    return set(_m(prop)['schema'])


def masked_pop_features(prop):
    return set(_m(prop)['pop'])


def masked_variants(prop):
    return set(_m(prop)['variants'])


class Probe(object):
    """A fixed (schema, population, text) case.  build() -> (Schema, [Inst], header|None)."""

    def __init__(self, name, build, variant='compact', masks=None, text=None):
        self.name, self.build, self.variant, self.masks, self._text = name, build, variant, masks or {}, text
        self.schema, self._insts, self._hdr = None, None, None

    def prepare(self):
        if self.schema is None:
            r = self.build()
            self.schema, self._insts = r[0], r[1]
            self._hdr = r[2] if len(r) > 2 else None
        return self

    def population(self, schema=None):
        self.prepare()
        return gen_p21.Population(self.schema, self._insts, self._hdr)

    @property
    def p21(self):
        self.prepare()
        if self._text is not None:
            return self._text
        import random
        return gen_p21.render(self.population(), self.variant, random.Random(7))


PROBES = {}   # property -> [Probe]


def register(prop, probe):
    PROBES.setdefault(prop, []).append(probe)
    for k, vs in probe.masks.items():
        _m(prop)[k] |= set(vs)


def run_probes(chk, prop, judge):
    """Build each probe's schema library and push it through `judge(chk, probe, lib)` -> [(key, what, files)]."""
    from . import p21fam
    ps = [p.prepare() for p in PROBES.get(prop, [])]
    if not ps:
        return
    libs = p21fam.build_libs([p.schema for p in ps])
    for p, lib in zip(ps, libs):
        chk.count('probes_run')
        if lib.fail is not None:
            chk.violation('probe|%s|schema library could not be built (%s)' % (p.name, lib.fail.get('stage')), str(lib.fail)[:800],
                          {'schema.exp': p.schema.text()})
            continue
        for key, what, files in judge(chk, p, lib):
            chk.violation(key, what, files, dict(probe=p.name))


def one_entity_schema(name, attrs, types=(), extra_entities=()):
    ents = list(extra_entities) + [M.Entity('e', attrs=[M.Attr('a%d' % i, t, opt) for i, (t, opt) in enumerate(attrs)])]
    return M.Schema(name, list(types), ents)


# ------------------------------------------------------------------------------------------------ C01 probes
def _p_renamed_select():
    s = M.Schema('pr_rsel', [M.TypeDef('label', 'simple', base=M.STR()), M.TypeDef('len', 'simple', base=M.REAL()),
                             M.TypeDef('sel1', 'select', members=['label', 'len']),
                             M.TypeDef('sel3', 'simple', base=M.NAMED('sel1'))],
                 [M.Entity('e', attrs=[M.Attr('a0', M.NAMED('sel3'))])])
    return s, [Inst(1, [('E', [('typed', 'LEN', ('real', 2.5, '2.5'))])])]


register('C01', Probe('renamed select attribute', _p_renamed_select, masks=dict(schema=['renamed_select'])))


def _p_select_ref_complex():
    s = M.Schema('pr_selcx', [M.TypeDef('label', 'simple', base=M.STR()), M.TypeDef('sel1', 'select', members=['label', 'b'])],
                 [M.Entity('a', sexpr=('andor', ('leaf', 'b'), ('leaf', 'c')), attrs=[M.Attr('x', M.INT())]),
                  M.Entity('b', supers=['a'], attrs=[M.Attr('y', M.INT())]),
                  M.Entity('c', supers=['a'], attrs=[M.Attr('z', M.INT())]),
                  M.Entity('h', attrs=[M.Attr('s', M.NAMED('sel1'))])])
    return s, [Inst(1, [('A', [('int', 1)]), ('B', [('int', 2)]), ('C', [('int', 3)])], True),
               Inst(2, [('H', [('ref', 1)])])]


register('C01', Probe('select value referencing a complex instance', _p_select_ref_complex, masks=dict(pop=['select_ref_complex'])))


def _p_array_optional():
    s = one_entity_schema('pr_arropt', [(M.AGG('ARRAY', M.INT(), 1, 2, optional=True), False)])
    return s, [Inst(1, [('E', [('agg', [('null',), ('int', 5)])])])]


register('C01', Probe('ARRAY OF OPTIONAL with $ element', _p_array_optional, masks=dict(schema=['array_optional'])))


def _gap_schema():
    return M.Schema('pr_cmt', [M.TypeDef('label', 'simple', base=M.STR()), M.TypeDef('len', 'simple', base=M.REAL()),
                               M.TypeDef('sel1', 'select', members=['label', 'len'])],
                    [M.Entity('a', sexpr=('andor', ('leaf', 'b'), ('leaf', 'c')), attrs=[M.Attr('x', M.INT())]),
                     M.Entity('b', supers=['a'], attrs=[M.Attr('y', M.STR())]),
                     M.Entity('c', supers=['a'], attrs=[M.Attr('z', M.AGG('LIST', M.INT()))]),
                     M.Entity('e', attrs=[M.Attr('i', M.INT()), M.Attr('l', M.AGG('LIST', M.INT())), M.Attr('sel', M.NAMED('sel1')),
                                          M.Attr('r', M.ENT('e')), M.Attr('last', M.INT())])])


def _cmt_probe(name, variant, old, new):
    def build():
        s = _gap_schema()
        insts = [Inst(2, [('E', [('int', 7), ('agg', [('int', 1), ('int', 2)]), ('typed', 'LABEL', ('str', 's')), ('ref', 2), ('int', 9)])]),
                 Inst(3, [('A', [('int', 1)]), ('B', [('str', 'y')]), ('C', [('agg', [('int', 4)])])], True)]
        return s, insts
    p = Probe(name, build, variant=variant)
    p.prepare()
    base = gen_p21.render(p.population(), 'compact')
    assert base.count(old) == 1, (name, old)
    p._text = base.replace(old, new)
    return p


for _n, _v, _o, _nw in [
        ('comment after a value', 'cmt_after_value', "#2=E(7,", "#2=E(7/* c */,"),
        ('comment inside an aggregate', 'cmt_in_aggregate', "(1,2)", "(1,/* c */2)"),
        ('comment inside a typed select value', 'cmt_in_select', "LABEL('s')", "LABEL(/* c */'s')"),
        ('comment between the parts of a complex instance', 'cmt_between_parts', ")B('y')", ")/* c */B('y')"),
        ('comment inside an aggregate of a complex part', 'cmt_in_complex_aggregate', "C((4))", "C((/* c */4))"),
        ('comment containing ; before a top-level value, reference later in the instance', 'cmt_semicolon', "#2=E(7,", "#2=E(/* ; */7,"),
        ("comment containing ' before a top-level value", 'cmt_apostrophe', "#2=E(7,", "#2=E(/* it's */7,")]:
    register('C01', _cmt_probe(_n, _v, _o, _nw))


# fixed shapes without a mask (no open finding): features a random schema only sometimes has, exercised on every run
def _p_enum_prefix_items():
    T = [M.TypeDef('io', 'enum', items=['input_output', 'input', 'output']),
         M.TypeDef('hand', 'enum', items=['left', 'left_handed', 'right_handed', 'right']),
         M.TypeDef('mm', 'enum', items=['mm', 'm', 'mmm'])]
    s = M.Schema('pr_enpfx', T, [M.Entity('e', attrs=[M.Attr('a0', M.NAMED('io')), M.Attr('a1', M.NAMED('hand')), M.Attr('a2', M.NAMED('mm')),
                                                      M.Attr('a3', M.AGG('LIST', M.NAMED('io'), 0, None))])])
    insts = []
    k = 1
    for io in ('INPUT_OUTPUT', 'INPUT', 'OUTPUT'):
        for hand in ('LEFT', 'LEFT_HANDED', 'RIGHT_HANDED', 'RIGHT'):
            mm = ('MM', 'M', 'MMM')[k % 3]
            insts.append(Inst(k, [('E', [('enum', io), ('enum', hand), ('enum', mm), ('agg', [('enum', 'INPUT'), ('enum', io), ('enum', 'OUTPUT')])])]))
            k += 1
    return s, insts


register('C01', Probe('enumeration items that are prefixes of other items', _p_enum_prefix_items))


def _p_select_chain_members():
    T = [M.TypeDef('ratio', 'simple', base=M.REAL()), M.TypeDef('pos_ratio', 'simple', base=M.NAMED('ratio')),
         M.TypeDef('tiny_ratio', 'simple', base=M.NAMED('pos_ratio')), M.TypeDef('label', 'simple', base=M.STR()),
         M.TypeDef('label2', 'simple', base=M.NAMED('label')),
         M.TypeDef('spec_first', 'select', members=['tiny_ratio', 'pos_ratio', 'ratio', 'label2', 'label']),
         M.TypeDef('base_first', 'select', members=['label', 'label2', 'ratio', 'pos_ratio', 'tiny_ratio'])]
    s = M.Schema('pr_selch', T, [M.Entity('e', attrs=[M.Attr('a0', M.NAMED('spec_first')), M.Attr('a1', M.NAMED('base_first')),
                                                      M.Attr('a2', M.AGG('LIST', M.NAMED('spec_first'), 0, None))])])
    vals = [('typed', 'RATIO', ('real', -0.25, '-0.25')), ('typed', 'POS_RATIO', ('real', 0.5, '0.5')), ('typed', 'TINY_RATIO', ('real', 0.125, '0.125')),
            ('typed', 'LABEL', ('str', 'a')), ('typed', 'LABEL2', ('str', 'b'))]
    insts = []
    for i, v in enumerate(vals):
        insts.append(Inst(i + 1, [('E', [v, vals[(i + 1) % len(vals)], ('agg', [vals[(i + 2) % len(vals)], v])])]))
    return s, insts


register('C01', Probe('select listing a defined type together with the types it renames', _p_select_chain_members))


def _p_complex_two_roots():
    # externally mapped instances with a part that has a supertype under each of two roots, one of which lists it in a ONEOF
    # (the unchanged tree reads these graphs correctly - see C08's fixed two-root family; other multi-supertype sets are masked)
    E = lambda n, sup=(), sx=None, k='INT': M.Entity(n, supers=list(sup), sexpr=sx, attrs=[M.Attr('a_' + n, M.INT() if k == 'INT' else M.STR())])
    s = M.Schema('pr_cx2r', [], [E('tool', sx=('oneof', [('leaf', 'drill'), ('leaf', 'saw')])), E('product', sx=('andor', ('leaf', 'drill'), ('leaf', 'boxed')), k='STR'), E('drill', ['tool', 'product']),
                                 E('saw', ['tool']), E('bit', ['drill']), E('boxed', ['product']),
                                 M.Entity('holder', attrs=[M.Attr('t', M.ENT('tool')), M.Attr('p', M.ENT('product'), True), M.Attr('ts', M.AGG('LIST', M.ENT('tool'), 0, None))])])
    insts = [Inst(6, [('DRILL', [('int', 1)]), ('PRODUCT', [('str', 'p6')]), ('TOOL', [('int', 2)])], True),
             Inst(7, [('BIT', [('int', 3)]), ('DRILL', [('int', 4)]), ('PRODUCT', [('str', 'p7')]), ('TOOL', [('int', 5)])], True),
             Inst(8, [('HOLDER', [('ref', 6), ('ref', 7), ('agg', [('ref', 7), ('ref', 6)])])]),
             Inst(9, [('SAW', [('int', 6), ('int', 7)])]),
             Inst(11, [('BOXED', [('int', 8)]), ('DRILL', [('int', 9)]), ('PRODUCT', [('str', 'p11')]), ('TOOL', [('int', 10)])], True),
             Inst(12, [('BIT', [('int', 11)]), ('BOXED', [('int', 12)]), ('DRILL', [('int', 13)]), ('PRODUCT', [('str', 'p12')]), ('TOOL', [('int', 14)])], True),
             Inst(13, [('HOLDER', [('ref', 11), ('ref', 12), ('agg', [('ref', 12)])])]),
             Inst(10, [('HOLDER', [('ref', 9), ('null',), ('agg', [('ref', 9), ('ref', 6)])])])]
    return s, insts


register('C01', Probe('externally mapped instances whose part has a supertype under each of two roots', _p_complex_two_roots))


def _p_complex_two_roots_deep():
    # the same idea three levels deep: the ONEOF sits in an entity that is itself a subtype, the other root joins its subtypes by ANDOR
    L = lambda n: ('leaf', n)
    E = lambda n, sup=(), sx=None: M.Entity(n, supers=list(sup), sexpr=sx, attrs=[M.Attr('a_' + n, M.INT())])
    s = M.Schema('pr_cx2d', [], [E('asset', sx=('andor', L('machine'), L('leased'))), E('leased', ['asset']), E('machine', ['asset'], sx=('oneof', [L('tool')])),
                                 E('tool', ['machine'], sx=('oneof', [L('drill'), L('saw')])), E('saw', ['tool']),
                                 E('product', sx=('andor', L('drill'), L('boxed'))), E('boxed', ['product']), E('drill', ['tool', 'product']),
                                 M.Entity('shelf', attrs=[M.Attr('main', M.ENT('asset')), M.Attr('items', M.AGG('LIST', M.ENT('product'), 0, None))])])
    cx = lambda iid, names: Inst(iid, [(n.upper(), [('int', iid * 10 + k)]) for k, n in enumerate(sorted(names))], True)
    insts = [cx(3, ['asset', 'leased', 'machine', 'tool']), cx(4, ['asset', 'leased', 'machine', 'saw', 'tool']),
             cx(6, ['asset', 'boxed', 'drill', 'machine', 'product', 'tool']), cx(7, ['asset', 'boxed', 'drill', 'leased', 'machine', 'product', 'tool']),
             cx(8, ['asset', 'drill', 'machine', 'product', 'tool']),
             Inst(9, [('SHELF', [('ref', 6), ('agg', [('ref', 6), ('ref', 7), ('ref', 8)])])]),
             Inst(10, [('SHELF', [('ref', 3), ('agg', [])])])]
    return s, insts


register('C01', Probe('externally mapped instances over two roots, three levels deep', _p_complex_two_roots_deep))


def _p_select_secondary_super():
    s = M.Schema('pr_sel2nd', [M.TypeDef('label', 'simple', base=M.STR()), M.TypeDef('sel1', 'select', members=['label', 'q'])],
                 [M.Entity('p', attrs=[M.Attr('x', M.INT())]),
                  M.Entity('q', attrs=[M.Attr('y', M.INT())]),
                  M.Entity('pq', supers=['p', 'q'], attrs=[M.Attr('z', M.INT())]),
                  M.Entity('h', attrs=[M.Attr('s', M.NAMED('sel1'))])])
    return s, [Inst(1, [('PQ', [('int', 1), ('int', 2), ('int', 3)])]), Inst(2, [('H', [('ref', 1)])])]


register('C01', Probe('select value referencing an instance through its second supertype', _p_select_secondary_super,
                      masks=dict(pop=['select_ref_secondary_super'])))


def _p_complex_multi_super():
    E = lambda n, sup=(): M.Entity(n, supers=list(sup), attrs=[M.Attr('a_' + n, M.INT())])
    s = M.Schema('pr_cxms', [], [E('r0'), E('r1'), E('a', ['r0']), E('b', ['r1']), E('c', ['a']), E('d', ['a', 'r1'])])
    return s, [Inst(1, [(n.upper(), [('int', i)]) for i, n in enumerate(['a', 'b', 'c', 'd', 'r0', 'r1'])], True)]


register('C01', Probe('complex instance containing an entity with two supertypes', _p_complex_multi_super,
                      masks=dict(pop=['complex_multi_super'])))


# masks shared by every check that needs a compiled schema library (the finding itself belongs to C02 "compiles")
for _p in ('C01',):
    _m(_p)['schema'].add('selmember_renamed_enum')


# ------------------------------------------------------------------------------------------------ C10 probes
def _p_lazy_cycle():
    s = M.Schema('pr_lzcyc', [], [M.Entity('n', attrs=[M.Attr('nxt', M.ENT('n'), True), M.Attr('v', M.INT())])])
    return s, [Inst(1, [('N', [('ref', 2), ('int', 1)])]), Inst(2, [('N', [('ref', 1), ('int', 2)])])]


def _p_lazy_self():
    s = M.Schema('pr_lzself', [], [M.Entity('n', attrs=[M.Attr('nxt', M.ENT('n'), True), M.Attr('v', M.INT())])])
    return s, [Inst(1, [('N', [('ref', 1), ('int', 1)])])]


register('C10', Probe('two instances referencing each other', _p_lazy_cycle, masks=dict(pop=['ref_cycle'], schema=['required_entity_ref'])))
register('C10', Probe('instance referencing itself', _p_lazy_self, masks=dict(pop=['ref_cycle'])))


# ------------------------------------------------------------------------------------------------ C08 probes (fixed graphs)
def _g(name, spec):
    """spec: list of (entity, supers, abstract, sexpr)"""
    ents = [M.Entity('z', attrs=[M.Attr('a_z', M.INT())])]
    for (n, sup, ab, sx) in spec:
        ents.append(M.Entity(n, supers=list(sup), abstract=ab, sexpr=sx, attrs=[M.Attr('a_' + n, M.INT())]))
    return M.Schema(name, [], ents)


register('C08', Probe('multi-supertype subtype with one supertype absent', lambda: (_g('pr_c08ms', [
    ('a', [], False, None), ('b', ['a'], False, None), ('c', ['a'], False, None), ('e', ['b', 'c'], False, None)]), [])))
register('C08', Probe('legal set with a two-supertype member and unconstrained siblings', lambda: (_g('pr_c08ms2', [
    ('r0', [], False, None), ('r1', [], False, None), ('a', ['r0'], False, None), ('b', ['r1'], False, None), ('c', ['a'], False, None),
    ('d', ['a', 'r1'], False, None)]), [])))


def _p_lazy_plain():
    s = M.Schema('pr_lztxt', [], [M.Entity('n', attrs=[M.Attr('nxt', M.ENT('n'), True), M.Attr('v', M.INT()), M.Attr('s', M.STR())])])
    return s, [Inst(1, [('N', [('null',), ('int', 1), ('str', 'a')])]), Inst(2, [('N', [('ref', 1), ('int', 2), ('str', '#1 ( ;')])])]


def _p_lazy_empty_inverse():
    # the referenced instance's type declares an INVERSE attribute that nobody fills; the referrer is loaded first and has more
    # attributes to read after the reference (the nested load moves the shared stream)
    s = M.Schema('pr_lzinv', [], [M.Entity('b', attrs=[M.Attr('n', M.INT())], inverse=[M.Inverse('users', 'u', 'tgt', 'SET', 0, None)]),
                                  M.Entity('u', attrs=[M.Attr('tgt', M.ENT('b')), M.Attr('k', M.INT())]),
                                  M.Entity('a', attrs=[M.Attr('first', M.ENT('b')), M.Attr('s1', M.STR()), M.Attr('second', M.ENT('b'), True), M.Attr('s2', M.STR())])])
    return s, [Inst(4, [('A', [('ref', 1), ('str', 'chapter'), ('ref', 2), ('str', '4.2')])]),
               Inst(5, [('A', [('ref', 2), ('str', 'x'), ('null',), ('str', 'y')])]),
               Inst(1, [('B', [('int', 1)])]), Inst(2, [('B', [('int', 2)])])]


register('C10', Probe('referrer loaded before a referenced instance whose inverse attribute stays empty', _p_lazy_empty_inverse))
register('C10', Probe('one token per line (newline between keyword and parenthesis)', _p_lazy_plain, variant='lines', masks=dict(variants=['lines'])))
register('C10', Probe('comment on its own line between two instances', _p_lazy_plain, variant='cmt_between'))
