"""C02: the flags of EVERY attribute descriptor against the schema: optional / unique / kind (explicit, derived, inverse).

flags_matrix(seed): one schema with
  * a FIXED part: attribute clause {explicit, OPTIONAL explicit, DERIVE, INVERSE} x {not in a UNIQUE rule, alone in a
    labelled rule, alone in an unlabelled rule, in a joint rule (labelled / unlabelled), in two rules} x the four
    descriptor code paths of exp2cxx (simple / named defined type / entity / aggregate written in place) x {declared by
    the entity, inherited and named in a UNIQUE rule of a subtype (plain and SELF\\sup.attr spelling), re-declared as
    derived in a subtype with / without a rule there, inherited from two supertypes};
  * a seeded RANDOM part: a chain of entities with attributes of random clause and type and random UNIQUE rules over own
    and inherited attributes.
(Explicit re-declarations are a masked shape - open finding on the instance attribute list -: their flags are looked
at in the fixed probe vf/c02_redecl.py kind_matrix('explicit'), which carries UNIQUE rules for that purpose.)

What Unique() of a descriptor has to be (c02_model.want_unique): the descriptors of an entity are the attributes it
declares or re-declares; such an attribute is UNIQUE iff it is named (plainly or as SELF\\sup.attr) in one of the UNIQUE
rules of THAT entity.  A rule of a subtype that names an inherited attribute constrains the subtype's population only
and leaves the supertype's descriptor alone.
"""
import random
from . import model as M
from .model import Schema, TypeDef, Entity, Attr, Derived, Inverse, T, INT, REAL, STR, NAMED, ENT, AGG


def fixed_part(s):
    s.types += [TypeDef('label', 'simple', base=STR()), TypeDef('colour', 'enum', items=['red', 'green', 'blue'])]
    holder = Entity('holder', attrs=[Attr('ref', ENT('base')), Attr('many', AGG('LIST', ENT('base'), 0, None)), Attr('ref2', ENT('base'), True),
                                     Attr('sref', ENT('sub'), True)])
    base = Entity('base', attrs=[
        Attr('x_plain', INT()), Attr('x_opt', INT(), True),
        Attr('x_u_lab', STR()), Attr('x_u_unl', REAL()),
        Attr('x_ou_lab', NAMED('label'), True), Attr('x_ou_unl', NAMED('colour'), True),
        Attr('x_j1', INT()), Attr('x_j2', STR(), True),
        Attr('x_j3', T('BOOLEAN')), Attr('x_j4', ENT('base'), True),
        Attr('x_two', INT()),
        Attr('x_agg_u', AGG('LIST', INT(), 1, 3)), Attr('x_agg', AGG('SET', NAMED('label'), 0, None), True),
        Attr('x_ent_u', ENT('holder'), True), Attr('x_def', NAMED('label')),
        Attr('x_sub_only', INT()), Attr('x_red_d', INT()), Attr('x_red_d2', REAL(), True), Attr('x_red_u', INT()),
    ], derived=[
        Derived('d_plain', INT(), '1'), Derived('d_u_lab', STR(), "'k'"), Derived('d_u_unl', NAMED('label'), "'l'"),
        Derived('d_j', INT(), '2'), Derived('d_ent_u', ENT('holder'), '?'), Derived('d_ent', ENT('base'), '?'),
        Derived('d_agg_u', AGG('LIST', INT(), 0, None), '[]'), Derived('d_agg', AGG('SET', REAL(), 0, None), '[]'),
        Derived('d_two', NAMED('colour'), 'red'),
    ], inverse=[
        Inverse('i_plain', 'holder', 'ref'), Inverse('i_u', 'holder', 'many', 'SET', 0, 1), Inverse('i_j', 'holder', 'ref2', 'BAG', 0, None),
    ], unique=[
        ('ur1', ['x_u_lab']), (None, ['x_u_unl']), ('ur2', ['x_ou_lab']), (None, ['x_ou_unl']),
        ('urj1', ['x_j1', 'x_j2', 'd_j']), (None, ['x_j3', 'x_j4', 'i_j']),
        ('ur3', ['x_two']), ('urj2', ['x_two', 'x_j1']),
        ('ur4', ['x_agg_u']), ('ur5', ['x_ent_u']), ('ur6', ['d_u_lab']), (None, ['d_u_unl']), ('ur7', ['d_ent_u']), ('ur8', ['d_agg_u']),
        ('ur9', ['i_u']), ('ur10', ['x_red_u']), ('ur11', ['d_two']), (None, ['d_two', 'x_j3']),
    ])
    sub = Entity('sub', supers=['base'], attrs=[Attr('y_plain', INT()), Attr('y_u', STR(), True), Attr('y_j', REAL())],
                 derived=[Derived('x_red_d', INT(), '3', redeclares=('base', 'x_red_d')), Derived('x_red_d2', REAL(), '1.0', redeclares=('base', 'x_red_d2')),
                          Derived('x_red_u', INT(), '4', redeclares=('base', 'x_red_u')), Derived('e_plain', INT(), '5'), Derived('e_u', STR(), "'s'")],
                 inverse=[Inverse('si_u', 'holder', 'sref')],
                 unique=[('su1', ['y_u']), ('su2', ['x_sub_only']), ('su3', ['y_j', 'x_plain']), ('su4', ['x_red_d']), (None, ['e_u']),
                         ('su6', ['si_u']), ('su7', ['SELF\\base.x_opt']), (None, ['d_plain', 'y_j'])])
    sub2 = Entity('sub2', supers=['base'], attrs=[Attr('w', INT(), True)],
                  derived=[Derived('x_red_d', INT(), '7', redeclares=('base', 'x_red_d')), Derived('x_red_d2', REAL(), '2.0', redeclares=('base', 'x_red_d2'))],
                  unique=[('sq', ['SELF\\base.x_red_d2', 'w'])])
    leaf = Entity('leaf', supers=['sub'], attrs=[Attr('z', INT()), Attr('z2', INT(), True)], unique=[('lz', ['z', 'y_plain']), (None, ['x_u_lab', 'e_plain'])])
    side = Entity('side', attrs=[Attr('s_u', INT()), Attr('s_p', INT(), True)], derived=[Derived('s_d', INT(), '1')], unique=[(None, ['s_u']), ('sd', ['s_d', 's_u'])])
    both = Entity('both', supers=['sub', 'side'], attrs=[Attr('q', STR(), True)], unique=[('bq', ['s_p', 'y_plain']), ('bq2', ['q'])])
    s.entities += [holder, base, sub, sub2, leaf, side, both]


TYPES = [lambda: INT(), lambda: STR(), lambda: REAL(), lambda: NAMED('label'), lambda: NAMED('colour'), lambda: ENT('holder'),
         lambda: AGG('LIST', INT(), 0, None), lambda: AGG('SET', NAMED('label'), 1, 4), lambda: T('BOOLEAN')]
EXPR = {'INTEGER': '1', 'STRING': "'s'", 'REAL': '1.5', 'BOOLEAN': 'TRUE'}


def random_part(s, rng, n_ent=3):
    holder = Entity('rholder')
    s.entities.append(holder)
    prev, visible = None, []
    for k in range(n_ent):
        e = Entity('rnd%d' % k, supers=[prev] if prev else [])
        own = []
        for j in range(rng.randint(4, 8)):
            clause = rng.choice(['explicit', 'explicit', 'optional', 'derive', 'derive', 'inverse'])
            n = 'r%d_%s%d' % (k, clause[0], j)
            t = rng.choice(TYPES)()
            if clause in ('explicit', 'optional'):
                e.attrs.append(Attr(n, t, clause == 'optional'))
            elif clause == 'derive':
                x = EXPR.get(t.kind) or ('[]' if t.kind == 'aggr' else '?' if t.kind == 'entity' else "'d'" if t.name == 'label' else 'red')
                e.derived.append(Derived(n, t, x))
            else:
                form = rng.choice([None, 'SET', 'BAG'])
                holder.attrs.append(Attr('h_' + n, ENT(e.name) if form is None or rng.random() < .5 else AGG('LIST', ENT(e.name), 0, None), True))
                e.inverse.append(Inverse(n, 'rholder', 'h_' + n, form, 0 if form else None, None))
            own.append(n)
        # a derived re-declaration of an inherited explicit attribute
        inh_explicit = [(o, a) for o, a, d in (s.all_attrs(prev) if prev else []) if not d]
        if inh_explicit and rng.random() < .7:
            o, a = rng.choice(inh_explicit)
            if a.type.kind in EXPR and (o, a.name) not in s.redeclared_derived(prev):
                e.derived.append(Derived(a.name, T(a.type.kind), EXPR[a.type.kind], redeclares=(o, a.name)))
                own.append(a.name)
        for r in range(rng.randint(1, 4)):
            pool = own if rng.random() < .6 or not visible else own + visible
            names = rng.sample(pool, min(len(pool), rng.choice([1, 1, 2, 3])))
            e.unique.append(('u%d_%d' % (k, r) if rng.random() < .5 else None, names))
        s.entities.append(e)
        visible += [n for n in own if n not in visible]
        prev = e.name


def flags_matrix(seed, name=None, fixed=True, n_ent=3):
    s = Schema(name or 'xfl%d' % seed)
    fixed_part(s)
    if not fixed:
        s.entities = [e for e in s.entities if e.name == 'holder']
        s.entities[0].attrs = [Attr('none', INT(), True)]
    random_part(s, random.Random('c02flags/%d/%s' % (seed, s.name)), n_ent)
    s.tags.add('flags:optional/unique/derived/inverse matrix')
    return s
